#!/bin/sh
# Nothing is compiled: sanity-check the tools the checks need (offline).
set -e
command -v java >/dev/null
test -f /opt/veriftools/tla/tla2tools.jar
command -v apalache-mc >/dev/null
/venv/bin/python -c "import sys; sys.path.insert(0, '/repo'); import botocore, s3transfer"
mkdir -p /verif/evidence /verif/replays
echo "setup ok"
