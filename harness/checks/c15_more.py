"""C15 rows of the other front-ends named in the property's anchors: the
legacy s3transfer.S3Transfer (upload_file / download_file, single and
multipart / ranged) and the process-pool downloader.  Same Routing.tla, same
capture of the keyword arguments of every API call."""

import coop

from checks.c15 import VALUES, NOT_ALLOWED


def rows():
    import s3transfer as L
    import s3transfer.processpool as P
    out = []

    def add(fe, method, mode, known, given, ops, expect='ok'):
        out.append(dict(fe=fe, method=method, mode=mode, known=known, given=given,
                        ops=ops, expect=expect, defaults=False))
    up_ops = {'single': ['PutObject'],
              'multipart': ['CreateMultipartUpload', 'UploadPart',
                            'CompleteMultipartUpload']}
    for mode in ('single', 'multipart'):
        for a in L.S3Transfer.ALLOWED_UPLOAD_ARGS:
            add('legacy', 'upload', mode, True, {a: VALUES.get(a, 'x')}, up_ops[mode])
        add('legacy', 'upload', mode, True, {}, up_ops[mode])
        for a in NOT_ALLOWED + ['VersionId', 'MFA']:
            add('legacy', 'upload', mode, True, {a: 'x'}, [], expect='rejected')
        # the legacy download always discovers the size with HeadObject
        for a in L.S3Transfer.ALLOWED_DOWNLOAD_ARGS:
            add('legacy', 'download', mode, False, {a: VALUES[a]},
                ['GetObject', 'HeadObject'])
        add('legacy', 'download', mode, False, {
            'VersionId': 'v1', 'RequestPayer': 'requester'}, ['GetObject', 'HeadObject'])
        for a in NOT_ALLOWED + ['ACL']:
            add('legacy', 'download', mode, False, {a: 'x'}, [], expect='rejected')
    for mode in ('single', 'multipart'):
        for known in (True, False):
            ops = ['GetObject'] + ([] if known else ['HeadObject'])
            for a in P.ALLOWED_DOWNLOAD_ARGS:
                add('processpool', 'download', mode, known, {a: VALUES[a]}, ops)
            add('processpool', 'download', mode, known, {}, ops)
            for a in NOT_ALLOWED + ['ACL']:
                add('processpool', 'download', mode, known, {a: 'x'}, [], expect='rejected')
    return out


def _calls(api_calls, given):
    calls = []
    for op, params in api_calls:
        if op == 'AbortMultipartUpload':
            continue
        changed = [k for k, v in params.items() if k in given and given[k] != v]
        calls.append({'op': op, 'args': sorted(params), 'changed': changed,
                      'algo': str(params.get('ChecksumAlgorithm', '')),
                      'ctype': str(params.get('ChecksumType', ''))})
    return calls


def run_row(row):
    size = 3 if row['mode'] == 'single' else 5
    given = dict(row['given'])
    if row['fe'] == 'legacy':
        import legacy
        sc = {'transfer': {'kind': row['method'], 'size': size, 'extra_args': given},
              'delays': [0]}
        res = legacy.run(sc, 0)
        out = res['results'].get(0) or ('none', None)
        rejected = out[0] == 'raise' and 'ValueError' in str(out[1]) and not res['api_calls']
        return {'calls': _calls(res['api_calls'], given), 'rejected': rejected,
                'completed': out[0] == 'ok', 'outcome': str(out)}
    if row['fe'] == 'processpool':
        import ppool
        sc = {'workers': 1, 'downloads': [{'size': size, 'known': row['known'],
                                           'extra_args': given}]}
        try:
            res = ppool.run(sc, coop.FifoChooser())
        except ValueError as e:
            return {'calls': [], 'rejected': True, 'completed': False, 'outcome': repr(e)}
        rej = [e for e in res['thread_errors'] if 'ValueError' in e[1]]
        if res['thread_errors'] and not rej:
            raise RuntimeError(res['thread_errors'][0][2])
        out = res['results'].get(0)
        return {'calls': _calls(res['api_calls'], given),
                'rejected': bool(rej) and not res['api_calls'],
                'completed': out == 'ok', 'outcome': str(out)}
    raise ValueError(row['fe'])
