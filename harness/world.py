"""One deterministic execution of the real TransferManager in a fake world.

``run_scenario(sc, chooser)`` builds: scheduler + tracer, fake S3 behind a real
botocore client, a real temp directory, recording OSUtils / streams /
subscribers, the real TransferManager on CoopExecutor, then plays the user
script of the scenario and returns the recorded trace.

Scenarios are plain JSON-able dicts so that a failing run can be stored and
replayed (scenario + choice list).
"""

import io
import os
import shutil
import sys
import tempfile

sys.path.insert(0, os.path.dirname(os.path.abspath(__file__)))

import coop  # noqa: E402
import fakes3  # noqa: E402

REPO = os.environ.get('VERIF_REPO', '/repo')
if REPO not in sys.path:
    sys.path.insert(0, REPO)

import s3transfer.futures as _futures  # noqa: E402
import s3transfer.manager as _manager  # noqa: E402
import s3transfer.upload as _upload  # noqa: E402
import s3transfer.copies as _copies  # noqa: E402
import s3transfer.utils as _utils  # noqa: E402
from s3transfer.exceptions import CancelledError, FatalError  # noqa: E402

BUCKET = 'bkt'

DEFAULT_CFG = dict(
    threshold=4, chunk=2, R=2, S=1, RQ=1000, SQ=1000, IOQ=1000, io_chunk=2,
    attempts=3, up_chunks=2, down_chunks=2, bandwidth=None,
)


class InjectedError(Exception):
    """Base of the exceptions the world injects (file system, callbacks)."""

    def __init__(self, tag):
        super().__init__(tag)
        self.tag = tag


class InjectedOSError(OSError):
    def __init__(self, tag):
        super().__init__(tag)
        self.tag = tag


class InjectedBrokenPipe(BrokenPipeError):
    def __init__(self, tag):
        super().__init__(32, tag)
        self.tag = tag


class InjectedTimeout(TimeoutError):
    def __init__(self, tag):
        super().__init__(tag)
        self.tag = tag


def injected(f, tag, default=None):
    """The exception object for fault spec ``f`` (key 'exc' picks the class:
    a destination can fail with EPIPE or a timeout, a callback with OSError)."""
    kind = (f or {}).get('exc')
    if kind == 'brokenpipe':
        return InjectedBrokenPipe(tag)
    if kind == 'timeout':
        return InjectedTimeout(tag)
    if kind == 'oserror':
        return InjectedOSError(tag)
    return (default or InjectedError)(tag)


# ---------------------------------------------------------------------------
class World:
    def __init__(self, sc, chooser, max_steps=20000):
        self.sc = sc
        self.cfg = dict(DEFAULT_CFG)
        self.cfg.update(sc.get('cfg', {}))
        self.events = []
        self.sched = coop.Scheduler(chooser, tracer=self.events.append,
                                    max_steps=max_steps)
        self.svc = fakes3.FakeS3(emit=self._emit_s3, point=self.sched.point)
        self.svc.body_read_size = sc.get('body_read', None)
        self.svc.log_body_sends = bool(sc.get('log_body_sends'))
        if sc.get('latency'):
            self.svc.latency_plan = self._latency
        self.tmp = None
        self.key2x = {}
        self.xinfo = {}
        self.futures = {}
        self.results = {}
        self.counters = {}
        self.fs_state = None
        self.in_hook = False
        self.user_error = None

    # -- tracing -----------------------------------------------------------
    def emit(self, e, **kw):
        self.sched.emit(e, **kw)

    def _emit_s3(self, e, **kw):
        key = kw.get('key')
        if e == 'S3Begin':
            x = self.key2x.get(key, -1)
            kw['x'] = x
            self._seq2x[kw['seq']] = x
        elif 'seq' in kw:
            kw['x'] = self._seq2x.get(kw['seq'], -1)
        for k in list(kw):
            if kw[k] is None:
                del kw[k]
        self.sched.emit(e, **kw)

    def _latency(self, call, phase):
        """sc['latency'] = [{op, nth (per op, default every), phase, d}]: the
        request stays in flight for d units of virtual time, i.e. until every
        other thread is blocked or sleeps longer."""
        for la in self.sc['latency']:
            if la.get('op') != call['op'] or la.get('phase', 'begin') != phase:
                continue
            if 'nth' in la:
                key = ('lat', id(la), phase)
                seen = self.counters.setdefault(('latseq', id(la)), [])
                if call['seq'] not in seen:
                    seen.append(call['seq'])
                if seen.index(call['seq']) + 1 != la['nth']:
                    continue
            self.sched.sleep(la.get('d', 1.0))
            return

    def count(self, name):
        self.counters[name] = self.counters.get(name, 0) + 1
        return self.counters[name]

    def fault_due(self, kind, **attrs):
        """Is a (non-S3) fault planned for this occurrence?"""
        for f in self.sc.get('faults', []):
            if f.get('on') != kind:
                continue
            ok = all(f.get(k) == v for k, v in attrs.items() if k in f)
            if not ok:
                continue
            n = self.count(('f', id(f)))
            if n == f.get('nth', 1):
                return f
        return None

    # -- fake S3 plans -------------------------------------------------------
    def _fault_plan(self, call):
        for f in self.sc.get('faults', []):
            if f.get('on') != 's3':
                continue
            if 'seq' in f:
                if call['seq'] != f['seq']:
                    continue
            else:
                if f.get('op') and f['op'] != call['op']:
                    continue
                if 'part' in f and call.get('PartNumber') != f['part']:
                    continue
                if 'x' in f and self.key2x.get(call['key'], -1) != f['x']:
                    continue
                n = self.count(('f', id(f)))
                if n != f.get('nth', 1):
                    continue
            tag = f.get('tag') or f"F{call['seq']}"
            self.emit('FaultInjected', on='s3', seq=call['seq'], tag=tag,
                      kind=f.get('kind', 'client'), after=bool(f.get('after')))
            return fakes3.Fault(f.get('kind', 'client'), bool(f.get('after')),
                                tag)
        return None

    def _stream_plan(self, call):
        for s in self.sc.get('streams', []):
            if 'x' in s and self.key2x.get(call['key'], -1) != s['x']:
                continue
            if 'range_start' in s:
                rng = call.get('Range') or 'bytes=0-'
                if not rng.startswith(f"bytes={s['range_start']}-"):
                    continue
            if 'attempt' in s and call.get('get_attempt') != s['attempt']:
                continue
            return fakes3.StreamScript(
                reads=s.get('reads', ()), fault_after=s.get('fault_after'),
                fault=s.get('fault'))
        return None

    # -- file system snapshots ---------------------------------------------------
    def _snapshot_hook(self, sched):
        if self.in_hook:
            return
        self.in_hook = True
        try:
            if self.dests:
                st = self._fs_classify()
                if st != self.fs_state:
                    self.fs_state = st
                    self.emit('FsSnapshot', files=st)
            for x, fut in list(self.futures.items()):
                try:
                    d = bool(fut.done())
                except Exception:
                    continue
                if d != self._doneflag.get(x, False):
                    self._doneflag[x] = d
                    self.emit('DoneFlip', x=x, done=d)
        finally:
            self.in_hook = False

    def _fs_classify(self):
        out = []
        try:
            names = sorted(os.listdir(self.tmp))
        except OSError:
            names = []
        for x, d in sorted(self.dests.items()):
            base = os.path.basename(d['path'])
            st = 'absent'
            temps = 0
            for n in names:
                if n == base:
                    try:
                        with open(os.path.join(self.tmp, n), 'rb') as f:
                            c = f.read()
                    except OSError:
                        c = None
                    if c == d['complete']:
                        st = 'complete'
                    elif d['old'] is not None and c == d['old']:
                        st = 'old'
                    else:
                        st = 'partial'
                elif n.startswith(base + os.extsep):
                    temps += 1
            out.append({'x': x, 'dest': st, 'temps': temps})
        return out

    # -- building blocks ------------------------------------------------------------
    def build(self):
        sc, cfg = self.sc, self.cfg
        self.tmp = tempfile.mkdtemp(prefix='verif-run-')
        self._seq2x = {}
        self._doneflag = {}
        self.dests = {}
        self.svc.fault_plan = self._fault_plan
        self.svc.stream_plan = self._stream_plan
        cl = sc.get('client', {})
        self.api_calls = []
        self.client = fakes3.make_client(
            self.svc, retries=cl.get('retries', 1),
            checksum=cl.get('checksum', 'when_required'),
            on_params=lambda op, p: self.api_calls.append((op, p)))
        self.osutil = RecordingOSUtils(self)
        coop.CoopExecutor.stage_names = ['request', 'submission', 'io']
        tcfg = _manager.TransferConfig(
            multipart_threshold=cfg['threshold'],
            multipart_chunksize=cfg['chunk'],
            max_request_concurrency=cfg['R'],
            max_submission_concurrency=cfg['S'],
            max_request_queue_size=cfg['RQ'],
            max_submission_queue_size=cfg['SQ'],
            max_io_queue_size=cfg['IOQ'],
            io_chunksize=cfg['io_chunk'],
            num_download_attempts=cfg['attempts'],
            max_in_memory_upload_chunks=cfg['up_chunks'],
            max_in_memory_download_chunks=cfg['down_chunks'],
            max_bandwidth=cfg['bandwidth'],
        )
        self.manager = _manager.TransferManager(
            self.client, tcfg, osutil=self.osutil,
            executor_cls=coop.CoopExecutor)
        self.sched.point_hooks.append(self._snapshot_hook)

    def teardown(self):
        if self.tmp:
            shutil.rmtree(self.tmp, ignore_errors=True)

    # -- transfers ---------------------------------------------------------------
    def prepare_transfer(self, x, t):
        kind = t['kind']
        key = f'k{x}'
        size = t.get('size', 0)
        data = fakes3.pattern(size)
        info = {'kind': kind, 'key': key, 'size': size, 'data': data}
        self.key2x[key] = x
        subs = [RecordingSubscriber(self, x, i, s)
                for i, s in enumerate(t.get('subs', [{}]))]
        info['subs'] = subs
        extra = dict(t.get('extra_args', {}))
        if t.get('extra_ref'):
            # the caller re-uses ONE dict object for several calls
            shared = self.__dict__.setdefault('shared_extra', {})
            extra = shared.setdefault(t['extra_ref'], extra)
        upd = t.get('extra_update')
        if kind == 'upload':
            self.svc.register_source(key, data)
            p0 = t.get('offset', 0)
            src = t.get('src', 'path')
            if src == 'path':
                path = os.path.join(self.tmp, f'src{x}')
                with open(path, 'wb') as f:
                    f.write(data)
                fobj = path
            elif src == 'seekable':
                fobj = SeekableSource(self, x, b'\xfe' * p0 + data, p0)
            elif src == 'seekable-noattr':
                fobj = BareSeekableSource(self, x, b'\xfe' * p0 + data, p0)
            else:
                fobj = NonSeekableSource(self, x, data, t.get('src_reads'))
            def _call_upload():
                if upd:
                    extra.update(upd)
                return self.manager.upload(
                    fobj, BUCKET, key,
                    extra_args=extra if (extra or t.get('extra_ref')) else None,
                    subscribers=subs)
            info['call'] = _call_upload
        elif kind == 'download':
            self.svc.put(BUCKET, key, data)
            dst = t.get('dst', 'path')
            info['dst'] = dst
            if dst == 'path':
                path = os.path.join(self.tmp, f'dst{x}')
                old = None
                if t.get('old'):
                    old = b'OLD-CONTENT-' + bytes([200 + x])
                    with open(path, 'wb') as f:
                        f.write(old)
                self.dests[x] = {'path': path, 'old': old, 'complete': data}
                fobj = path
            elif dst == 'seekable':
                fobj = SeekableDest(self, x, t.get('offset', 0))
            else:
                fobj = NonSeekableDest(self, x)
            info['fobj'] = fobj
            info['call'] = lambda: self.manager.download(
                BUCKET, key, fobj, extra_args=extra or None, subscribers=subs)
        elif kind == 'copy':
            skey = f'src-k{x}'
            self.key2x[skey] = x
            self.svc.put(BUCKET, skey, data)
            def _call_copy():
                if upd:
                    extra.update(upd)
                return self.manager.copy(
                    {'Bucket': BUCKET, 'Key': skey}, BUCKET, key,
                    extra_args=extra if (extra or t.get('extra_ref')) else None,
                    subscribers=subs)
            info['call'] = _call_copy
        elif kind == 'delete':
            self.svc.put(BUCKET, key, data)
            info['call'] = lambda: self.manager.delete(
                BUCKET, key, extra_args=extra or None, subscribers=subs)
        else:
            raise ValueError(kind)
        self.xinfo[x] = info
        return info

    def submit(self, x):
        info = self.xinfo[x]
        self.emit('Call', x=x, kind=info['kind'])
        try:
            fut = info['call']()
        except BaseException as e:
            self.emit('Ret', x=x, ok=False, err=exc_tag(e))
            raise
        self.futures[x] = fut
        self.emit('Ret', x=x, ok=True)
        return fut

    def result(self, x):
        fut = self.futures[x]
        self.emit('ResultBegin', x=x)
        try:
            r = fut.result()
        except KeyboardInterrupt as e:
            self.results[x] = ('kbi', e)
            self.emit('ResultEnd', x=x, outcome='kbi', exc=exc_tag(e))
            raise
        except BaseException as e:
            self.results[x] = ('raise', e)
            self._snapshot_hook(self.sched)
            self.emit('ResultEnd', x=x, outcome='raise', exc=exc_tag(e),
                      cls=exc_class(e), msg=str(e)[:80])
            return ('raise', e)
        self.results[x] = ('ok', r)
        self._snapshot_hook(self.sched)
        self.emit('ResultEnd', x=x, outcome='ok')
        return ('ok', r)

    def result_again(self, x):
        fut = self.futures[x]
        try:
            fut.result()
        except KeyboardInterrupt:
            return
        except BaseException as e:  # noqa
            self.emit('ResultAgain', x=x, outcome='raise', exc=exc_tag(e))
            return
        self.emit('ResultAgain', x=x, outcome='ok')

    # -- final observation ------------------------------------------------------------
    def final_state(self):
        out = {}
        for x, info in self.xinfo.items():
            kind = info['kind']
            rec = {'x': x, 'kind': kind, 'size': info['size']}
            obj = self.svc.objects.get((BUCKET, info['key']))
            if kind in ('upload', 'copy'):
                rec['object'] = (
                    'absent' if obj is None else
                    'equal' if obj == info['data'] else 'differs')
                meta = self.svc.object_meta.get((BUCKET, info['key']))
                rec['via'] = meta['via'] if meta else 'none'
            if kind == 'delete':
                rec['object'] = 'absent' if obj is None else 'present'
            if kind == 'download':
                dst = info['dst']
                if dst == 'path':
                    p = self.dests[x]['path']
                    try:
                        with open(p, 'rb') as f:
                            c = f.read()
                        rec['dest'] = (
                            'complete' if c == info['data'] else
                            'old' if c == self.dests[x]['old'] else 'partial')
                    except OSError:
                        rec['dest'] = 'absent'
                else:
                    c = info['fobj'].content()
                    rec['dest'] = 'complete' if c == info['data'] else 'differs'
                    rec['dest_len'] = len(c)
            out[x] = rec
        return out


def exc_tag(e):
    """Identify an exception: injected tag, class, chained cause."""
    if e is None:
        return 'none'
    from s3transfer.exceptions import RetriesExceededError
    from botocore.exceptions import ClientError
    if isinstance(e, RetriesExceededError):
        return 'retries(' + exc_tag(e.last_exception) + ')'
    if isinstance(e, ClientError):
        msg = e.response.get('Error', {}).get('Message', '')
        return f"s3:{e.response.get('Error', {}).get('Code')}:{msg}"
    if isinstance(e, (InjectedError, InjectedOSError)) or (
            getattr(e, 'tag', None) and isinstance(e, (BrokenPipeError, TimeoutError))):
        return 'inj:' + e.tag
    if isinstance(e, FatalError):
        return 'fatal:' + str(e)
    if isinstance(e, CancelledError):
        return 'cancel:' + str(e)
    if isinstance(e, fakes3.InjectedFault):
        return 'stream-fatal'
    return type(e).__name__


def exc_class(e):
    if isinstance(e, FatalError):
        return 'FatalError'
    if isinstance(e, CancelledError):
        return 'CancelledError'
    return type(e).__name__


# ---------------------------------------------------------------------------
# subscribers
# ---------------------------------------------------------------------------
class RecordingSubscriber:
    """Records callbacks; behaviour options (dict ``opt``):

    provide_size: n       -> meta.provide_transfer_size(n) in on_queued
    raise_done: True      -> on_done raises
    reenter: [names]      -> in on_done call these public methods of the
                             future: done, meta, result, set_exception, cancel
    """

    def __init__(self, world, x, idx, opt):
        self.w = world
        self.x = x
        self.idx = idx
        self.opt = opt or {}

    def on_queued(self, future, **kwargs):
        w = self.w
        w.emit('CbBegin', cb='queued', x=self.x, sub=self.idx)
        w.sched.point('cb')
        try:
            if 'provide_size' in self.opt:
                future.meta.provide_transfer_size(self.opt['provide_size'])
            f = w.fault_due('on_queued', x=self.x, sub=self.idx)
            if f:
                tag = f.get('tag', f'CBQ{self.x}')
                w.emit('FaultInjected', on='on_queued', tag=tag, x=self.x)
                raise injected(f, tag)
        finally:
            w.emit('CbEnd', cb='queued', x=self.x, sub=self.idx)

    def on_progress(self, future, bytes_transferred, **kwargs):
        w = self.w
        w.emit('CbBegin', cb='progress', x=self.x, sub=self.idx,
               n=bytes_transferred)
        w.sched.point('cb')
        try:
            f = w.fault_due('on_progress', x=self.x, sub=self.idx)
            if f:
                tag = f.get('tag', f'CBP{self.x}')
                w.emit('FaultInjected', on='on_progress', tag=tag, x=self.x)
                raise injected(f, tag)
        finally:
            w.emit('CbEnd', cb='progress', x=self.x, sub=self.idx)

    def on_done(self, future, **kwargs):
        w = self.w
        flag = bool(future.done())
        st = ''
        if self.opt.get('probe_result', True):
            # result() must no longer block once on_done runs
            try:
                future.result()
                st = 'success'
            except BaseException:  # noqa
                st = 'error'
        w.emit('CbBegin', cb='done', x=self.x, sub=self.idx, flag=flag, st=st)
        w.sched.point('cb')
        try:
            for name in self.opt.get('reenter', ()):
                w.emit('Reenter', x=self.x, what=name)
                if name == 'done':
                    future.done()
                elif name == 'meta':
                    future.meta.size
                elif name == 'result':
                    try:
                        future.result()
                    except Exception:
                        pass
                elif name == 'set_exception':
                    future.set_exception(InjectedError(f'USER{self.x}'))
                elif name == 'cancel':
                    future.cancel()
            if self.opt.get('raise_done'):
                raise InjectedError(f'CBD{self.x}')
        finally:
            w.emit('CbEnd', cb='done', x=self.x, sub=self.idx)


# ---------------------------------------------------------------------------
# streams
# ---------------------------------------------------------------------------
class SeekableSource:
    def __init__(self, world, x, data, p0):
        self.w = world
        self.x = x
        self._b = io.BytesIO(data)
        self._b.seek(p0)
        self.p0 = p0

    def readable(self):
        return True

    def seekable(self):
        return True

    def read(self, n=-1):
        w = self.w
        w.sched.point('src-read')
        f = w.fault_due('src_read', x=self.x)
        if f:
            tag = f.get('tag', f'SRC{self.x}')
            w.emit('FaultInjected', on='src_read', tag=tag, x=self.x)
            raise InjectedError(tag)
        pos = self._b.tell()
        d = self._b.read(n)
        w.emit('SrcRead', x=self.x, off=pos - self.p0, len=len(d),
               req=(-1 if n is None else n))
        return d

    def seek(self, where, whence=0):
        r = self._b.seek(where, whence)
        self.w.emit('SrcSeek', x=self.x, pos=self._b.tell() - self.p0)
        return r

    def tell(self):
        return self._b.tell()

    def close(self):
        self.w.emit('SrcClose', x=self.x)


class BareSeekableSource:
    """A hand-written file-like wrapper: read/seek/tell/close only (no
    seekable()/readable() methods)."""

    def __init__(self, world, x, data, p0):
        self._s = SeekableSource(world, x, data, p0)

    def read(self, n=-1):
        return self._s.read(n)

    def seek(self, where, whence=0):
        return self._s.seek(where, whence)

    def tell(self):
        return self._s.tell()

    def close(self):
        return self._s.close()


class NonSeekableSource:
    def __init__(self, world, x, data, reads=None):
        self.w = world
        self.x = x
        self._b = io.BytesIO(data)
        self._reads = list(reads or [])
        self._ri = 0

    def readable(self):
        return True

    def read(self, n=-1):
        w = self.w
        w.sched.point('src-read')
        f = w.fault_due('src_read', x=self.x)
        if f:
            tag = f.get('tag', f'SRC{self.x}')
            w.emit('FaultInjected', on='src_read', tag=tag, x=self.x)
            raise InjectedError(tag)
        pos = self._b.tell()
        if self._reads and n is not None and n > 0:
            # a pipe/socket-like stream: read(n) may return fewer than n
            # bytes before EOF; read() without a size still drains to EOF
            cap = self._reads[self._ri % len(self._reads)]
            self._ri += 1
            n = min(n, cap)
        d = self._b.read(n)
        w.emit('SrcRead', x=self.x, off=pos, len=len(d),
               req=(-1 if n is None else n))
        return d


class SeekableDest:
    def __init__(self, world, x, p0=0):
        self.w = world
        self.x = x
        self._b = io.BytesIO()
        self.busy = None

    def seekable(self):
        return True

    def seek(self, where, whence=0):
        self.w.emit('DstSeek', x=self.x, pos=where)
        return self._b.seek(where, whence)

    def tell(self):
        return self._b.tell()

    def write(self, data):
        w = self.w
        pos = self._b.tell()
        w.emit('DstWriteBegin', x=self.x, off=pos, len=len(data))
        w.sched.point('dst-write')
        f = w.fault_due('dst_write', x=self.x)
        if f:
            tag = f.get('tag', f'DST{self.x}')
            w.emit('FaultInjected', on='dst_write', tag=tag, x=self.x)
            w.emit('DstWriteEnd', x=self.x, ok=False)
            raise injected(f, tag, InjectedOSError)
        self._b.write(data)
        loc = fakes3.locate(w.xinfo[self.x]['data'], data)
        w.emit('DstWriteEnd', x=self.x, ok=True, off=pos, len=len(data),
               src=(loc[0] if loc else -1))

    def content(self):
        return self._b.getvalue()


class NonSeekableDest:
    def __init__(self, world, x):
        self.w = world
        self.x = x
        self._chunks = []
        self._n = 0

    def write(self, data):
        w = self.w
        w.emit('DstWriteBegin', x=self.x, off=self._n, len=len(data))
        w.sched.point('dst-write')
        f = w.fault_due('dst_write', x=self.x)
        if f:
            tag = f.get('tag', f'DST{self.x}')
            w.emit('FaultInjected', on='dst_write', tag=tag, x=self.x)
            w.emit('DstWriteEnd', x=self.x, ok=False)
            raise injected(f, tag, InjectedOSError)
        loc = fakes3.locate(w.xinfo[self.x]['data'], data)
        w.emit('DstWriteEnd', x=self.x, ok=True, off=self._n, len=len(data),
               src=(loc[0] if loc else -1))
        self._chunks.append(data)
        self._n += len(data)

    def content(self):
        return b''.join(self._chunks)


# ---------------------------------------------------------------------------
# OS utilities
# ---------------------------------------------------------------------------
class FileProxy:
    def __init__(self, world, f, name, mode):
        self.w = world
        self._f = f
        self.name = name
        self.mode = mode
        self.x = world.path2x(name)

    def write(self, data):
        w = self.w
        pos = self._f.tell()
        w.emit('FsWriteBegin', x=self.x, off=pos, len=len(data))
        w.sched.point('fs-write')
        f = w.fault_due('fs_write', x=self.x)
        if f:
            tag = f.get('tag', f'FSW{self.x}')
            w.emit('FaultInjected', on='fs_write', tag=tag, x=self.x)
            w.emit('FsWriteEnd', x=self.x, ok=False)
            raise injected(f, tag, InjectedOSError)
        self._f.write(data)
        self._f.flush()
        src = -1
        if self.x in w.xinfo:
            loc = fakes3.locate(w.xinfo[self.x]['data'], data)
            src = loc[0] if loc else -1
        w.emit('FsWriteEnd', x=self.x, ok=True, off=pos, len=len(data),
               src=src)

    def read(self, n=-1):
        return self._f.read(n)

    def seek(self, where, whence=0):
        return self._f.seek(where, whence)

    def tell(self):
        return self._f.tell()

    def close(self):
        w = self.w
        if self._f.closed:
            return
        if 'w' in self.mode or '+' in self.mode:
            f = w.fault_due('fs_close', x=self.x)
            if f:
                tag = f.get('tag', f'FSC{self.x}')
                w.emit('FaultInjected', on='fs_close', tag=tag, x=self.x)
                self._f.close()
                raise InjectedOSError(tag)
            w.emit('FsClose', x=self.x)
        self._f.close()

    def fileno(self):
        return self._f.fileno()

    def __enter__(self):
        return self

    def __exit__(self, *a):
        self.close()

    @property
    def closed(self):
        return self._f.closed


class RecordingOSUtils(_utils.OSUtils):
    def __init__(self, world):
        self.w = world

    def open(self, filename, mode):
        w = self.w
        x = w.path2x(filename)
        if 'w' in mode:
            w.sched.point('fs-open')
            f = w.fault_due('fs_open', x=x)
            if f:
                tag = f.get('tag', f'FSO{x}')
                w.emit('FaultInjected', on='fs_open', tag=tag, x=x)
                raise InjectedOSError(tag)
            w.emit('FsOpen', x=x, mode=mode,
                   temp=os.path.basename(filename) != f'dst{x}')
        return FileProxy(w, open(filename, mode), filename, mode)

    def remove_file(self, filename):
        w = self.w
        w.emit('FsRemove', x=w.path2x(filename),
               existed=os.path.exists(filename))
        return super().remove_file(filename)

    def rename_file(self, current_filename, new_filename):
        w = self.w
        x = w.path2x(new_filename)
        w.sched.point('fs-rename')
        f = w.fault_due('fs_rename', x=x)
        if f:
            tag = f.get('tag', f'FSR{x}')
            w.emit('FaultInjected', on='fs_rename', tag=tag, x=x)
            raise InjectedOSError(tag)
        w.emit('FsRenameBegin', x=x)
        super().rename_file(current_filename, new_filename)
        w.emit('FsRename', x=x)


def _path2x(self, filename):
    base = os.path.basename(filename)
    for pre in ('dst', 'src'):
        if base.startswith(pre):
            num = ''
            for ch in base[len(pre):]:
                if ch.isdigit():
                    num += ch
                else:
                    break
            if num:
                return int(num)
    return -1


World.path2x = _path2x
