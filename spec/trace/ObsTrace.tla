------------------------------ MODULE ObsTrace ------------------------------
(***************************************************************************)
(* Monitor layer of trace validation: the events recorded from one         *)
(* execution of the real code are applied, one per step, to the observable *)
(* state of Obs.tla, and every clause of Props.tla is evaluated in every   *)
(* state.  Many traces per TLC run (one initial state per trace); the      *)
(* verdict of a trace - the clauses that failed and the index of the event *)
(* at which each failed first - is printed when its last event has been    *)
(* consumed.  Verdicts are total: a failing clause never stops the trace.  *)
(***************************************************************************)
EXTENDS Props, Json, IOUtils, TLCExt

Traces == ndJsonDeserialize(IOEnv.TRACE_FILE)

VARIABLES tid, l, o, viol
tvars == <<tid, l, o, viol>>

TInit ==
    /\ tid \in 1..Len(Traces)
    /\ l = 1
    /\ o = InitObs(Traces[tid].meta)
    /\ viol = {}

TNext ==
    /\ l <= Len(Traces[tid].ev)
    /\ o' = Apply(o, Traces[tid].ev[l])
    /\ l' = l + 1
    /\ LET seen == {v[1] : v \in viol} IN
       viol' = viol \cup {<<c, l>> : c \in (Violated(o') \ seen)}
    /\ UNCHANGED tid

TSpec == TInit /\ [][TNext]_tvars

Report ==
    (l = Len(Traces[tid].ev) + 1) =>
        PrintT("VERDICT " \o ToJson([id |-> Traces[tid].id, n |-> l - 1, viol |-> viol]))
=============================================================================
