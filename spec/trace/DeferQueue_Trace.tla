-------------------------- MODULE DeferQueue_Trace --------------------------
(***************************************************************************)
(* code -> spec for DeferQueue at geometries beyond exhaustive reach (4-6   *)
(* parts, many chunks held back): the harness generates random delivery    *)
(* histories by the rules of the property (a part's attempt delivers        *)
(* consecutive chunks from the part's first byte, cut anywhere; it may stop *)
(* anywhere and the next attempt starts over, cut differently; attempts of  *)
(* different parts interleave), feeds each request to a real DeferQueue and *)
(* logs what request_writes returned.  Every line must be a step of         *)
(* DeferQueue.tla - the history a legal one, the writes the specified ones -*)
(* and the C16 clauses are invariants of every visited state.              *)
(***************************************************************************)
EXTENDS DeferQueue, Json, IOUtils, TLCExt

Traces == ndJsonDeserialize(IOEnv.TRACE_FILE)
VARIABLES tid, l
tvars == <<vars, tid, l>>
Ev == Traces[tid].ev[l]
More == l <= Len(Traces[tid].ev)
TInit == Init /\ tid \in 1..Len(Traces) /\ l = 1 /\ TLCSet(tid, 0)

OutOf(e) == [i \in 1..Len(e.out) |-> <<e.out[i][1], e.out[i][2]>>]
Step(e) ==
    CASE e.k = "begin" -> Begin(e.p)
      [] e.k = "deliver" -> Deliver(e.p, e.len) /\ cursor[e.p] = e.off /\ last'.out = OutOf(e)
      [] OTHER -> FALSE
TNext == More /\ Step(Ev) /\ l' = l + 1 /\ UNCHANGED tid
TSpec == TInit /\ [][TNext]_tvars
Progress == TLCSet(tid, IF TLCGet(tid) < l THEN l ELSE TLCGet(tid))
Final_ ==
    \A i \in 1..Len(Traces) :
        PrintT("DQTRACE " \o ToJson([id |-> Traces[i].id, reached |-> TLCGet(i), len |-> Len(Traces[i].ev)]))
=============================================================================
