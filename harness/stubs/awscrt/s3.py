import enum


class S3RequestType(enum.IntEnum):
    DEFAULT = 0
    GET_OBJECT = 1
    PUT_OBJECT = 2


class S3RequestTlsMode(enum.IntEnum):
    ENABLED = 0
    DISABLED = 1


class S3ChecksumAlgorithm(enum.IntEnum):
    CRC32C = 1
    CRC32 = 2
    SHA1 = 3
    SHA256 = 4
    CRC64NVME = 5


class S3ChecksumLocation(enum.IntEnum):
    HEADER = 1
    TRAILER = 2


class S3ChecksumConfig:
    def __init__(self, algorithm=None, location=None, validate_response=False):
        self.algorithm = algorithm
        self.location = location
        self.validate_response = validate_response


class S3ResponseError(Exception):
    def __init__(self, code=0, name='', message='', status_code=None,
                 headers=None, body=None, operation_name=None):
        super().__init__(message)
        self.code = code
        self.name = name
        self.message = message
        self.status_code = status_code
        self.headers = headers
        self.body = body
        self.operation_name = operation_name


class CrossProcessLock:
    def __init__(self, name):
        self.name = name

    def acquire(self):
        pass


def get_recommended_throughput_target_gbps():
    return None


class S3Client:
    """The harness replaces this class' behaviour (see harness/crtglue.py)."""

    def __init__(self, *a, **k):
        pass

    def make_request(self, **kwargs):
        raise NotImplementedError
