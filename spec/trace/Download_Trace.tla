--------------------------- MODULE Download_Trace ---------------------------
(***************************************************************************)
(* Trace validation for Download.tla: every recorded execution of the real *)
(* TransferManager downloading one object by ranged GETs to a file path    *)
(* must be a behaviour of the specification (same scheme as                *)
(* Pipeline_Trace.tla: one logged event = the specification action of the  *)
(* logging thread with the logged values; actions without an event are     *)
(* silent steps).                                                          *)
(***************************************************************************)
EXTENDS Download, Json, IOUtils, TLCExt

Traces == ndJsonDeserialize(IOEnv.TRACE_FILE)
VARIABLES tid, l
tvars == <<vars, tid, l>>
Ev == Traces[tid].ev[l]
More == l <= Len(Traces[tid].ev)

TInit == Init /\ tid \in 1..Len(Traces) /\ l = 1 /\ TLCSet(tid, 0)

IsW(th) == th \in Workers
FinalClass == IF Dest = "path" THEN "IORenameFileTask" ELSE "CompleteDownloadNOOPTask"
WriteClass == IF NS THEN "IOStreamingWriteTask" ELSE "IOWriteTask"
GetClass == IF Single THEN "ImmediatelyWriteIOGetObjectTask" ELSE "GetObjectTask"
IsA(th) == th \in Actors

Step(e) ==
    CASE e.k = "Call" -> UserCall
      [] e.k = "USubmit" -> UserSubmit
      [] e.k = "Ret" -> UserRet
      [] e.k = "ResultEnd" -> UserResult /\ e.oc = (IF exc = "none" THEN "ok" ELSE "raise")
                                 /\ e.ek = ExcKind(exc)
      [] e.k = "ShutdownEnd" -> UserShutdown
      [] e.k = "UCancelCall" -> UCancelCall
      [] e.k = "CancelBegin" -> CancelBegin
      [] e.k = "CancelEnd" -> CancelLin /\ status' = e.st
      [] e.k = "UCancelRet" -> UCancelRet
      [] e.k = "SubTake" -> SubTake
      [] e.k = "SubTaskEnd" -> SubTaskEnd
      [] e.k = "Status" -> e.th = "sub" /\ (SubQueued \/ SubRunning) /\ status' = e.st
      [] e.k = "CbBegin" -> IF e.cb = "queued" THEN e.th = "sub" /\ SubOnQueuedBegin
                            ELSE AnnCbBegin(e.th)
      [] e.k = "CbEnd" -> IF e.cb = "queued" THEN e.th = "sub" /\ SubOnQueuedEnd(e.ok)
                          ELSE AnnCbEnd(e.th)
      [] e.k = "Submit" -> e.th = "sub" /\ SubSubmit /\ e.task = GetClass
                           /\ e.inflight = ReqInFlight + 1
      [] e.k = "IoSubmit" ->
            /\ e.inflight = ioinfl + 1
            /\ IF e.task = FinalClass
               THEN IF e.th = "sub" THEN SubFinalSubmit ELSE IsW(e.th) /\ WFinalSubmit(e.th)
               ELSE /\ e.task = WriteClass /\ IsW(e.th)
                    /\ IF NS THEN WDeferFlush(e.th) ELSE WIoSubmit(e.th)
      [] e.k = "TaskBegin" -> IsW(e.th) /\ WTake(e.th) /\ e.task = GetClass
      [] e.k = "TaskEnd" -> IsW(e.th) /\ WTaskEnd(e.th)
      [] e.k = "IoTaskBegin" -> /\ e.th = IOW /\ IOTake
                                /\ e.task = (IF Head(ioq).k = "final" THEN FinalClass ELSE WriteClass)
      [] e.k = "IoTaskEnd" -> e.th = IOW /\ IOTaskEnd
      [] e.k = "S3Begin" ->
            IF e.op = "HeadObject" THEN e.th = "sub" /\ SubHeadBegin
            ELSE /\ e.op = "GetObject" /\ IsW(e.th) /\ WGetBegin(e.th) /\ wcur[e.th] = e.part
      [] e.k = "S3End" ->
            IF e.op = "HeadObject" THEN e.th = "sub" /\ SubHeadEnd(IF e.oc = "ok" THEN "ok" ELSE "fault")
            ELSE /\ e.op = "GetObject" /\ IsW(e.th)
                 /\ WGetEnd(e.th, IF e.oc = "ok" THEN "ok" ELSE "fault")
      [] e.k = "BodyRead" -> IsW(e.th) /\ (IF e.data THEN WReadData(e.th) ELSE WReadEOF(e.th))
      [] e.k = "BodyFault" -> IsW(e.th) /\ WReadFault(e.th, e.retryable)
      [] e.k = "SetResult" -> IsA(e.th) /\ IOSetResult(e.th) /\ status' = e.st
      [] e.k = "SetExc" -> /\ (IF e.th = "sub" THEN SubFail
                               ELSE IF e.th = IOW THEN IOExc(IOW)
                               ELSE IsW(e.th) /\ (WExc(e.th) \/ IOExc(e.th)))
                           /\ status' = e.st
      [] e.k = "AnnBegin" -> AnnBegin(e.th) /\ status = e.st
      [] e.k = "AnnEnd" -> AnnEnd(e.th)
      [] e.k = "FsOpen" -> IsA(e.th) /\ IOOpen(e.th)
      [] e.k = "FsWriteBegin" -> IsA(e.th) /\ IOWriteBegin(e.th) /\ iocur[e.th].part = e.part
      [] e.k = "FsWriteEnd" -> IsA(e.th) /\ IOWriteEnd(e.th, e.ok)
      [] e.k = "FsClose" -> IF IsA(e.th) /\ iopc[e.th] = "close" THEN IOClose(e.th) /\ fopen
                            ELSE AnnClose(e.th) /\ fopen
      [] e.k = "FsRenameBegin" -> IsA(e.th) /\ IORenameBegin(e.th)
      [] e.k = "FsRenameFault" -> IsA(e.th) /\ IORenameFault(e.th)
      [] e.k = "FsRename" -> IsA(e.th) /\ IORenameEnd(e.th)
      [] e.k = "FsRemove" -> AnnRemove(e.th) /\ (e.ok <=> temp)
      [] OTHER -> FALSE

Silent ==
    \/ SubCheck \/ SubSetup \/ SubFinalize \/ SubFailWait \/ SubFailDone
    \/ \E w \in Workers : WCheck(w) \/ WHand(w) \/ WDecr(w) \/ WFinish(w) \/ WRelease(w)
                          \/ WDeferLock(w) \/ WDeferUnlock(w)
    \/ IOFinish \/ IORelease
    \/ \E a \in Actors : IOCheck(a) \/ IOFin(a) \/ IOAnnounced(a) \/ (~fopen /\ IOClose(a))
    \/ \E w \in Workers : WDeferTakeInline(w) \/ WFinalInline(w) \/ IOInlineReturn(w)
    \/ \E th \in Threads : AnnCleanups(th) \/ AnnEvent(th) \/ AnnCbLock(th) \/ (~fopen /\ AnnClose(th))

TNext ==
    /\ UNCHANGED tid
    /\ \/ More /\ Step(Ev) /\ l' = l + 1
       \/ More /\ Silent /\ UNCHANGED l
TSpec == TInit /\ [][TNext]_tvars

TClausesOK == ClausesOK
Progress == TLCSet(tid, IF TLCGet(tid) < l THEN l ELSE TLCGet(tid))
NotYetAccepted == TLCGet(tid) <= Len(Traces[tid].ev)
Final_ ==
    \A i \in 1..Len(Traces) :
        PrintT("DLTRACE " \o ToJson([id |-> Traces[i].id, reached |-> TLCGet(i), len |-> Len(Traces[i].ev)]))
=============================================================================
