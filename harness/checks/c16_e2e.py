"""C16 end-to-end: non-seekable downloads through the real TransferManager
under stream faults, short reads and all window/queue limits."""
from checks import pipe


def run(ck, tier, seed):
    pipe.run_e2e(ck, 'C16', tier, seed)
    import pipeline
    pipeline.close_pool()
