"""In-process, deterministic execution of s3transfer.processpool.

The real GetObjectSubmitter._do_run / GetObjectWorker._do_run loops, the real
TransferMonitor and ProcessPoolTransferFuture and the real
ProcessPoolDownloader wiring run as cooperative threads: multiprocessing
queues, process start/join, the manager proxy and the client factory are
substituted (no OS process, no pickling)."""

import collections
import contextlib
import os
import shutil
import sys
import tempfile

sys.path.insert(0, os.path.dirname(os.path.abspath(__file__)))

import coop  # noqa: E402
import fakes3  # noqa: E402

BUCKET = 'bkt'


class CoopQueue:
    def __init__(self, maxsize=0, name='q'):
        self._d = collections.deque()
        self.name = name

    def put(self, item):
        s = coop.sched()
        s.point('q-put')
        self._d.append(item)
        s.emit('QPut', q=self.name, item=_item(item))

    def get(self):
        s = coop.sched()
        s.block(lambda: bool(self._d), f'queue:{self.name}', idle_ok=False)
        item = self._d.popleft()
        s.emit('QGet', q=self.name, item=_item(item))
        return item


def _item(it):
    if isinstance(it, str):
        return {'kind': it}
    d = it._asdict()
    out = {'kind': type(it).__name__, 'x': d.get('transfer_id')}
    if 'offset' in d:
        out['offset'] = d['offset']
    return out


class AtomicLock:
    """TransferState's job lock: a monitor call is one atomic hop."""

    def __enter__(self):
        return True

    def __exit__(self, *a):
        return False

    def acquire(self, *a, **k):
        return True

    def release(self):
        pass


_LAST_RELEASE = {}


class FineLock(coop.Lock):
    """TransferState/TransferMonitor lock in the fine-grained mode: the
    manager process serves concurrent monitor calls in different threads, so
    calls interleave at the lock boundaries.  The release is the call's
    linearization point; its step is remembered so that the call's event
    (emitted at return, with the value the caller really got) is ordered
    there."""

    def release(self):
        s = coop.sched()
        me = s.me()
        _LAST_RELEASE[me.name if me else None] = s.step
        super().release()


class AtomicEvent(coop.Event):
    """set() inside a monitor call must not yield: the call is one hop."""

    def set(self):
        self._flag = True


class _Threading:
    Lock = AtomicLock
    Event = AtomicEvent

    def __init__(self, fine=False):
        if fine:
            self.Lock = FineLock

    def __getattr__(self, n):
        import threading
        return getattr(threading, n)


class _MP:
    def __init__(self):
        self._n = 0
        import multiprocessing
        self.Process = multiprocessing.Process

    def Queue(self, maxsize=0):
        self._n += 1
        return CoopQueue(maxsize, 'req' if self._n == 1 else 'work')


class MonitorProxy:
    """Every call on the monitor is a cross-process hop: a scheduling point
    before and after, the call itself atomic, logged with its result."""

    def __init__(self, mon):
        self._m = mon

    def _connect(self):
        pass

    def __getattr__(self, name):
        fn = getattr(self._m, name)
        s = coop.sched()

        def call(*a, **kw):
            s.point('monitor')
            me = s.me()
            key = me.name if me else None
            _LAST_RELEASE.pop(key, None)
            try:
                r = fn(*a, **kw)
            except BaseException as e:
                s.emit('Mon', m=name, a=_margs(a), ret='raise:' + _exck(e))
                raise
            lin = _LAST_RELEASE.pop(key, None)
            if lin is None:
                s.emit('Mon', m=name, a=_margs(a), ret=_mret(r))
            else:
                s.emit('Mon', m=name, a=_margs(a), ret=_mret(r), lin=lin)
            s.point('monitor-ret')
            return r
        return call


def _exck(e):
    from s3transfer.exceptions import CancelledError
    if e is None:
        return 'none'
    if isinstance(e, CancelledError):
        return 'cancel'
    return 'fault'


def _margs(a):
    out = []
    for v in a:
        if isinstance(v, BaseException):
            out.append(_exck(v))
        else:
            out.append(v)
    return out


def _mret(r):
    if isinstance(r, BaseException):
        return _exck(r)
    if r is None:
        return 'none'
    return r


class InjectedOSError(OSError):
    pass


def run(sc, chooser, max_steps=8000):
    """sc: {workers, downloads:[{size, known, old}], faults:[...], cancel:{...},
    cfg:{threshold, chunk}} -> dict(events, results, failure, ...)"""
    import s3transfer.processpool as P
    import s3transfer.utils as U
    events = []
    s = coop.Scheduler(chooser, tracer=events.append, max_steps=max_steps)
    svc = fakes3.FakeS3(emit=lambda e, **kw: s.emit(e, **kw), point=s.point)
    tmp = tempfile.mkdtemp(prefix='verif-pp-')
    counters = {}
    dls = sc['downloads']
    paths = {}
    datas = {}
    for x, d in enumerate(dls):
        data = fakes3.pattern(d['size'])
        datas[x] = data
        svc.put(BUCKET, f'k{x}', data)
        paths[x] = os.path.join(tmp, f'dst{x}')
        if d.get('old'):
            with open(paths[x], 'wb') as f:
                f.write(b'OLD' + bytes([x]))

    def key2x(k):
        return int(k[1:]) if k and k[0] == 'k' and k[1:].isdigit() else -1

    def fault_due(kind, **attrs):
        for f in sc.get('faults', []):
            if f.get('on') != kind:
                continue
            if any(f.get(k) != v for k, v in attrs.items() if k in f):
                continue
            n = counters[id(f)] = counters.get(id(f), 0) + 1
            if n == f.get('nth', 1):
                return f
        return None

    def fault_plan(call):
        x = key2x(call.get('key'))
        if call['op'] == 'HeadObject' and fault_due('head', x=x):
            return fakes3.Fault('client')
        if call['op'] == 'GetObject':
            rs = 0
            if call.get('Range'):
                rs = int(call['Range'].split('=')[1].split('-')[0])
            if fault_due('job', x=x, offset=rs):
                return fakes3.Fault('client')
        return None
    svc.fault_plan = fault_plan

    def stream_plan(call):
        for st in sc.get('streams', []):
            if st.get('x') == key2x(call.get('key')) and \
                    st.get('attempt', 1) == call.get('get_attempt'):
                return fakes3.StreamScript(reads=st.get('reads', ()),
                                           fault_after=st.get('fault_after'),
                                           fault=st.get('fault'))
        return None
    svc.stream_plan = stream_plan
    api_calls = []
    client = fakes3.make_client(svc, retries=1,
                                on_params=lambda op, p: api_calls.append((op, p)))

    def path2x(p):
        b = os.path.basename(p)
        num = ''
        for ch in b[3:]:
            if ch.isdigit():
                num += ch
            else:
                break
        return int(num) if b.startswith('dst') and num else -1

    class OSU(U.OSUtils):
        def allocate(self, filename, size):
            x = path2x(filename)
            s.point('allocate')
            if fault_due('allocate', x=x):
                s.emit('Allocate', x=x, ok=False)
                raise InjectedOSError('allocate')
            super().allocate(filename, size)
            s.emit('Allocate', x=x, ok=True)

        def rename_file(self, cur, new):
            x = path2x(new)
            s.point('rename')
            if fault_due('rename', x=x):
                s.emit('Rename', x=x, ok=False)
                raise InjectedOSError('rename')
            super().rename_file(cur, new)
            s.emit('Rename', x=x, ok=True)

        def remove_file(self, filename):
            x = path2x(filename)
            s.point('remove')
            existed = os.path.exists(filename)
            super().remove_file(filename)
            s.emit('Remove', x=x, existed=existed)

    class FakeManager:
        def start(self, *a, **k):
            pass

        def TransferMonitor(self):
            return MonitorProxy(P.TransferMonitor())

        def shutdown(self):
            pass

    names = iter(['submitter'] + [f'w{i + 1}' for i in range(sc.get('workers', 1))])
    procs = {}

    def p_start(self):
        name = next(names)
        procs[id(self)] = s.spawn(name, self.run)

    def p_join(self, timeout=None):
        st = procs[id(self)]
        s.block(lambda: st.finished, f'join:{st.name}')

    fs_state = [None]

    def snapshot(sched):
        out = []
        try:
            listing = sorted(os.listdir(tmp))
        except OSError:
            listing = []
        for x in range(len(dls)):
            base = f'dst{x}'
            st, temps = 'absent', 0
            for n in listing:
                if n == base:
                    try:
                        with open(os.path.join(tmp, n), 'rb') as f:
                            c = f.read()
                    except OSError:
                        c = None
                    st = 'complete' if c == datas[x] else (
                        'old' if c == b'OLD' + bytes([x]) else 'partial')
                elif n.startswith(base + os.extsep):
                    temps += 1
            out.append({'x': x, 'dest': st, 'temps': temps})
        if out != fs_state[0]:
            fs_state[0] = out
            sched.emit('FsSnap', files=out)

    s.point_hooks.append(snapshot)
    results = {}
    cancel = sc.get('cancel')
    cfg = sc.get('cfg', {})

    def user():
        config = P.ProcessTransferConfig(
            multipart_threshold=cfg.get('threshold', 4),
            multipart_chunksize=cfg.get('chunk', 2),
            max_request_processes=sc.get('workers', 1))
        dl = P.ProcessPoolDownloader(config=config)
        futs = {}

        def body():
            for x, d in enumerate(dls):
                s.emit('Call', x=x)
                futs[x] = dl.download_file(
                    BUCKET, f'k{x}', paths[x],
                    extra_args=(dict(d['extra_args']) if d.get('extra_args') else None),
                    expected_size=d['size'] if d.get('known') else None)
                s.emit('Ret', x=x)
            if cancel and cancel['how'] == 'future':
                s.wait_until_step(cancel.get('gate', 0))
                s.emit('CancelCall', x=cancel['x'])
                futs[cancel['x']].cancel()
            if cancel and cancel['how'] == 'ctrl-c':
                s.wait_until_step(cancel.get('gate', 0))
                s.emit('CtrlC')
                raise KeyboardInterrupt()
            if sc.get('results_first', True):
                collect()

        def collect():
            for x, f in futs.items():
                if x in results:
                    continue
                try:
                    f.result()
                    results[x] = 'ok'
                except KeyboardInterrupt:
                    results[x] = 'kbi'
                except BaseException as e:  # noqa
                    results[x] = 'raise:' + _exck(e)
                snapshot(s)
                s.emit('ResultEnd', x=x, oc=results[x], done=bool(f.done()))
        try:
            with dl:
                body()
        except KeyboardInterrupt:
            pass
        snapshot(s)
        s.emit('ShutdownEnd')
        for x, f in futs.items():
            s.emit('DoneAtShutdown', x=x, done=bool(f.done()))
        collect()

    extra = [
        (P, 'multiprocessing', _MP()),
        (P, 'threading', _Threading(fine=bool(sc.get('fine_monitor')))),
        (P, 'TransferMonitorManager', FakeManager),
        (P, 'ignore_ctrl_c', contextlib.nullcontext),
        (P, 'OSUtils', OSU),
        (P.BaseS3TransferProcess, 'start', p_start),
        (P.BaseS3TransferProcess, 'join', p_join),
        (P.ClientFactory, 'create_client', lambda self: client),
    ]
    try:
        with coop.installed(s, threading_modules=(), time_modules=(),
                            extra=extra):
            s.run(user, name='user')
    finally:
        shutil.rmtree(tmp, ignore_errors=True)
    return {'events': events, 'results': results, 'failure': s.failure,
            'failure_info': s.failure_info, 'thread_errors': [
                (n, repr(e), tb[-1500:]) for n, e, tb in s.thread_errors],
            'steps': s.step, 'choices': s.choices, 'api_calls': api_calls}


def jobs_of(size, cfg):
    thr, chunk = cfg.get('threshold', 4), cfg.get('chunk', 2)
    if size < thr:
        return 1
    return (size + chunk - 1) // chunk


def normalize(res, sc, tid):
    """Raw events -> alphabet of ProcessPool_Trace.tla."""
    cfg = sc.get('cfg', {})
    chunk = cfg.get('chunk', 2)
    ev = []
    wstate = {}      # worker -> 'check' | 'run' | 'account' | 'final' | ...
    wx = {}
    shutdown_puts = 0
    ctrlc = False
    sub_x = [-1]
    sub_sized = [False]
    known = [d.get('known') for d in sc['downloads']]
    snaps = []
    # a monitor call that released a lock is ordered at that release
    events = sorted(res['events'], key=lambda e: e.get('lin', e.get('t', 0)))
    for e in events:
        k, th = e['e'], e.get('th') or ''
        if k == 'Mon':
            m, a, ret = e['m'], e['a'], e['ret']
            if m == 'notify_new_transfer':
                ev.append({'k': 'new_transfer', 'x': ret})
            elif m == 'notify_cancel_all_in_progress':
                ctrlc = True
                ev.append({'k': 'cancel_all'})
            elif m == 'notify_exception':
                if th == 'user':
                    ev.append({'k': 'cancel', 'x': a[0]})
                elif th == 'submitter':
                    if not sub_sized[0]:
                        # the failure was HeadObject (logged as S3End) or allocate
                        pass
                    ev.append({'k': 'sub_exc', 'x': a[0]})
                else:
                    if wstate.get(th) == 'run':
                        ev.append({'k': 'w_ran', 'w': th, 'x': a[0], 'ok': False})
                    ev.append({'k': 'w_exc', 'w': th, 'x': a[0]})
                    wstate[th] = 'account' if wstate.get(th) == 'run' else 'remove'
            elif m == 'notify_done':
                if th == 'submitter':
                    ev.append({'k': 'sub_done', 'x': a[0]})
                else:
                    ev.append({'k': 'w_done', 'w': th, 'x': a[0]})
                    wstate[th] = 'get'
            elif m == 'notify_expected_jobs_to_complete':
                ev.append({'k': 'expect', 'x': a[0], 'n': a[1]})
            elif m == 'get_exception':
                ev.append({'k': 'w_getexc', 'w': th, 'x': a[0],
                           'none': ret == 'none'})
                if wstate.get(th) == 'check':
                    wstate[th] = 'run' if ret == 'none' else 'account'
                else:
                    wstate[th] = 'finalized'
            elif m == 'notify_job_complete':
                if wstate.get(th) == 'run':
                    ev.append({'k': 'w_ran', 'w': th, 'x': a[0], 'ok': True})
                ev.append({'k': 'w_account', 'w': th, 'x': a[0],
                           'remaining': ret})
                wstate[th] = 'final' if ret == 0 else 'get'
        elif k == 'QPut':
            it = e['item']
            if e['q'] == 'req':
                if it['kind'] == 'SHUTDOWN':
                    if not ctrlc:
                        ev.append({'k': 'shutdown_start'})
                    ev.append({'k': 'put_shutdown_req'})
                else:
                    ev.append({'k': 'put_req', 'x': it['x']})
            else:
                if it['kind'] == 'SHUTDOWN':
                    shutdown_puts += 1
                    if shutdown_puts == 1:
                        ev.append({'k': 'put_shutdown_workers'})
                else:
                    ev.append({'k': 'put_job', 'x': it['x'],
                               'i': it['offset'] // chunk})
        elif k == 'QGet':
            it = e['item']
            if e['q'] == 'req':
                x = -1 if it['kind'] == 'SHUTDOWN' else it['x']
                ev.append({'k': 'sub_get', 'x': x})
                sub_x[0] = x
                sub_sized[0] = False
                if x >= 0 and known[x]:
                    ev.append({'k': 'size', 'x': x, 'ok': True})
                    sub_sized[0] = True
            else:
                if it['kind'] == 'SHUTDOWN':
                    ev.append({'k': 'w_get', 'w': th, 'x': -1, 'i': 0})
                else:
                    ev.append({'k': 'w_get', 'w': th, 'x': it['x'],
                               'i': it['offset'] // chunk})
                    wstate[th] = 'check'
        elif k == 'S3End' and e.get('op') == 'HeadObject':
            ev.append({'k': 'size', 'x': sub_x[0], 'ok': e['outcome'] == 'ok'})
            sub_sized[0] = True
        elif k == 'Allocate':
            ev.append({'k': 'alloc', 'x': e['x'], 'ok': bool(e['ok'])})
        elif k == 'Rename':
            ev.append({'k': 'w_rename', 'w': th, 'x': e['x'], 'ok': bool(e['ok'])})
        elif k == 'Remove':
            if th != 'submitter':
                ev.append({'k': 'w_remove', 'w': th, 'x': e['x']})
        elif k == 'ShutdownEnd':
            ev.append({'k': 'shutdown_end'})
        elif k == 'FsSnap':
            for f in e['files']:
                ev.append({'k': 'snap', 'x': f['x'], 'dest': f['dest'],
                           'temps': f['temps']})
        elif k == 'ResultEnd':
            ev.append({'k': 'result', 'x': e['x'], 'oc': e['oc'].split(':')[0]})
    for e in ev:
        for f, dflt in (('x', -1), ('i', 0), ('w', ''), ('ok', True), ('n', 0),
                        ('none', True), ('remaining', 0), ('dest', ''),
                        ('temps', 0), ('oc', '')):
            e.setdefault(f, dflt)
    return {'id': tid, 'ev': ev}
