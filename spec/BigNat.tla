------------------------------- MODULE BigNat -------------------------------
(***************************************************************************)
(* Natural numbers beyond TLC's 32-bit integers: little-endian sequences   *)
(* of limbs in base 2^15 (a limb product plus carry stays below 2^31).     *)
(* Zero is <<>>; numbers are kept normalised (no leading zero limb).       *)
(***************************************************************************)
EXTENDS Naturals, Integers, Sequences

Base == 32768

RECURSIVE Norm(_)
Norm(a) == IF a # <<>> /\ a[Len(a)] = 0 THEN Norm(SubSeq(a, 1, Len(a) - 1)) ELSE a

Limb(a, i) == IF i <= Len(a) THEN a[i] ELSE 0
MaxLen(a, b) == IF Len(a) > Len(b) THEN Len(a) ELSE Len(b)

RECURSIVE AddC(_, _, _, _)
AddC(a, b, i, carry) ==
    IF i > MaxLen(a, b) THEN (IF carry = 0 THEN <<>> ELSE <<carry>>)
    ELSE LET s == Limb(a, i) + Limb(b, i) + carry IN
         <<s % Base>> \o AddC(a, b, i + 1, s \div Base)
Add(a, b) == Norm(AddC(a, b, 1, 0))

\* -1, 0, 1
RECURSIVE CmpFrom(_, _, _)
CmpFrom(a, b, i) ==
    IF i = 0 THEN 0
    ELSE IF Limb(a, i) < Limb(b, i) THEN -1
    ELSE IF Limb(a, i) > Limb(b, i) THEN 1
    ELSE CmpFrom(a, b, i - 1)
Cmp(a, b) == CmpFrom(a, b, MaxLen(a, b))
Lt(a, b) == Cmp(a, b) = -1
Le(a, b) == Cmp(a, b) # 1
Eq(a, b) == Cmp(a, b) = 0

\* a - b for a >= b
RECURSIVE SubB(_, _, _, _)
SubB(a, b, i, borrow) ==
    IF i > Len(a) THEN <<>>
    ELSE LET d == Limb(a, i) - Limb(b, i) - borrow IN
         IF d < 0 THEN <<d + Base>> \o SubB(a, b, i + 1, 1)
         ELSE <<d>> \o SubB(a, b, i + 1, 0)
Sub(a, b) == Norm(SubB(a, b, 1, 0))

RECURSIVE MulSmallC(_, _, _, _)
MulSmallC(a, d, i, carry) ==
    IF i > Len(a) THEN (IF carry = 0 THEN <<>> ELSE <<carry>>)
    ELSE LET p == a[i] * d + carry IN
         <<p % Base>> \o MulSmallC(a, d, i + 1, p \div Base)
MulSmall(a, d) == Norm(MulSmallC(a, d, 1, 0))

Shift(a, k) == IF a = <<>> THEN <<>> ELSE [j \in 1..k |-> 0] \o a

RECURSIVE MulFrom(_, _, _)
MulFrom(a, b, j) ==
    IF j > Len(b) THEN <<>>
    ELSE Add(Shift(MulSmall(a, b[j]), j - 1), MulFrom(a, b, j + 1))
Mul(a, b) == MulFrom(a, b, 1)

One == <<1>>
Zero == <<>>
FromSmall(n) == IF n = 0 THEN <<>> ELSE IF n < Base THEN <<n>> ELSE <<n % Base, n \div Base>>
Pred(a) == Sub(a, One)
=============================================================================
