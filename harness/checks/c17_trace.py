"""C17 code -> spec: threaded executions of the real TransferCoordinator under
the cooperative runtime, validated by TLC against Coordinator_Trace.tla."""

import json
import os
import random
import tempfile

import coop
import tlc

OPS = [
    ('set_status_queued', ''), ('set_status_running', ''),
    ('set_result', 'R'),
    ('set_exception', 'E1'), ('set_exception', 'E2'),
    ('set_exception_override', 'E1'),
    ('future_set_exception', 'U'), ('done', ''), ('done', ''),
    ('add_done_callback', 'plain'), ('add_failure_cleanup', ''),
    ('cancel', ''), ('cancel', ''), ('announce_done', ''),
]

CFG = '''SPECIFICATION TSpec
CONSTANTS
  Threads = {"t1", "t2", "t3"}
  MaxOps = 1000
  AnnounceUnderLock = FALSE
  CbKinds = {"plain"}
  MaxCbs = 1000
CONSTRAINT Progress
POSTCONDITION Report
CHECK_DEADLOCK FALSE
'''


def record_one(rng, nthreads, nops, chooser):
    """One threaded execution; returns (events, plan, failure)."""
    import s3transfer.futures as F
    from checks import c17
    events = []
    s = coop.Scheduler(chooser, max_steps=4000)
    plan = {}
    announced = set()
    for i in range(nthreads):
        t = f't{i + 1}'
        ops = []
        for _ in range(nops):
            op = rng.choice(OPS)
            ops.append(op)
            if op[0] == 'announce_done' and rng.random() < 0.5:
                ops.append(('result', ''))
        plan[t] = ops

    def main():
        coord = F.TransferCoordinator(transfer_id=1)
        future = F.TransferFuture(coordinator=coord)
        pending_cleanups = []

        def mk_cb(kind):
            def cb():
                events.append({'k': 'cb', 'th': s.current, 'kind': kind})
            return cb

        def cleanup():
            if events and events[-1]['k'] == 'cleanup' \
                    and events[-1]['th'] == s.current:
                events[-1]['n'] += 1
            else:
                events.append({'k': 'cleanup', 'th': s.current, 'n': 1})

        def worker(t):
            for name, arg in plan[t]:
                events.append({'k': 'call', 'th': t, 'op': name, 'arg': arg})
                ret = c17.apply_op(coord, future, {'op': name, 'arg': arg},
                                   mk_cb, cleanup)
                if name == 'cancel':
                    ret = '?'
                events.append({'k': 'ret', 'th': t, 'op': name, 'ret': ret})

        for t in plan:
            s.spawn(t, worker, t)

    # the lock-free reads of the coordinator (status, exception) are
    # scheduling points: another thread may run between two such reads
    TC = F.TransferCoordinator
    saved = {}
    for prop in ('status', 'exception'):
        orig = TC.__dict__.get(prop)
        if isinstance(orig, property) and orig.fset is None:
            saved[prop] = orig

            def getter(self, _o=orig):
                if s.me() is not None:
                    s.point('racy-read')
                return _o.fget(self)
            setattr(TC, prop, property(getter))
    try:
        with coop.installed(s, threading_modules=('s3transfer.futures',
                                                  's3transfer.utils'),
                            time_modules=()):
            s.run(main, name='main')
    finally:
        for prop, orig in saved.items():
            setattr(TC, prop, orig)
    return events, plan, s.failure, s.thread_errors


def validate(traces, workers=1):
    """traces: list of dict(id, ev).  Returns {id: (reached, len)}."""
    d = tempfile.mkdtemp(prefix='verif-c17-')
    try:
        path = os.path.join(d, 'traces.ndjson')
        with open(path, 'w') as f:
            for t in traces:
                f.write(json.dumps(t) + '\n')
        r = tlc.run_tlc('Coordinator_Trace', CFG, workers=1,
                        env={'TRACE_FILE': path}, timeout=3000,
                        dfs_queue=True)
        out = {}
        for p in r.json_prints('TRACE '):
            j = json.loads(p)
            out[j['id']] = (j['reached'], j['len'])
        return out, r
    finally:
        import shutil
        shutil.rmtree(d, ignore_errors=True)


def run(ck, tier, seed):
    rng = random.Random(seed * 7919 + 17)
    n = 2500 if tier == 'thorough' else 500
    traces = []
    meta = {}
    for i in range(n):
        nthreads = rng.choice([2, 2, 3])
        nops = rng.choice([2, 3])
        chooser = coop.RandomChooser(rng.randrange(1 << 30), stay=0.4) \
            if rng.random() < 0.7 else coop.PCTChooser(rng.randrange(1 << 30), 3, 60)
        ev, plan, failure, errs = record_one(rng, nthreads, nops, chooser)
        if errs:
            raise RuntimeError(errs[0][2])
        if failure == 'deadlock':
            # a blocked result() with nobody left to announce is not a defect
            if not any(e['k'] == 'call' and e['op'] == 'result' for e in ev):
                ck.violation('C17_AnnounceTerminates', {
                    'component': 'TransferCoordinator', 'mode': 'threaded',
                    'detail': 'deadlock', 'plan': plan, 'op': 'deadlock'})
            continue
        tr = {'id': i, 'ev': ev}
        traces.append(tr)
        meta[i] = plan
        ck.distinct(['thr', ev])
    if traces:
        ck.sample({'kind': 'threaded trace', 'events': traces[0]['ev'][:20]})
    res, r = validate(traces)
    ck.add_tlc('Coordinator_Trace (batch of %d traces)' % len(traces), r,
               exhaustive=False)
    ck.coverage['traces_validated_against_impl'] += len(traces)
    ck.coverage['evaluations'] += len(traces)
    if len(res) != len(traces):
        ck.machinery_errors.append(
            f'trace verdicts missing: {len(res)} of {len(traces)}')
    for tr in traces:
        reached, ln = res.get(tr['id'], (0, len(tr['ev'])))
        if reached <= ln:
            evs = tr['ev']
            at = evs[reached - 1] if 0 < reached <= len(evs) else None
            ck.violation('C17_TraceConformance', {
                'component': 'TransferCoordinator', 'mode': 'threaded',
                'detail': f'no behaviour of Coordinator.tla explains event '
                          f'{reached} of {ln}: {at}',
                'op': at.get('op') if at else None,
                'events': evs,
            }, replay={'kind': 'c17-trace', 'events': evs})

    # system level: done() observed at every scheduling point never reverts
    from checks import pipe
    import pipeline
    pipe.run_e2e(ck, 'C17', tier, seed)
    pipeline.close_pool()
