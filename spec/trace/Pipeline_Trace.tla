--------------------------- MODULE Pipeline_Trace ---------------------------
(***************************************************************************)
(* Trace validation for Pipeline.tla: every recorded execution of the real *)
(* TransferManager (one transfer: multipart upload of P parts from a file, *)
(* single put, delete) must be a behaviour of the specification.           *)
(*                                                                         *)
(* The harness logs one event per specification action that has a name in  *)
(* brackets in Pipeline.tla, tagged with the thread that took it and with  *)
(* the logged values (task class, operation, part number, outcome, status  *)
(* after the call, executor occupancy).  Events of the coordinator are     *)
(* emitted from a lock-release hook, i.e. inside the critical section.     *)
(* Actions without a logged event (dependency wait and done-check, lock    *)
(* acquisitions of announce_done, executor future completion, semaphore    *)
(* release) are silent steps; they always make progress, so the search is  *)
(* finite.  All traces of one file share P, R, RQ, Kind.                   *)
(***************************************************************************)
EXTENDS Pipeline, Json, IOUtils, TLCExt

Traces == ndJsonDeserialize(IOEnv.TRACE_FILE)
VARIABLES tid, l
tvars == <<vars, tid, l>>
Ev == Traces[tid].ev[l]
More == l <= Len(Traces[tid].ev)

TInit == Init /\ tid \in 1..Len(Traces) /\ l = 1 /\ TLCSet(tid, 0)

IsW(th) == th \in Workers
OcOf(s) == s          \* "ok" | "fault" | "fault-after"

\* the specification action of event e, with the logged values
Step(e) ==
    CASE e.k = "Call" -> UserCall
      [] e.k = "USubmit" -> UserSubmit
      [] e.k = "Ret" -> UserRet
      [] e.k = "ResultEnd" -> UserResult /\ e.oc = (IF exc = "none" THEN "ok" ELSE "raise")
                                 /\ e.ek = (IF exc = "none" THEN "" ELSE IF exc = "cancel" THEN "cancel"
                                            ELSE IF exc \in {"CBQ", "SRC"} THEN "inj" ELSE "s3")
      [] e.k = "ShutdownEnd" -> UserShutdown
      [] e.k = "UCancelCall" -> UCancelCall
      [] e.k = "CancelBegin" -> CancelBegin
      [] e.k = "CancelEnd" -> CancelLin /\ status' = e.st
      [] e.k = "UCancelRet" -> UCancelRet
      [] e.k = "SubTake" -> SubTake
      [] e.k = "SubTaskEnd" -> SubTaskEnd
      [] e.k = "Status" -> e.th = "sub" /\ (SubQueued \/ SubRunning) /\ status' = e.st
      [] e.k = "CbBegin" -> IF e.cb = "queued" THEN e.th = "sub" /\ SubOnQueuedBegin
                            ELSE AnnCbBegin(e.th)
      [] e.k = "CbEnd" -> IF e.cb = "queued" THEN e.th = "sub" /\ SubOnQueuedEnd(e.ok)
                          ELSE AnnCbEnd(e.th)
      [] e.k = "Submit" -> /\ e.th = "sub" /\ SubSubmit
                           /\ ClassOf(SubOrder[snext]) = e.task
                           /\ e.inflight = InFlight + 1
      [] e.k = "TaskBegin" -> IsW(e.th) /\ WTake(e.th) /\ ClassOf(Head(rq)) = e.task
      [] e.k = "TaskEnd" -> IsW(e.th) /\ WTaskEnd(e.th) /\ ClassOf(wcur[e.th]) = e.task
      [] e.k = "S3Begin" ->
            IF e.op = "AbortMultipartUpload" THEN AnnAbortBegin(e.th)
            ELSE IF e.op = "HeadObject" THEN e.th = "sub" /\ SubHeadBegin
            ELSE /\ IsW(e.th) /\ WMainBegin(e.th) /\ OpOf(wcur[e.th]) = e.op
                 /\ e.part = (IF wcur[e.th] \in 1..P THEN wcur[e.th] ELSE 0)
      [] e.k = "S3End" ->
            IF e.op = "AbortMultipartUpload" THEN AnnAbortEnd(e.th, e.oc)
            ELSE IF e.op = "HeadObject" THEN e.th = "sub" /\ SubHeadEnd(IF e.oc = "ok" THEN "ok" ELSE "fault")
            ELSE /\ IsW(e.th) /\ OpOf(wcur[e.th]) = e.op
                 /\ IF e.oc = "body-error"
                    THEN (IF e.srcf THEN WBodyFault(e.th) ELSE WMainInterrupted(e.th))
                    ELSE WMainEnd(e.th, e.oc)
      [] e.k = "SrcFault" -> e.th = "sub" /\ SubSrcFault
      [] e.k = "SetResult" -> IsW(e.th) /\ wcur[e.th] = Final /\ WOk(e.th) /\ status' = e.st
      [] e.k = "SetExc" -> /\ (IF e.th = "sub" THEN SubFail ELSE IsW(e.th) /\ WExc(e.th))
                           /\ status' = e.st
      [] e.k = "AnnBegin" -> AnnBegin(e.th) /\ status = e.st
      [] e.k = "AnnEnd" -> AnnEnd(e.th)
      [] OTHER -> FALSE

\* actions of the implementation that leave no event
Silent ==
    \/ SubCheck \/ SubEnd \/ SubFailWait \/ SubFailDone
    \/ \E w \in Workers : \/ WDeps(w) \/ (wcur[w] # Final /\ WOk(w)) \/ WFin(w) \/ WAnnounced(w)
                          \/ WInterrupt(w)
                          \/ WFinish(w) \/ WRelease(w)
    \/ \E th \in Threads : AnnCleanups(th) \/ AnnEvent(th) \/ AnnCbLock(th)

TNext ==
    /\ UNCHANGED tid
    /\ \/ More /\ Step(Ev) /\ l' = l + 1
       \/ More /\ Silent /\ UNCHANGED l
TSpec == TInit /\ [][TNext]_tvars

\* the clauses of Props.tla in every state of every validated execution
TClausesOK == ClausesOK
Progress == TLCSet(tid, IF TLCGet(tid) < l THEN l ELSE TLCGet(tid))
\* once one explanation of the whole trace is found the rest of its search is cut
NotYetAccepted == TLCGet(tid) <= Len(Traces[tid].ev)
Final_ ==
    \A i \in 1..Len(Traces) :
        PrintT("PLTRACE " \o ToJson([id |-> Traces[i].id, reached |-> TLCGet(i), len |-> Len(Traces[i].ev)]))
=============================================================================
