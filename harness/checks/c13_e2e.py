"""C13 end to end: uploads and downloads through a real TransferManager with
max_bandwidth, in virtual time (the time module of s3transfer.bandwidth is the
scheduler's clock).  Every read of an upload body / of a download stream is
logged with the virtual time; TLC (Rate_Trace.tla) evaluates the window clause
of the property on every pair of reads, that the transfer is not starved and
that all bytes were observed."""

import copy
import json
import os
import random
import shutil
import tempfile

import pipeline
import tlc

KIB = 1024
THRESH = 256 * KIB      # BandwidthLimitedStream's read threshold


def scenarios(rng, thorough):
    out = []
    B = 256 * KIB
    mb = 1024 * KIB
    base_cfg = {'threshold': 8 * mb, 'chunk': 8 * mb, 'io_chunk': 64 * KIB, 'bandwidth': B, 'R': 2}
    mp_cfg = {'threshold': 512 * KIB, 'chunk': 512 * KIB, 'io_chunk': 64 * KIB, 'bandwidth': B, 'R': 2}
    big_mp = {'threshold': 2 * mb, 'chunk': 2 * mb, 'io_chunk': 64 * KIB, 'bandwidth': B, 'R': 2}
    for checksum in ('when_required', 'when_supported'):
        for cfg, size, streams in ((base_cfg, mb, 1), (mp_cfg, mb + 512 * KIB, 2),
                                   (base_cfg, 4 * mb, 1), (big_mp, 6 * mb, 2)):
            for src in ('path', 'nonseekable'):
                sc = {'name': 'bw-upload', 'cfg': dict(cfg), 'scaled_adjuster': True,
                      'client': {'checksum': checksum},
                      'transfers': [{'kind': 'upload', 'src': src, 'size': size}],
                      # the HTTP layer sends a body in blocks, not in one read
                      'body_read': 16 * KIB, 'log_body_sends': True,
                      'max_steps': 60000, '_streams': streams}
                out.append(sc)
    # (the larger ones exceed the burst allowance several times over, so a ranged or a
    #  single-request download that bypasses the limiter is visible)
    for cfg, size, streams in ((base_cfg, mb, 1), (mp_cfg, mb + 512 * KIB, 2),
                               (base_cfg, 4 * mb, 1), (big_mp, 6 * mb, 2)):
        for dst in ('path', 'nonseekable'):
            sc = {'name': 'bw-download', 'cfg': dict(cfg),
                  'transfers': [{'kind': 'download', 'dst': dst, 'size': size}],
                  'max_steps': 60000, '_streams': streams}
            out.append(sc)
    jobs = []
    for sc in out:
        chs = [('fifo',), ('lifo',)] + ([('random', rng.randrange(1 << 30), 0.5)] if thorough else [])
        for ch in chs:
            jobs.append((copy.deepcopy(sc), ch))
    return jobs


def _run(job):
    import runner
    sc, chs, jid = job
    sc = dict(sc)
    streams = sc.pop('_streams')
    try:
        res = runner.run_scenario(sc, pipeline.make_chooser(chs), max_steps=sc['max_steps'])
    except Exception:
        import traceback
        return {'jid': jid, 'error': traceback.format_exc()[-1500:]}
    kind = sc['transfers'][0]['kind']
    size = sc['transfers'][0]['size']
    B = sc['cfg']['bandwidth']
    pts, cum = [], 0
    for e in res['events']:
        n = None
        if kind == 'upload' and e['e'] == 'BodySend':
            n = e['len']
        if kind == 'download' and e['e'] == 'BodyRead' and e.get('len'):
            n = e['len']
        if n:
            cum += n
            pts.append({'w': int(round(e.get('vt', 0.0) * 1000)), 'c': cum // KIB})
    return {'jid': jid, 'failure': res['failure'], 'results': res['results'],
            'thread_errors': res['thread_errors'],
            'trace': {'id': jid, 'pts': pts, 'B': B // KIB, 'total': size // KIB - 8,
                      # a few thresholds per active stream, plus one request body / io chunk
                      # "a burst of a few read-thresholds per active stream": the first
                      # consume of a stream always passes, whatever its size - one read
                      # unit of the layer above (1 MiB for an aws-chunked body, else the
                      # transport block / io chunk) plus three thresholds per stream
                      'burst': streams * (3 * (THRESH // KIB) + (
                          1024 if (sc.get('client') or {}).get('checksum') == 'when_supported'
                          else 64)),
                      'maxms': int(1000 * (size / B) * 1.6 + 4000)}}


def _work(jobs):
    return [_run(j) for j in jobs]


def run(ck, tier, seed):
    thorough = tier == 'thorough'
    rng = random.Random(seed * 131 + 13)
    jobs = scenarios(rng, thorough)
    jl = [(sc, ch, i) for i, (sc, ch) in enumerate(jobs)]
    runs = []
    for part in pipeline.pool().imap(_work, [jl[i:i + 2] for i in range(0, len(jl), 2)]):
        runs.extend(part)
    pipeline.close_pool()
    errs = [r for r in runs if 'error' in r]
    if errs:
        ck.machinery_errors.append('bandwidth e2e run failed: ' + errs[0]['error'][-600:])
    good = [r for r in runs if 'trace' in r]
    for r in good:
        if r['failure'] or r['thread_errors']:
            ck.machinery_errors.append(f"bandwidth e2e: {r['failure']} {str(r['thread_errors'])[:300]}")
    d = tempfile.mkdtemp(prefix='verif-c13e-')
    try:
        path = os.path.join(d, 'traces.ndjson')
        with open(path, 'w') as f:
            for r in good:
                f.write(json.dumps(r['trace']) + '\n')
        cfg = 'SPECIFICATION Spec\nCONSTRAINT Report\nCHECK_DEADLOCK FALSE\n'
        r = tlc.run_tlc('Rate_Trace', cfg, workers=1, env={'TRACE_FILE': path}, timeout=1500)
        ck.add_tlc(f'Rate_Trace x{len(good)}', r, exhaustive=False)
        out = r.json_prints('RATE ')
        if not out:
            ck.machinery_errors.append('no RATE verdict')
            return 0
        j = json.loads(out[-1])
        for b in j['bad']:
            sc, ch = jobs[b['id']]
            rr = [x for x in good if x['jid'] == b['id']][0]
            for clause in b['viol']:
                ck.violation(clause, {
                    'component': 'TransferManager', 'mode': 'bandwidth-e2e',
                    'kind': sc['transfers'][0]['kind'],
                    'src_or_dst': sc['transfers'][0].get('src') or sc['transfers'][0].get('dst'),
                    'checksum': (sc.get('client') or {}).get('checksum'),
                    'size': sc['transfers'][0]['size'], 'points_head': rr['trace']['pts'][:6],
                    'points_tail': rr['trace']['pts'][-3:], 'results': rr['results']},
                    replay={'kind': 'c13-e2e', 'scenario': {k: v for k, v in sc.items()},
                            'chooser': list(ch)})
    finally:
        shutil.rmtree(d, ignore_errors=True)
    ck.coverage['traces_validated_against_impl'] += len(good)
    ck.coverage['evaluations'] += len(good)
    if good:
        ck.sample({'kind': 'bandwidth e2e points (ms, KiB)', 'trace': good[0]['trace']}, limit=2)
    return len(good)
