"""C16 - streaming destinations are written strictly in order, each byte once.

1. TLC checks DeferQueue.tla (the queue + the generator of every delivery
   history the download loop can produce) for several small geometries.
2. spec -> code: every transition of those state graphs (a shortest delivery
   history to its source state + the request) is replayed into the real
   s3transfer.download.DeferQueue; the writes it returns (offset, bytes) must
   equal the model's.
3. end-to-end: non-seekable downloads through the real TransferManager with
   stream faults / short reads (see checks/pipeline part, added by c16_e2e).
"""

import collections
import json

import checklib
import tlc

CFG = '''SPECIFICATION Spec
CONSTANTS
  Size = %(size)d
  PartSize = %(part)d
  MaxLen = %(maxlen)d
  MaxAttempts = %(attempts)d
  Variant = "trim"
INVARIANT C16_WrittenIsPrefixInOrder
INVARIANT C16_NextIsWrittenLength
INVARIANT C16_ReleasedAsSoonAsContiguous
INVARIANT C16_AllWrittenWhenAllPartsComplete
INVARIANT C16_QueuedAhead
ACTION_CONSTRAINT DumpEdge
CHECK_DEADLOCK FALSE
'''

GEOMETRIES_QUICK = [
    dict(size=6, part=3, maxlen=3, attempts=2),
    dict(size=5, part=2, maxlen=2, attempts=2),
    dict(size=0, part=2, maxlen=1, attempts=2),
    dict(size=4, part=4, maxlen=3, attempts=3),
]
GEOMETRIES_THOROUGH = GEOMETRIES_QUICK + [
    dict(size=7, part=3, maxlen=3, attempts=2),
    dict(size=6, part=2, maxlen=2, attempts=2),
    dict(size=6, part=3, maxlen=2, attempts=3),
    dict(size=8, part=4, maxlen=3, attempts=2),
]


def _key(st):
    return json.dumps(st, sort_keys=True)


def data_for(size):
    return bytes(range(1, size + 1))


def replay_edges(ck, edges, geo):
    from s3transfer.download import DeferQueue
    succ = collections.defaultdict(list)
    for e in edges:
        succ[_key(e['from'])].append(e)
    init = None
    for e in edges:
        f = e['from']
        if f['nwritten'] == 0 and f['nextOffset'] == 0 and not f['queued'] \
                and all(a == 0 for a in _vals(f['attempt'])):
            init = _key(f)
            break
    path = {init: []}
    dq = collections.deque([init])
    while dq:
        k = dq.popleft()
        for e in succ[k]:
            k2 = _key(e['to'])
            if k2 not in path:
                path[k2] = path[k] + ([e] if _isreq(e) else [])
                dq.append(k2)
    src = data_for(geo['size'])
    n = 0
    seen = set()
    for e in edges:
        if not _isreq(e):
            continue
        pre = path.get(_key(e['from']))
        if pre is None:
            continue
        reqs = [(x['op']['off'], x['op']['len'], x['op']['out'])
                for x in pre + [e]]
        sig = json.dumps([(a, b) for a, b, _ in reqs])
        if sig in seen:
            continue
        seen.add(sig)
        q = DeferQueue()
        hist = []
        written = 0
        bad = None
        for off, ln, out in reqs:
            got = q.request_writes(off, src[off:off + ln])
            gl = [[w['offset'], len(w['data'])] for w in got]
            hist.append([off, ln, gl])
            exp = [list(x) for x in out]
            for w in got:
                if w['offset'] != written:
                    bad = ('C16_WrittenIsPrefixInOrder',
                           f"write at offset {w['offset']} but {written} "
                           f'bytes were written so far')
                    break
                if bytes(w['data']) != src[w['offset']:w['offset'] + len(w['data'])]:
                    bad = ('C16_EachByteOnce',
                           f"write at {w['offset']} carries wrong bytes")
                    break
                written += len(w['data'])
            if bad:
                break
            if gl != exp:
                glen = sum(x[1] for x in gl)
                elen = sum(x[1] for x in exp)
                if glen < elen:
                    bad = ('C16_ReleasedAsSoonAsContiguous',
                           f'request ({off},{ln}) released {gl}, '
                           f'required {exp}')
                else:
                    bad = ('C16_WrittenIsPrefixInOrder',
                           f'request ({off},{ln}) released {gl}, model {exp}')
                break
        n += 1
        ck.distinct(['dq', geo, [(a, b) for a, b, _ in reqs]])
        if n <= 2:
            ck.sample({'kind': 'delivery history -> real DeferQueue',
                       'geometry': geo, 'requests(off,len,writes)': hist})
        if bad:
            redelivery = any(
                hist[i][0] <= hist[j][0] < hist[i][0] + max(hist[i][1], 1)
                and hist[i][:2] != hist[j][:2]
                for j in range(len(hist)) for i in range(j))
            ck.violation(bad[0], {
                'component': 'DeferQueue', 'geometry': geo, 'detail': bad[1],
                'history': hist,
                'pattern': 'partial-overlap-redelivery' if redelivery
                else 'other',
            }, replay={'kind': 'c16-dq', 'geometry': geo,
                       'requests': [[a, b] for a, b, _ in reqs]})
    return n


SIM_GEOMETRIES = [
    dict(size=16, part=4, maxlen=4, attempts=2),
    dict(size=12, part=3, maxlen=3, attempts=3),
    dict(size=15, part=3, maxlen=2, attempts=2),
    dict(size=20, part=4, maxlen=3, attempts=2),
    dict(size=23, part=4, maxlen=4, attempts=3),
]
TRACE_CFG = '''SPECIFICATION TSpec
CONSTANTS
  Size = %(size)d
  PartSize = %(part)d
  MaxLen = %(maxlen)d
  MaxAttempts = %(attempts)d
  Variant = "trim"
INVARIANT C16_WrittenIsPrefixInOrder
INVARIANT C16_NextIsWrittenLength
INVARIANT C16_ReleasedAsSoonAsContiguous
INVARIANT C16_AllWrittenWhenAllPartsComplete
INVARIANT C16_QueuedAhead
CONSTRAINT Progress
POSTCONDITION Final_
CHECK_DEADLOCK FALSE
'''


def random_history(geo, rng):
    """A delivery history by the rules of the property; every part is finally
    delivered to its end by its last attempt."""
    size, part = geo['size'], geo['part']
    nparts = max(1, -(-size // part))
    st = {p: {'att': 0, 'cur': p * part, 'done': False} for p in range(nparts)}
    end = lambda p: min((p + 1) * part, size)
    ev = []
    # parts start in a random order, a window of them active at a time
    pending = list(range(nparts))
    rng.shuffle(pending) if rng.random() < 0.7 else None
    active = []
    while pending or active:
        while pending and len(active) < rng.choice([2, 3, 4, nparts]):
            active.append(pending.pop(0))
        p = rng.choice(active)
        s = st[p]
        if s['att'] == 0:
            s['att'] = 1
            s['cur'] = p * part
            ev.append({'k': 'begin', 'p': p})
            continue
        remaining = end(p) - s['cur']
        if remaining == 0:
            active.remove(p)
            continue
        # stop this attempt and start over (while attempts are left)
        if s['att'] < geo['attempts'] and rng.random() < 0.25:
            s['att'] += 1
            s['cur'] = p * part
            ev.append({'k': 'begin', 'p': p})
            continue
        ln = rng.randint(1, min(geo['maxlen'], remaining))
        ev.append({'k': 'deliver', 'p': p, 'off': s['cur'], 'len': ln})
        s['cur'] += ln
    return ev


def trace_part(ck, geo, num, rng):
    """Random delivery histories -> real DeferQueue -> DeferQueue_Trace.tla."""
    import os
    import shutil
    import tempfile
    from s3transfer.download import DeferQueue
    src = data_for(geo['size'])
    traces, seen = [], set()
    for i in range(num):
        ev = random_history(geo, rng)
        sig = json.dumps(ev)
        if sig in seen:
            continue
        seen.add(sig)
        q = DeferQueue()
        bad = None
        for e in ev:
            e.setdefault('off', 0)
            e.setdefault('len', 0)
            e['out'] = []
            if e['k'] == 'deliver':
                got = q.request_writes(e['off'], src[e['off']:e['off'] + e['len']])
                for w in got:
                    if bytes(w['data']) != src[w['offset']:w['offset'] + len(w['data'])]:
                        bad = f"write at {w['offset']} carries wrong bytes"
                e['out'] = [[w['offset'], len(w['data'])] for w in got]
        if bad:
            ck.violation('C16_EachByteOnce', {'component': 'DeferQueue', 'geometry': geo,
                                              'detail': bad, 'pattern': 'random-history'},
                         replay={'kind': 'c16-dq', 'geometry': geo,
                                 'requests': [[e['off'], e['len']] for e in ev if e['k'] == 'deliver']})
            continue
        traces.append({'id': len(traces), 'ev': ev})
        ck.distinct(['dq-trace', geo, sig])
    d = tempfile.mkdtemp(prefix='verif-c16t-')
    try:
        path = os.path.join(d, 'traces.ndjson')
        with open(path, 'w') as f:
            for t in traces:
                f.write(json.dumps(t) + '\n')
        r = tlc.run_tlc('DeferQueue_Trace', TRACE_CFG % geo, workers=1,
                        env={'TRACE_FILE': path}, timeout=3000)
    finally:
        shutil.rmtree(d, ignore_errors=True)
    ck.add_tlc(f'DeferQueue_Trace {geo} x{len(traces)}', r, exhaustive=False)
    if r.violated:
        ck.violation(r.violated[0], {'component': 'DeferQueue', 'geometry': geo,
                                     'pattern': 'random-history',
                                     'cex_tail': getattr(r, 'cex_full', r.cex)[-1500:]})
        return len(traces)
    reached = {}
    for p in r.json_prints('DQTRACE '):
        j = json.loads(p)
        reached[j['id']] = (j['reached'], j['len'])
    for t in traces:
        rc = reached.get(t['id'])
        if rc is None:
            ck.machinery_errors.append('c16 trace without verdict')
            break
        if rc[0] <= rc[1]:
            e = t['ev'][rc[0] - 1]
            hist = [[x['off'], x['len'], x['out']] for x in t['ev'][:rc[0]] if x['k'] == 'deliver']
            ck.violation('C16_ReleasedAsSoonAsContiguous', {
                'component': 'DeferQueue', 'geometry': geo, 'pattern': 'random-history',
                'detail': f'request ({e["off"]},{e["len"]}) returned {e["out"]}: not the '
                          f'specified writes (event {rc[0]} of {rc[1]})',
                'history_tail': hist[-8:]},
                replay={'kind': 'c16-dq', 'geometry': geo,
                        'requests': [[x['off'], x['len']] for x in t['ev'][:rc[0]]
                                     if x['k'] == 'deliver']})
    return len(traces)


def _vals(x):
    if isinstance(x, dict):
        return list(x.values())
    return list(x)


def _isreq(e):
    # Deliver leaves the attempt counters alone, Begin changes them
    return e['to']['attempt'] == e['from']['attempt']


def _sum(x):
    return sum(_vals(x))


def run(tier, seed):
    ck = checklib.Check('C16', tier, seed)
    ck.coverage['rule'] = (
        'one case per distinct delivery history (sequence of (offset,len) '
        'requests) that is a shortest path to a TLC state plus one more '
        'request; each is replayed into a fresh real DeferQueue; non-trivial '
        '= all (distinct request sequences)')
    n = 0
    geos = GEOMETRIES_THOROUGH if tier == 'thorough' else GEOMETRIES_QUICK
    for geo in geos:
        r = tlc.run_tlc('MC_DeferQueue', CFG % geo, workers=1, coverage=True,
                        timeout=3000)
        ck.add_tlc(f'DeferQueue {geo}', r)
        if r.violated:
            ck.violation(r.violated[0], {'component': 'model', 'geometry': geo,
                                         'cex': r.cex[:3000]})
            continue
        edges = [json.loads(p) for p in r.json_prints('EDGE ')]
        ck.require_nonvacuous(f'edges {geo}', len(edges), 3)
        if geo['size'] > 0 and r.coverage.get('Begin', (0, 0))[1] == 0:
            ck.machinery_errors.append('action Begin never taken')
        n += replay_edges(ck, edges, geo)
    import random as _random
    trng = _random.Random(seed * 31 + 16)
    for geo in SIM_GEOMETRIES:
        n += trace_part(ck, geo, 4000 if tier == 'thorough' else 800, trng)
    ck.coverage['traces_validated_against_impl'] = n
    ck.coverage['evaluations'] = n
    ck.coverage['exhaustive'] = True
    ck.assumptions += [
        'bytes are abstracted to positions; the replay uses self-identifying '
        'data so that a write with wrong content is detected',
        'request_writes is called under _io_submit_lock (atomic)',
    ]
    try:
        import checks.c16_e2e as E
        E.run(ck, tier, seed)
    except ImportError:
        pass
    return ck.finish()


def replay(path):
    from s3transfer.download import DeferQueue
    with open(path) as f:
        body = json.load(f)
    rp = body.get('replay') or {}
    if rp.get('kind') == 'c16-dq':
        src = data_for(rp['geometry']['size'])
        q = DeferQueue()
        for off, ln in rp['requests']:
            got = q.request_writes(off, src[off:off + ln])
            print(f'request_writes({off}, {ln} bytes) ->',
                  [(w['offset'], len(w['data'])) for w in got])
        print('required:', body['report']['detail'])
    else:
        print(json.dumps(body, indent=1)[:3000])
    return 1
