#!/bin/sh
# usage: try_mutant.sh <patch file> <Cxx> [tier]   -> applies to /repo, runs the check, reverts
PATCH=$1; P=$2; TIER=${3:-quick}
cd /verif
git -C /repo apply "$PATCH" || { echo "PATCH-DOES-NOT-APPLY $PATCH"; exit 3; }
OUT=$(./check $P --tier $TIER 2>&1); RC=$?
git -C /repo checkout -- .
echo "$OUT" | grep -E "VIOLATION|KNOWN|OK property|MACHINERY" | head -4
echo "rc=$RC"
