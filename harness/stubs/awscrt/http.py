class HttpHeaders:
    def __init__(self, name_value_pairs=None):
        self._h = list(name_value_pairs or [])

    def get(self, name, default=None):
        for k, v in self._h:
            if k.lower() == name.lower():
                return v
        return default

    def set(self, name, value):
        self.remove(name)
        self._h.append((name, value))

    def add(self, name, value):
        self._h.append((name, value))

    def remove(self, name):
        self._h = [(k, v) for k, v in self._h if k.lower() != name.lower()]

    def __iter__(self):
        return iter(self._h)


class HttpRequest:
    def __init__(self, method='GET', path='/', headers=None, body_stream=None):
        self.method = method
        self.path = path
        self.headers = headers or HttpHeaders()
        self.body_stream = body_stream
