"""C09, component level: ReadChunk.tla (the progress accounting of an upload
body) checked by TLC, and every transition TLC explored replayed into the real
s3transfer.utils.ReadFileChunk - through both constructors - comparing the
returned data, tell(), len() and the sequence of amounts the progress
callbacks received with the specification's step."""

import collections
import io
import json
import os
import shutil
import tempfile

import tlc

CFG = '''SPECIFICATION Spec
CONSTANTS
  Req = %(req)d
  Start = %(start)d
  FileLen = %(flen)d
  MaxRep = %(maxrep)d
VIEW view
CONSTRAINT Bound
INVARIANT C09_NeverDoubleCounts
INVARIANT C09_FullyReadReportsSize
PROPERTY C09_ReportedTracksPosition
PROPERTY C09_SilentWhileDisabled
PROPERTY C09_ReadStaysInChunk
ACTION_CONSTRAINT DumpEdge
CHECK_DEADLOCK FALSE
'''

# (requested chunk size, start byte, file length)
GEOMETRIES = [(3, 0, 3), (3, 1, 5), (4, 2, 5), (2, 0, 0), (1, 3, 4), (2, 2, 7)]
GEOMETRIES_THOROUGH = GEOMETRIES + [(5, 0, 5), (4, 3, 9), (6, 1, 4)]


def _key(st):
    return json.dumps(st, sort_keys=True)


def _paths(edges):
    succ = collections.defaultdict(list)
    for e in edges:
        succ[_key(e['from'])].append(e)
    roots = [k for k in succ if json.loads(k)['pos'] == 0 and json.loads(k)['rep'] == 0]
    path = {}
    dq = collections.deque()
    for r in roots:
        path[r] = []
        dq.append(r)
    while dq:
        k = dq.popleft()
        for e in succ[k]:
            k2 = _key(e['to'])
            if k2 not in path:
                path[k2] = path[k] + [e]
                dq.append(k2)
    return path


def _make(how, data, req, start, en, cbs, tmp):
    import s3transfer.utils as U

    def cb(bytes_transferred):
        cbs.append(bytes_transferred)
    if how == 'file':
        p = os.path.join(tmp, 'f')
        with open(p, 'wb') as f:
            f.write(data)
        return U.ReadFileChunk.from_filename(p, start, req, callbacks=[cb],
                                             enable_callbacks=en)
    f = io.BytesIO(data)
    f.seek(start)
    return U.ReadFileChunk(f, req, len(data), callbacks=[cb], enable_callbacks=en)


def _apply(ch, op, cbs, data, start, size):
    """Returns None if the real object did what the specification step says,
    else (clause, detail)."""
    del cbs[:]
    before = ch.tell()
    try:
        if op['op'] == 'read':
            got = ch.read() if op['a'] == -1 else ch.read(op['a'])
            lo = start + before
            want = data[lo:lo + op['ret']] if before <= size else b''
            if len(got) != op['ret']:
                return ('C09_ReadStaysInChunk', f'read returned {len(got)} bytes, model {op["ret"]}')
            if got != want:
                return ('C09_ReadStaysInChunk', f'read returned {got!r}, the chunk has {want!r} there')
        elif op['op'] == 'seek':
            try:
                ch.seek(op['a'], op['w'])
                if op['ret'] == 'ValueError':
                    return ('C09_SeekRejectsBadWhence', 'seek with whence 3 did not raise')
            except ValueError:
                if op['ret'] != 'ValueError':
                    return ('C09_ReportedTracksPosition', 'seek raised ValueError')
        elif op['op'] == 'enable':
            ch.signal_transferring()
        elif op['op'] == 'disable':
            ch.signal_not_transferring()
        else:
            raise AssertionError(op)
    except Exception as e:       # an unexpected exception is an observed outcome
        return ('C09_ReportedTracksPosition', f'{op["op"]} raised {type(e).__name__}: {e}')
    if list(cbs) != list(op['cb']):
        clause = 'C09_SilentWhileDisabled' if not op['cb'] else 'C09_ReportedTracksPosition'
        return (clause, f'callbacks received {list(cbs)}, model {list(op["cb"])}')
    return None


def replay(ck, edges, geo, hows):
    req, start, flen = geo
    size = max(min(flen - start, req), 0)
    data = bytes((17 * i + 3) % 251 for i in range(flen))
    paths = _paths(edges)
    tmp = tempfile.mkdtemp(prefix='verif-c09c-')
    n = 0
    found = 0
    try:
        for how in hows:
            for e in edges:
                pre = paths.get(_key(e['from']))
                if pre is None:
                    continue
                root = pre[0]['from'] if pre else e['from']
                cbs = []
                ch = _make(how, data, req, start, root['en'], cbs, tmp)
                hist = []
                bad = None
                total = 0
                for step in pre + [e]:
                    op = step['op']
                    hist.append([op['op'], op['a'], op['w']])
                    bad = _apply(ch, op, cbs, data, start, size)
                    total += sum(op['cb'])
                    if bad is None and ch.tell() != step['to']['pos']:
                        bad = ('C09_ReportedTracksPosition',
                               f"tell() {ch.tell()}, model {step['to']['pos']}")
                    if bad is None and len(ch) != size:
                        bad = ('C09_ReadStaysInChunk', f'len() {len(ch)}, model {size}')
                    if bad is None and total != step['to']['rep']:
                        bad = ('C09_NeverDoubleCounts',
                               f"reported sum {total}, model {step['to']['rep']}")
                    if bad:
                        break
                ch.close()
                n += 1
                ck.distinct(['chunk', how, list(geo), root['en'], hist])
                if n <= 2:
                    ck.sample({'kind': 'spec->code edge (ReadFileChunk)', 'how': how,
                               'geometry': list(geo), 'ops': hist})
                if bad:
                    found += 1
                    if found <= 8:
                        ck.violation(bad[0], {
                            'component': 'ReadFileChunk', 'constructor': how,
                            'geometry': {'req': req, 'start': start, 'file_len': flen},
                            'enabled_at_start': root['en'], 'detail': bad[1],
                            'history': hist},
                            replay={'kind': 'c09-chunk', 'how': how, 'geo': list(geo),
                                    'en': root['en'],
                                    'steps': [s['op'] | {'to': s['to']} for s in pre + [e]]})
    finally:
        shutil.rmtree(tmp, ignore_errors=True)
    return n


def run(ck, tier, seed):
    geos = GEOMETRIES_THOROUGH if tier == 'thorough' else GEOMETRIES
    total = 0
    for geo in geos:
        req, start, flen = geo
        size = max(min(flen - start, req), 0)
        r = tlc.run_tlc('ReadChunk', CFG % dict(req=req, start=start, flen=flen,
                                                maxrep=2 * size + 1),
                        workers=1, timeout=900)
        ck.add_tlc(f'ReadChunk[req={req},start={start},file={flen}]', r, exhaustive=True)
        if r.violated or not r.ok:
            for name in (r.violated or ['C09_NeverDoubleCounts']):
                ck.violation(name, {'component': 'model', 'module': 'ReadChunk',
                                    'geometry': list(geo), 'cex': r.cex[-1500:]})
            continue
        edges = [json.loads(p) for p in r.json_prints('EDGE ')]
        if not edges:
            ck.machinery_errors.append(f'ReadChunk{geo}: no edges dumped')
            continue
        # de-duplicate (the same transition is printed once per predecessor view)
        seen = {}
        for e in edges:
            seen[json.dumps(e, sort_keys=True)] = e
        edges = list(seen.values())
        ops = collections.Counter(e['op']['op'] for e in edges)
        if not all(ops.get(k) for k in ('read', 'seek', 'enable', 'disable')):
            ck.machinery_errors.append(f'ReadChunk{geo}: operations missing from the edges: {dict(ops)}')
        n = replay(ck, edges, geo, ('bytesio', 'file') if geo in GEOMETRIES[:3] or tier == 'thorough'
                   else ('bytesio',))
        total += n
        ck.coverage['spec_behaviours_replayed'] = ck.coverage.get('spec_behaviours_replayed', 0) + n
    ck.coverage.setdefault('components', []).append(
        {'component': 'ReadFileChunk', 'spec': 'ReadChunk.tla', 'edges_replayed': total,
         'geometries': [list(g) for g in geos]})
    return total


def replay_file(rp):
    """Re-run one recorded spec->code divergence against the current tree."""
    req, start, flen = rp['geo']
    size = max(min(flen - start, req), 0)
    data = bytes((17 * i + 3) % 251 for i in range(flen))
    tmp = tempfile.mkdtemp(prefix='verif-c09c-')
    try:
        cbs = []
        ch = _make(rp['how'], data, req, start, rp['en'], cbs, tmp)
        total = 0
        for st in rp['steps']:
            bad = _apply(ch, st, cbs, data, start, size)
            total += sum(st['cb'])
            print(st['op'], st['a'], st['w'], '->', 'tell', ch.tell(), 'callbacks', list(cbs),
                  '| model', st['to'], st['cb'])
            if bad is None and (ch.tell() != st['to']['pos']):
                bad = ('C09_ReportedTracksPosition', 'tell() differs')
            if bad:
                print('DIVERGES:', bad)
                return 1
        print('agrees with ReadChunk.tla')
        return 0
    finally:
        shutil.rmtree(tmp, ignore_errors=True)
