---------------------------- MODULE Routing_Trace ----------------------------
EXTENDS Routing, Json, IOUtils, TLCExt
Rows == ndJsonDeserialize(IOEnv.TRACE_FILE)
VARIABLES i, bad
vars == <<i, bad>>
\* JSON arrays arrive as sequences: turn the name lists into sets
ToSet(s) == {s[k] : k \in 1..Len(s)}
Norm(r) == [r EXCEPT !.given = ToSet(@), !.ops = ToSet(@),
              !.calls = [k \in 1..Len(r.calls) |->
                            [r.calls[k] EXCEPT !.args = ToSet(@), !.changed = ToSet(@)]]]
Init == i = 1 /\ bad = <<>>
Next ==
    /\ i <= Len(Rows)
    /\ i' = i + 1
    /\ bad' = IF RowOK(Norm(Rows[i])) THEN bad
              ELSE IF Len(bad) < 60 THEN Append(bad, Rows[i].id) ELSE bad
Spec == Init /\ [][Next]_vars
Report == (i = Len(Rows) + 1) => PrintT("ROUTING " \o ToJson([n |-> Len(Rows), bad |-> bad]))
=============================================================================
