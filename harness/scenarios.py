"""Scenario families for the end-to-end explorer."""

import copy
import random

BASES = {
    # uploads (threshold 4, chunk 2)
    'up-path-mp': {'transfers': [{'kind': 'upload', 'src': 'path', 'size': 5}]},
    'up-path-1': {'transfers': [{'kind': 'upload', 'src': 'path', 'size': 3}]},
    'up-seek-mp': {'transfers': [{'kind': 'upload', 'src': 'seekable', 'size': 5, 'offset': 2}]},
    'up-seek-1': {'transfers': [{'kind': 'upload', 'src': 'seekable', 'size': 3, 'offset': 1}]},
    'up-ns-mp': {'transfers': [{'kind': 'upload', 'src': 'nonseekable', 'size': 5}]},
    'up-ns-1': {'transfers': [{'kind': 'upload', 'src': 'nonseekable', 'size': 3}]},
    'up-ns-eq': {'transfers': [{'kind': 'upload', 'src': 'nonseekable', 'size': 4}]},
    'up-empty': {'transfers': [{'kind': 'upload', 'src': 'path', 'size': 0}]},
    # downloads
    'dl-path-mp': {'transfers': [{'kind': 'download', 'dst': 'path', 'size': 5, 'old': True}]},
    'dl-path-1': {'transfers': [{'kind': 'download', 'dst': 'path', 'size': 3}]},
    'dl-seek-mp': {'transfers': [{'kind': 'download', 'dst': 'seekable', 'size': 5}]},
    'dl-seek-1': {'transfers': [{'kind': 'download', 'dst': 'seekable', 'size': 3}]},
    'dl-ns-mp': {'transfers': [{'kind': 'download', 'dst': 'nonseekable', 'size': 7}]},
    'dl-ns-1': {'transfers': [{'kind': 'download', 'dst': 'nonseekable', 'size': 3}]},
    'dl-empty': {'transfers': [{'kind': 'download', 'dst': 'path', 'size': 0, 'old': True}]},
    # copies / delete
    'copy-mp': {'transfers': [{'kind': 'copy', 'size': 5}]},
    'copy-1': {'transfers': [{'kind': 'copy', 'size': 3}]},
    'delete': {'transfers': [{'kind': 'delete', 'size': 3}]},
}

UPLOADS = ['up-path-mp', 'up-path-1', 'up-seek-mp', 'up-seek-1', 'up-ns-mp',
           'up-ns-1', 'up-ns-eq', 'up-empty']
DOWNLOADS = ['dl-path-mp', 'dl-path-1', 'dl-seek-mp', 'dl-seek-1', 'dl-ns-mp',
             'dl-ns-1', 'dl-empty']
COPIES = ['copy-mp', 'copy-1']
MULTIPART = ['up-path-mp', 'up-seek-mp', 'up-ns-mp', 'copy-mp']
ALL = UPLOADS + DOWNLOADS + COPIES + ['delete']


def base(name, **over):
    sc = copy.deepcopy(BASES[name])
    sc['name'] = name
    for k, v in over.items():
        if k == 'cfg':
            sc.setdefault('cfg', {}).update(v)
        else:
            sc[k] = v
    return sc


def with_subs(sc, subs):
    sc = copy.deepcopy(sc)
    for t in sc['transfers']:
        t['subs'] = copy.deepcopy(subs)
    return sc


def choosers(n, rng):
    out = []
    for i in range(n):
        r = rng.random()
        if i == 0:
            out.append(('fifo',))
        elif i == 1 and n >= 4:
            out.append(('lifo',))
        elif i == 2 and n >= 6:
            out.append(('rr',))
        elif r < 0.55:
            out.append(('random', rng.randrange(1 << 30), rng.choice([0.3, 0.5, 0.7])))
        else:
            out.append(('pct', rng.randrange(1 << 30), rng.choice([2, 3, 4]),
                        rng.choice([60, 150, 300])))
    return out


def schedules(sc, n, rng):
    return [(sc, ch) for ch in choosers(n, rng)]


def det_schedules(sc, n, rng):
    """The three deterministic extremes (submitter first, workers first,
    maximal interleaving) plus n random ones."""
    return [(sc, ('fifo',)), (sc, ('lifo',)), (sc, ('rr',))] + \
        [(sc, ch) for ch in choosers(n + 1, rng)[1:]]


def s3_fault_sweep(sc, ncalls, rng, per=2, kinds=('client',), afters=(False, True)):
    jobs = []
    for seq in range(1, ncalls + 1):
        for after in afters:
            for kind in kinds:
                s = copy.deepcopy(sc)
                s['faults'] = [{'on': 's3', 'seq': seq, 'after': after,
                                'kind': kind, 'x': 0}]
                for ch in choosers(per, rng):
                    jobs.append((s, ch))
    return jobs


ENV_FAULTS = {
    'upload': [('src_read', 3), ('on_queued', 1), ('on_progress', 3)],
    'download': [('fs_open', 1), ('fs_write', 3), ('fs_close', 2),
                 ('fs_rename', 1), ('dst_write', 3), ('on_queued', 1),
                 ('on_progress', 3)],
    'copy': [('on_queued', 1), ('on_progress', 2)],
    'delete': [('on_queued', 1)],
}


EXC_CLASSES = {
    # plausible exception classes of the environment: a FIFO/socket-like
    # destination fails with EPIPE or a timeout, callbacks may raise OSError
    'dst_write': [None, 'brokenpipe', 'timeout'],
    'fs_write': [None, 'brokenpipe'],
    'on_progress': [None, 'oserror', 'timeout'],
    'on_queued': [None, 'oserror'],
}


def env_fault_sweep(sc, rng, per=2):
    jobs = []
    kind = sc['transfers'][0]['kind']
    for on, upto in ENV_FAULTS[kind]:
        for nth in range(1, upto + 1):
            for exc in EXC_CLASSES.get(on, [None]):
                s = copy.deepcopy(sc)
                f = {'on': on, 'nth': nth, 'x': 0}
                if exc:
                    f['exc'] = exc
                s['faults'] = [f]
                for ch in choosers(per if exc is None else max(1, per // 2), rng):
                    jobs.append((s, ch))
    return jobs


def cancel_sweep(sc, steps, rng, hows=('future',), stride=1, per=1):
    jobs = []
    for how in hows:
        for g in range(1, steps + 2, stride):
            s = copy.deepcopy(sc)
            s['cancel'] = {'how': how, 'gate': g, 'x': 0, 'msg': f'msg-{how}'}
            if how == 'exit-exc':
                # any exception leaving the with-block, not only Exception subclasses
                s['cancel']['exc'] = ('ValueError', 'SystemExit', 'BaseException')[g % 3]
            if how in ('exit-exc', 'exit-kbi', 'kbi-result', 'kbi-shutdown'):
                s['user'] = dict(s.get('user') or {}, mode='with')
            for ch in choosers(per, rng):
                if ch[0] == 'fifo':
                    ch = ('random', rng.randrange(1 << 30), 0.8)
                jobs.append((s, ch))
    return jobs


def stream_sweep(sc, rng, per=1, attempts=3):
    """Retryable / fatal stream faults and short reads for downloads."""
    jobs = []
    t = sc['transfers'][0]
    size = t['size']
    ranged = size >= 4
    starts = list(range(0, size, 2)) if ranged else [0]
    plen = 2 if ranged else size
    for rs in starts:
        for kind in ('timeout', 'protocol', 'incomplete', 'socket'):
            for after in range(0, plen + 1):
                s = copy.deepcopy(sc)
                s['streams'] = [{'x': 0, 'range_start': rs, 'attempt': 1,
                                 'fault_after': after, 'fault': kind,
                                 'reads': [1] if after else []}]
                for ch in choosers(per, rng):
                    jobs.append((s, ch))
        # two consecutive failed attempts cut at different places
        for a1 in range(0, plen + 1):
            for a2 in range(0, plen + 1):
                s = copy.deepcopy(sc)
                s['streams'] = [
                    {'x': 0, 'range_start': rs, 'attempt': 1, 'fault_after': a1,
                     'fault': 'timeout', 'reads': [1, 1]},
                    {'x': 0, 'range_start': rs, 'attempt': 2, 'fault_after': a2,
                     'fault': 'protocol', 'reads': [2]}]
                jobs.append((s, choosers(2, rng)[1]))
        # a stream fault followed by a failure of the re-issued request itself
        for a1 in range(1, plen + 1):
            s = copy.deepcopy(sc)
            s['streams'] = [{'x': 0, 'range_start': rs, 'attempt': 1,
                             'fault_after': a1, 'fault': 'protocol',
                             'reads': [1]}]
            s['faults'] = [{'on': 's3', 'op': 'GetObject', 'kind': 'readtimeout',
                            'x': 0, 'nth': (rs // 2) + 2 if ranged else 2,
                            'retryable': True}]
            jobs.append((s, ('fifo',)))
        # budget exhausted: every attempt fails
        s = copy.deepcopy(sc)
        s['streams'] = [{'x': 0, 'range_start': rs, 'fault_after': 1,
                         'fault': 'timeout'}]
        jobs.append((s, ('fifo',)))
        # non-retryable
        s = copy.deepcopy(sc)
        s['streams'] = [{'x': 0, 'range_start': rs, 'attempt': 1,
                         'fault_after': 1, 'fault': 'fatal'}]
        jobs.append((s, ('fifo',)))
    # short reads everywhere
    for pat in ([1], [1, 1, 1, 1, 1, 1], [2, 1], [1, 2, 1]):
        s = copy.deepcopy(sc)
        s['streams'] = [{'x': 0, 'reads': pat}]
        for ch in choosers(2, rng):
            jobs.append((s, ch))
    return jobs


def limit_configs(rng, n):
    out = []
    for _ in range(n):
        out.append({k: rng.choice([1, 2]) for k in
                    ('R', 'S', 'RQ', 'SQ', 'IOQ', 'up_chunks', 'down_chunks')})
    return out


MIX_POOL = [
    {'kind': 'upload', 'src': 'nonseekable', 'size': 5},
    {'kind': 'upload', 'src': 'seekable', 'size': 5, 'offset': 1},
    {'kind': 'upload', 'src': 'path', 'size': 5},
    {'kind': 'upload', 'src': 'nonseekable', 'size': 3},
    {'kind': 'download', 'dst': 'nonseekable', 'size': 7},
    {'kind': 'download', 'dst': 'nonseekable', 'size': 5},
    {'kind': 'download', 'dst': 'path', 'size': 5, 'old': True},
    {'kind': 'download', 'dst': 'seekable', 'size': 5},
    {'kind': 'copy', 'size': 5},
    {'kind': 'copy', 'size': 3},
    {'kind': 'delete', 'size': 2},
]


def mixes(rng, n, k=(2, 3), limits=True):
    out = []
    for _ in range(n):
        ts = [copy.deepcopy(rng.choice(MIX_POOL)) for _ in range(rng.choice(k))]
        sc = {'name': 'mix', 'transfers': ts}
        if limits:
            sc['cfg'] = limit_configs(rng, 1)[0]
        out.append(sc)
    return out


def probe(sc):
    """Fault-free FIFO run: number of scheduling steps and of S3 calls."""
    import pipeline
    r = pipeline._run_job((sc, ('fifo',), 0))
    if 'error' in r:
        raise RuntimeError(r['error'])
    return r['steps'], r['s3calls']


def single_deviations(sc, limit=None, rng=None):
    """Systematic exploration: the default (non-preemptive) schedule and every
    schedule that deviates from it at exactly one scheduling point."""
    import pipeline
    r = pipeline._run_job((sc, ('dfs', [], 1), 0))
    if 'error' in r:
        raise RuntimeError(r['error'])
    log = r.get('dfs_log') or []
    jobs = [(sc, ('dfs', [], 1))]
    cands = []
    for i, (nalts, taken) in enumerate(log):
        for k in range(1, nalts):
            cands.append((sc, ('dfs', [0] * i + [k], 1)))
    if limit and len(cands) > limit:
        cands = rng.sample(cands, limit)
    return jobs + cands
