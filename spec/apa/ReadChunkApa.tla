---------------------------- MODULE ReadChunkApa ----------------------------
(***************************************************************************)
(* Inductive-invariant check (Apalache) of ReadChunk.tla's accounting      *)
(* claim for ANY chunk size up to 10^6 bytes and ANY read amount / seek    *)
(* target (TLC explores chunks of 0..6 bytes): a body whose reporting was  *)
(* never switched off has reported exactly the bytes currently sent of it, *)
(*        allEn => rep = B(pos),                                           *)
(* whatever sequence of reads, rewinds and seeks beyond the chunk.  The    *)
(* transitions are those of ReadChunk.tla without the observation variable *)
(* `last`; the chunk size is a variable that never changes, so that it is  *)
(* symbolic.                                                               *)
(*   apalache-mc check --init=Init    --inv=IndInv --length=0 ReadChunkApa.tla *)
(*   apalache-mc check --init=IndInit --inv=IndInv --length=1 ReadChunkApa.tla *)
(* Not part of a registered check (run by hand, result in DESIGN.md 11.7). *)
(***************************************************************************)
EXTENDS Integers

Big == 1000000

VARIABLES
    \* @type: Int;
    size,
    \* @type: Int;
    pos,
    \* @type: Bool;
    en,
    \* @type: Int;
    rep,
    \* @type: Bool;
    allEn

Min(a, b) == IF a < b THEN a ELSE b
Max(a, b) == IF a > b THEN a ELSE b
B(p) == Max(Min(p, size), 0)

Init == size \in 0..Big /\ pos = 0 /\ rep = 0 /\ en \in BOOLEAN /\ allEn = en

Read(n) ==
    LET left == Max(size - pos, 0)
        k == IF n = -1 THEN left ELSE Min(left, n)
    IN /\ pos' = pos + k
       /\ rep' = IF en THEN rep + k ELSE rep
       /\ UNCHANGED <<size, en, allEn>>

Seek(w, whence) ==
    LET rel == w + (IF whence = 1 THEN pos ELSE IF whence = 2 THEN size ELSE 0)
        amount == B(rel) - B(pos)
    IN /\ pos' = Max(rel, 0)
       /\ rep' = IF en THEN rep + amount ELSE rep
       /\ UNCHANGED <<size, en, allEn>>

Enable == en' = TRUE /\ UNCHANGED <<size, pos, rep, allEn>>
Disable == en' = FALSE /\ allEn' = FALSE /\ UNCHANGED <<size, pos, rep>>

Next ==
    \/ \E n \in -1..Big : Read(n)
    \/ \E w \in -Big..Big, whence \in 0..2 : Seek(w, whence)
    \/ Enable \/ Disable

TypeOK == /\ size \in 0..Big /\ pos \in 0..(4 * Big) /\ en \in BOOLEAN
          /\ rep \in -(4 * Big)..(4 * Big) /\ allEn \in BOOLEAN

IndInv ==
    /\ TypeOK
    /\ allEn => en
    /\ allEn => rep = B(pos)

IndInit == IndInv /\ pos <= 2 * Big /\ rep <= 2 * Big /\ -rep <= 2 * Big

\* what users rely on (follows from IndInv): never more than the chunk, never negative,
\* and a fully sent body has reported its size
C09_NeverDoubleCounts == allEn => (rep >= 0 /\ rep <= size /\ (pos = size => rep = size))
=============================================================================
