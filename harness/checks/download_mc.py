"""TLC on Download.tla: the design-level model of a ranged download to a file
path (submission, GetObject tasks with the attempt loop, IO executor, final
rename, announce_done with the temp-file cleanups, cancel, faults) driving the
observable state Obs.tla; the clauses of Props.tla and the model's own
file-system / semaphore facts are INVARIANTs, termination under fairness."""

import re

import tlc

CFG = '''SPECIFICATION %(spec)s
CONSTANTS
  N = %(n)d
  R = %(r)d
  RQ = %(rq)d
  IOQ = %(ioq)d
  A = %(a)d
  MaxFaults = %(faults)d
  UserMayCancel = %(cancel)s
  NeedHead = %(head)s
  HasOld = %(old)s
  Dest = "%(dest)s"
  Single = %(single)s
  W = %(w)d
%(invs)sINVARIANT C06_M_DestOnlyOldOrComplete
INVARIANT C06_M_NoTempAtDoneEvent
INVARIANT C06_M_RenameOnlyAfterAllWritten
INVARIANT C02_M_SuccessMeansComplete
INVARIANT C12_RequestSlotsConserved
INVARIANT C12_IoSlotsConserved
INVARIANT C11_M_IoQueueBounded
INVARIANT C17_LocksHeldByAnnouncers
INVARIANT C04_M_FinalSubmittedOnce
INVARIANT C16_M_QueuedInOrder
INVARIANT C11_M_WindowBounded
INVARIANT C17_M_DeferLockHeldByFlusher
%(props)sCHECK_DEADLOCK FALSE
'''
LIVE = 'PROPERTY C04_ResultReturns\nPROPERTY C04_ShutdownReturns\n'

FOOT = {
    'C02': ('C02_',), 'C03': ('C03_', 'C06_'), 'C04': ('C04_',), 'C06': ('C06_',),
    'C07': ('C07_', 'C06_'), 'C08': ('C08_',), 'C10': ('C10_', 'C12_'), 'C11': ('C11_',),
    'C17': ('C17_',), 'C18': ('C18_',), 'C12': ('C12_',),
}


def clauses():
    txt = open(tlc.SPEC + '/Download.tla').read()
    return re.findall(r'"(C\d\d_\w+)"',
                      txt.split('DownloadClauses ==')[1].split('ASSUME')[0])


def run(ck, pid, tier, seed):
    if pid not in FOOT:
        return
    cl = clauses()
    mod = '---- MODULE MC_Download ----\nEXTENDS Download\n' + ''.join(
        f'I_{c} == Holds("{c}", o)\n' for c in cl) + '====\n'
    invs = ''.join(f'INVARIANT I_{c}\n' for c in cl)
    T, F = 'TRUE', 'FALSE'
    confs = [dict(n=1, r=1, rq=1, ioq=1, a=2, faults=1, cancel=T, head=F, old=T, live=True),
             dict(n=1, r=1, rq=1, ioq=1, a=2, faults=1, cancel=F, head=T, old=F, live=True),
             dict(n=2, r=2, rq=1, ioq=1, a=2, faults=1, cancel=F, head=F, old=T, live=True),
             dict(n=3, r=2, rq=2, ioq=1, a=2, faults=0, cancel=F, head=F, old=F, live=True,
                  dest='nonseekable', w=2),
             dict(n=2, r=2, rq=2, ioq=1, a=2, faults=1, cancel=T, head=F, old=F, live=False,
                  dest='nonseekable', w=1),
             dict(n=2, r=2, rq=1, ioq=2, a=2, faults=1, cancel=F, head=F, old=F, live=False,
                  dest='seekable'),
             dict(n=1, r=1, rq=1, ioq=1, a=2, faults=1, cancel=T, head=F, old=T, live=True, single=T),
             dict(n=1, r=2, rq=1, ioq=1, a=2, faults=1, cancel=T, head=T, old=F, live=True,
                  dest='nonseekable', w=1, single=T),
             dict(n=1, r=1, rq=1, ioq=1, a=2, faults=2, cancel=F, head=F, old=F, live=True,
                  dest='seekable', single=T)]
    if tier == 'thorough':
        confs += [dict(n=2, r=2, rq=2, ioq=1, a=2, faults=1, cancel=T, head=T, old=T, live=False),
                  dict(n=2, r=1, rq=1, ioq=2, a=2, faults=2, cancel=T, head=F, old=T, live=False),
                  dict(n=3, r=2, rq=2, ioq=1, a=2, faults=1, cancel=T, head=F, old=F, live=False,
                       dest='nonseekable', w=2),
                  dict(n=3, r=2, rq=2, ioq=2, a=2, faults=2, cancel=F, head=F, old=F, live=False,
                       dest='nonseekable', w=2),
                  dict(n=2, r=2, rq=2, ioq=1, a=2, faults=1, cancel=T, head=F, old=F, live=False,
                       dest='seekable'),
                  dict(n=3, r=2, rq=2, ioq=1, a=1, faults=1, cancel=F, head=F, old=F, live=True),
                  # beyond exhaustive reach: random behaviours of a larger instance
                  dict(n=4, r=3, rq=2, ioq=2, a=2, faults=2, cancel=T, head=T, old=T, live=False,
                       dest='nonseekable', w=2, sim='num=20000')]
    if tier != 'thorough':
        # every property checks the first two configurations and two of the
        # others in rotation (all of them are covered across the properties)
        k = int(pid[1:])
        rest = confs[2:]
        confs = confs[:2] + [rest[(k + i) % len(rest)] for i in range(min(2, len(rest)))]
    for c in confs:
        c.setdefault('dest', 'path')
        c.setdefault('w', 2)
        c.setdefault('single', 'FALSE')
        kw = {}
        if c.get('sim'):
            kw = dict(simulate=c['sim'], depth=200, seed=seed + 7)
        r = tlc.run_tlc('MC_Download', CFG % dict(
            c, invs=invs, spec='FairSpec' if c['live'] else 'Spec',
            props=LIVE if c['live'] else ''), workers=14, timeout=3000,
            files={'MC_Download.tla': mod}, **kw)
        ck.add_tlc(f'Download N={c["n"]} R={c["r"]} RQ={c["rq"]} IOQ={c["ioq"]} A={c["a"]} '
                   f'faults={c["faults"]} cancel={c["cancel"]} head={c["head"]} dest={c["dest"]} W={c["w"]} '
                   f'single={c["single"]} '
                   f'{"safety+liveness" if c["live"] else "safety"}'
                   + (' simulation ' + c['sim'] if c.get('sim') else ''), r,
                   exhaustive=not c.get('sim'))
        for v in r.violated:
            name = v[2:] if v.startswith('I_') else v
            mine = name.startswith(FOOT[pid])
            rep = {'component': 'model', 'model': 'Download',
                   'conf': {k: v_ for k, v_ in c.items()},
                   'cex': getattr(r, 'cex_full', r.cex)[-3000:]}
            if mine:
                ck.violation(name, rep)
            else:
                ck.coverage.setdefault('other_property_clauses_failed', {})[name] = 1
