"""C19 - process-pool downloads finish only after all jobs, with cleanup.

1. TLC checks ProcessPool.tla (protocol of main process, submitter, workers,
   monitor; every monitor call an action of its own) for 1-3 workers, 1-2
   downloads of 1-4 jobs, one fault (head, allocate, any job, rename), a
   cancelling user and Ctrl-C: safety invariants and liveness under fairness.
2. code -> spec: the real submitter/worker loops, TransferMonitor, future and
   ProcessPoolDownloader wiring run in one process as cooperative threads
   (queues, process start/join, manager proxy, client factory substituted);
   every monitor call / queue operation / size request / allocate / rename /
   remove is an event and TLC validates each trace against
   ProcessPool_Trace.tla (each event must be the spec action of that thread
   with the logged values; the real directory must agree with the spec's
   file system; C19 clauses are INVARIANTs of the trace spec).
"""

import copy
import json
import os
import random
import shutil
import tempfile
from concurrent.futures import ThreadPoolExecutor

import checklib
import pipeline
import ppool
import tlc

MC_MODULE = '''---- MODULE MC_ProcessPool ----
EXTENDS ProcessPool
MCJobs == %s
====
'''

INVS = '''INVARIANT C19_DoneOnlyAfterAllJobsAccounted
INVARIANT C19_AtDoneFileInPlaceOrTempRemoved
INVARIANT C19_DestNeverPartial
INVARIANT C19_ShutdownWaitsForAll
INVARIANT C19_JobsNeverNegative
'''

MC_CFG = '''SPECIFICATION FairSpec
CONSTANTS
  Workers = {%(workers)s}
  NDownloads = %(nd)d
  JobsOf <- MCJobs
  MaxFaults = %(faults)d
  UserMayCancel = %(cancel)s
  UserMayCtrlC = %(ctrlc)s
''' + INVS + '''PROPERTY C19_CancelledNotPublishedLate
PROPERTY C19_EveryDownloadEventuallyDone
PROPERTY C19_ShutdownReturns
CHECK_DEADLOCK FALSE
'''

TRACE_CFG = '''SPECIFICATION TSpec
CONSTANTS
  Workers = {%(workers)s}
  NDownloads = %(nd)d
  JobsOf <- MCJobs
  MaxFaults = 100
  UserMayCancel = TRUE
  UserMayCtrlC = TRUE
%(invs)sCONSTRAINT Progress
POSTCONDITION Final
CHECK_DEADLOCK FALSE
'''

TRACE_MODULE = '''---- MODULE MC_ProcessPool_Trace ----
EXTENDS ProcessPool_Trace
MCJobs == %s
====
'''


def q(names):
    return ', '.join(f'"{n}"' for n in names)


def fn(jobs):
    return ' @@ '.join(f'({i} :> {j})' for i, j in enumerate(jobs))


SIZES = {1: 3, 2: 4, 3: 5, 4: 7}      # jobs -> object size (threshold 4, chunk 2)


def scenarios(rng, geometry, nsched, thorough):
    workers, jobs = geometry
    base = {'workers': workers,
            'downloads': [{'size': SIZES[j], 'known': False, 'old': i % 2 == 0}
                          for i, j in enumerate(jobs)]}
    out = []

    def add(sc, n=nsched):
        for i, ch in enumerate(__import__('scenarios').choosers(n, rng)):
            s2 = copy.deepcopy(sc)
            # every other schedule: monitor calls interleave at their locks
            # (the manager process serves each connection in its own thread)
            if i % 2 == 1 and workers > 1:
                s2['fine_monitor'] = True
            out.append((s2, ch))
    add(base, nsched * 2)
    k = copy.deepcopy(base)
    for d in k['downloads']:
        d['known'] = True
    add(k)
    for x, j in enumerate(jobs):
        for f in ([{'on': 'head', 'x': x}, {'on': 'allocate', 'x': x},
                   {'on': 'rename', 'x': x}]
                  + [{'on': 'job', 'x': x, 'offset': 2 * i if j > 1 else 0}
                     for i in range(j)]):
            sc = copy.deepcopy(base)
            sc['faults'] = [f]
            add(sc)
        # retryable stream fault below the budget, and a fatal one
        sc = copy.deepcopy(base)
        sc['streams'] = [{'x': x, 'attempt': 1, 'fault_after': 1,
                          'fault': 'timeout', 'reads': [1]}]
        add(sc, max(1, nsched // 2))
        sc = copy.deepcopy(base)
        sc['streams'] = [{'x': x, 'attempt': 1, 'fault_after': 1, 'fault': 'fatal'}]
        add(sc, max(1, nsched // 2))
        for g in range(2, 120, 9 if not thorough else 4):
            sc = copy.deepcopy(base)
            sc['cancel'] = {'how': 'future', 'x': x, 'gate': g}
            add(sc, 1)
    for g in range(2, 160, 3 if len(jobs) > 1 else 9):
        sc = copy.deepcopy(base)
        sc['cancel'] = {'how': 'ctrl-c', 'gate': g}
        add(sc, 2 if len(jobs) > 1 else 1)
    return out


def _run(job):
    sc, chs, jid = job
    try:
        res = ppool.run(sc, pipeline.make_chooser(chs))
    except Exception:
        import traceback
        return {'jid': jid, 'error': traceback.format_exc()[-1500:]}
    tr = ppool.normalize(res, sc, jid)
    return {'jid': jid, 'trace': tr, 'failure': res['failure'],
            'failure_info': res['failure_info'], 'results': res['results'],
            'thread_errors': res['thread_errors']}


def _work(jobs):
    return [_run(j) for j in jobs]


TRACE_INVS = INVS + '''INVARIANT R_DestNeverPartial
INVARIANT R_AgreesAtDone
INVARIANT R_ResultTruthful
INVARIANT R_AllDoneAfterShutdown
'''


def validate(traces, geometry, invs=None):
    workers, jobs = geometry
    inv_lines = TRACE_INVS if invs is None else ''.join(
        f'INVARIANT {i}\n' for i in invs)
    d = tempfile.mkdtemp(prefix='verif-c19-')
    try:
        path = os.path.join(d, 'traces.ndjson')
        with open(path, 'w') as f:
            for t in traces:
                f.write(json.dumps(t) + '\n')
        wn = [f'w{i + 1}' for i in range(workers)]
        cfg = TRACE_CFG % dict(workers=q(wn), nd=len(jobs), invs=inv_lines)
        r = tlc.run_tlc('MC_ProcessPool_Trace', cfg, workers=1,
                        env={'TRACE_FILE': path}, timeout=3000,
                        files={'MC_ProcessPool_Trace.tla': TRACE_MODULE % fn(jobs)})
        reached = {}
        for p in r.json_prints('PPTRACE '):
            j = json.loads(p)
            reached[j['id']] = (j['reached'], j['len'])
        return reached, r
    finally:
        shutil.rmtree(d, ignore_errors=True)


def run(tier, seed):
    ck = checklib.Check('C19', tier, seed)
    thorough = tier == 'thorough'
    rng = random.Random(seed * 101 + 19)
    ck.coverage['rule'] = (
        'one case per deterministic in-process execution of the process-pool '
        'protocol (geometry x fault x cancel/Ctrl-C point x schedule); '
        'distinct = distinct event traces; all non-trivial')
    model_part(ck, thorough)
    geos = [(2, (3, 1)), (1, (2,)), (3, (4,)), (2, (1, 2)), (1, (1, 3))]
    if thorough:
        geos += [(2, (2, 2)), (3, (3, 3)), (1, (4,)), (2, (4, 1))]
    total = traces_part(ck, rng, geos, thorough)
    pipeline.close_pool()
    ck.require_nonvacuous('process-pool traces', total, 100)
    ck.assumptions += ASSUMPTIONS
    return ck.finish()


ASSUMPTIONS = [
    'real OS processes, pickling and the multiprocessing manager are not '
    'exercised: the process-pool protocol is replayed in one process; each '
    'monitor call is atomic (one hop)',
    'zero-size objects are not used with the process pool: '
    'OSUtils.allocate(name, 0) fails on Linux (observation O1 in DESIGN.md)',
]


def facet(ck, tier, seed, invs, prefix, conf_kinds=None, report_hang=False):
    """The process-pool downloader's part of another property: the same
    executions and the same trace specification, with ``invs`` as the
    invariants; a violated invariant is reported as clause prefix+name."""
    thorough = tier == 'thorough'
    rng = random.Random(seed * 101 + 19 + int(ck.pid[1:]))
    geos = [(2, (3, 1)), (1, (2,)), (2, (1, 2))]
    if thorough:
        geos += [(3, (4,)), (2, (2, 2)), (1, (1, 3))]
    n = traces_part(ck, rng, geos, thorough, invs=invs, prefix=prefix,
                    conf_kinds=conf_kinds, report_hang=report_hang)
    ck.coverage.setdefault('families', {})['process-pool'] = n
    for a in ASSUMPTIONS:
        if a not in ck.assumptions:
            ck.assumptions.append(a)
    return n


def model_part(ck, thorough):
    # 1. model checking
    mcs = [((['w1', 'w2'], [2, 1]), 1, True, True),
           ((['w1'], [3]), 1, True, True),
           ((['w1', 'w2', 'w3'], [2]), 1, True, False)]
    if thorough:
        mcs += [((['w1', 'w2'], [4]), 1, True, True),
                ((['w1', 'w2'], [2, 2]), 1, True, True),
                ((['w1', 'w2', 'w3'], [3, 1]), 1, False, True)]
    for (wn, jobs), faults, cancel, ctrlc in mcs:
        cfg = MC_CFG % dict(workers=q(wn), nd=len(jobs), faults=faults,
                            cancel='TRUE' if cancel else 'FALSE',
                            ctrlc='TRUE' if ctrlc else 'FALSE')
        r = tlc.run_tlc('MC_ProcessPool', cfg, workers=12, timeout=3000,
                        files={'MC_ProcessPool.tla': MC_MODULE % fn(jobs)})
        ck.add_tlc(f'ProcessPool workers={len(wn)} jobs={jobs}', r)
        for v in r.violated:
            ck.violation(v, {'component': 'model', 'geometry': [wn, jobs],
                             'cex': r.cex[-2500:]})


def traces_part(ck, rng, geos, thorough, invs=None, prefix='', conf_kinds=None,
                report_hang=False):
    # 2. traces of the real code
    total = 0
    for geo in geos:
        jobs = scenarios(rng, geo, 6 if thorough else 3, thorough)
        jl = [(sc, ch, i) for i, (sc, ch) in enumerate(jobs)]
        chunks = [jl[i:i + 20] for i in range(0, len(jl), 20)]
        runs = []
        for part in pipeline.pool().imap(_work, chunks):
            runs.extend(part)
        errs = [r for r in runs if 'error' in r]
        if errs:
            ck.machinery_errors.append('process-pool run failed: ' + errs[0]['error'][-500:])
        terr = [r for r in runs if r.get('thread_errors')]
        if terr:
            ck.machinery_errors.append('thread error: ' + terr[0]['thread_errors'][0][2][-600:])
        good = [r for r in runs if 'trace' in r]
        for r in good:
            ck.distinct(r['trace']['ev'])
            if r['failure']:
                sc = jobs[r['jid']][0]
                if invs is not None and not report_hang:
                    continue
                ck.violation((prefix + 'NoDeadlock') if invs is not None
                             else 'C19_EveryDownloadEventuallyDone', {
                    'component': 'processpool', 'detail': r['failure'],
                    'info': r['failure_info'], 'scenario': sc},
                    replay={'kind': 'c19', 'scenario': sc,
                            'chooser': jobs[r['jid']][1]})
        groups = [good[i:i + 300] for i in range(0, len(good), 300)]
        with ThreadPoolExecutor(max_workers=6) as ex:
            outs = list(ex.map(lambda g: validate([r['trace'] for r in g], geo, invs), groups))
        for g, (reached, r) in zip(groups, outs):
            ck.add_tlc(f'ProcessPool_Trace geo={geo} x{len(g)}', r, exhaustive=False)
            if r.violated:
                # a C19 clause failed in a state of some trace
                import re
                m = re.findall(r'tid = (\d+)', r.cex)
                tidx = int(m[-1]) - 1 if m else 0
                rr = g[tidx] if tidx < len(g) else g[0]
                sc = jobs[rr['jid']][0]
                ck.violation(prefix + r.violated[0], {
                    'component': 'processpool', 'scenario': sc,
                    'results': rr['results'], 'cex_tail': r.cex[-1500:]},
                    replay={'kind': 'c19', 'scenario': sc,
                            'chooser': jobs[rr['jid']][1]})
                continue
            for rr in g:
                rc = reached.get(rr['jid'])
                if rc is None:
                    ck.machinery_errors.append('trace without verdict')
                    break
                if rc[0] <= rc[1] and not rr['failure']:
                    fs_kinds = conf_kinds or (
                        'w_rename', 'w_remove', 'w_done', 'alloc', 'snap', 'sub_done')
                    if invs is not None and (prefix.startswith('C06') or conf_kinds) and \
                            rc[0] <= len(rr['trace']['ev']) and \
                            rr['trace']['ev'][rc[0] - 1].get('k') in fs_kinds:
                        # the order of allocate / rename / remove / notify_done
                        # is the publication protocol C06 is about
                        pass
                    elif invs is not None:
                        # conformance to the rest of the protocol is C19's business
                        o = ck.coverage.setdefault('other_property_clauses_failed', {})
                        o['C19_TraceConformance'] = o.get('C19_TraceConformance', 0) + 1
                        continue
                    evs = rr['trace']['ev']
                    at = evs[rc[0] - 1] if 0 < rc[0] <= len(evs) else None
                    sc = jobs[rr['jid']][0]
                    ck.violation((prefix or 'C19_') + 'TraceConformance', {
                        'component': 'processpool', 'scenario': sc,
                        'detail': f'event {rc[0]} of {rc[1]} is not a step of '
                                  f'ProcessPool.tla: {at}',
                        'before': evs[max(0, rc[0] - 6):rc[0]]},
                        replay={'kind': 'c19', 'scenario': sc,
                                'chooser': jobs[rr['jid']][1]})
        total += len(good)
        if good:
            ck.sample({'kind': 'process-pool trace', 'geometry': geo,
                       'events_head': [
                           {k: v for k, v in e.items() if v not in ('', 0, True, -1)}
                           for e in good[0]['trace']['ev'][:14]]}, limit=3)
    ck.coverage['traces_validated_against_impl'] += total
    ck.coverage['evaluations'] += total
    return total


def replay(path):
    with open(path) as f:
        body = json.load(f)
    rp = body.get('replay') or {}
    if rp.get('kind') == 'c19':
        res = ppool.run(rp['scenario'], pipeline.make_chooser(tuple(rp['chooser'])))
        tr = ppool.normalize(res, rp['scenario'], 0)
        print('results', res['results'], 'failure', res['failure'])
        for i, e in enumerate(tr['ev'], 1):
            print(i, {k: v for k, v in e.items() if v not in ('', 0, True, -1)})
    print(json.dumps({k: v for k, v in body['report'].items()
                      if k not in ('scenario',)}, indent=1, default=str)[:2500])
    return 1
