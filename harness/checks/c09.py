"""C09 - decided by TLC on the end-to-end traces (ObsTrace/Props) and on the
Pipeline model; see checks/pipe.py for the scenario families."""
from checks import pipe


def run(tier, seed):
    extra = None
    try:
        from checks import pipeline_mc
        extra = lambda ck, t, s: pipeline_mc.run(ck, 'C09', t, s)
    except ImportError:
        pass
    return pipe.run('C09', tier, seed, extra=extra)


def replay(path):
    return pipe.replay(path)
