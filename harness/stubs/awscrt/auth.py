import enum


class AwsCredentials:
    def __init__(self, access_key_id=None, secret_access_key=None,
                 session_token=None, expiration=None):
        self.access_key_id = access_key_id
        self.secret_access_key = secret_access_key
        self.session_token = session_token


class AwsCredentialsProvider:
    @classmethod
    def new_delegate(cls, get_credentials):
        return cls()

    @classmethod
    def new_static(cls, *a, **k):
        return cls()


class AwsSigningAlgorithm(enum.IntEnum):
    V4 = 0
    V4_ASYMMETRIC = 1
    V4_S3EXPRESS = 2


class AwsSigningConfig:
    def __init__(self, **kwargs):
        self.__dict__.update(kwargs)
