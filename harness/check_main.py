"""./check entry point: dispatches to harness/checks/<id>.py"""
import argparse
import importlib
import os
import sys
import traceback

sys.path.insert(0, os.path.dirname(os.path.abspath(__file__)))


def main():
    ap = argparse.ArgumentParser()
    ap.add_argument('pid')
    ap.add_argument('--tier', default=os.environ.get('VERIF_TIER', 'quick'),
                    choices=['quick', 'thorough'])
    ap.add_argument('--seed', type=int,
                    default=int(os.environ.get('VERIF_SEED', '0') or 0))
    ap.add_argument('--replay', default=None)
    a = ap.parse_args()
    pid = a.pid.upper()
    # watchdog: a check that hangs is a machinery failure, never a verdict
    import signal
    budget = int(os.environ.get('VERIF_WATCHDOG',
                                '7200' if a.tier == 'thorough' else '1500'))

    def _alarm(signum, frame):
        print(f'MACHINERY-ERROR property={pid}: watchdog {budget}s expired',
              file=sys.stderr)
        os._exit(2)
    signal.signal(signal.SIGALRM, _alarm)
    signal.alarm(budget)
    try:
        mod = importlib.import_module(f'checks.{pid.lower()}')
    except ImportError:
        traceback.print_exc()
        print(f'no check for {pid}', file=sys.stderr)
        return 2
    try:
        if a.replay:
            return mod.replay(a.replay)
        return mod.run(a.tier, a.seed)
    except Exception:
        traceback.print_exc()
        print(f'MACHINERY-ERROR property={pid}', file=sys.stderr)
        return 2


if __name__ == '__main__':
    sys.exit(main())
