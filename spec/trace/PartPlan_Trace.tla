--------------------------- MODULE PartPlan_Trace ---------------------------
(***************************************************************************)
(* Conformance of the real planning functions with PartPlan.tla: every     *)
(* line of the trace file is one evaluation of a real function             *)
(* (arguments and result); the result must equal the specification's.      *)
(***************************************************************************)
EXTENDS PartPlan, Json, IOUtils, TLC, TLCExt, Sequences

Cases == ndJsonDeserialize(IOEnv.TRACE_FILE)
VARIABLES i, bad
vars == <<i, bad>>

Expected(c) ==
    CASE c.fn = "num_parts" -> NumParts(c.size, c.part)
      [] c.fn = "range_start" -> RangeStart(c.idx, c.part)
      [] c.fn = "range_end" ->
            IF c.idx = c.n - 1 THEN (IF c.total >= 0 THEN c.total - 1 ELSE -1)
            ELSE RangeEndMid(c.idx, c.part)
      [] c.fn = "part_len" -> PartLen(c.idx, c.n, c.part, c.size)
      [] c.fn = "adjust" -> Adjust(c.part, c.size)
      [] c.fn = "multipart" -> IF Multipart(c.size, c.thr) THEN 1 ELSE 0
      [] OTHER -> -999

Init == i = 1 /\ bad = <<>>
Next ==
    /\ i <= Len(Cases)
    /\ i' = i + 1
    /\ bad' = IF Expected(Cases[i]) = Cases[i].res THEN bad
              ELSE IF Len(bad) < 20 THEN Append(bad, [case |-> Cases[i], want |-> Expected(Cases[i])]) ELSE bad
Spec == Init /\ [][Next]_vars
Report == (i = Len(Cases) + 1) => PrintT("PLAN " \o ToJson([n |-> Len(Cases), bad |-> bad]))
=============================================================================
