"""C12, code -> spec under free interleavings: 2-4 real threads run random
scripts of blocking / non-blocking acquires and (in- and out-of-order, also
bogus) releases on one real SlidingWindowSemaphore; the scheduler switches at
every lock acquire / release / condition wait inside the semaphore.  Each
call's start and end are logged and TLC validates the trace against
Semaphores_Trace.tla (linearizability against Semaphores.tla).  A thread that
is left blocked although the script guarantees progress is a verdict of its
own (C12_NoAcquirerBlockedForever / C12_NonBlockingRaisesAtZero)."""

import json
import os
import random
import shutil
import tempfile

import coop
import tlc

CFG = '''SPECIFICATION TSpec
CONSTANTS
  Cap = %(cap)d
  Tags = {%(tags)s}
  Threads = {%(threads)s}
  Releasers = {}
  MaxTok = 1000
INVARIANT C12_CapacityEquation
INVARIANT C12_CountInRange
INVARIANT C12_PendingWellFormed
INVARIANT C12_WaitersConsistent
PROPERTY C12_NonBlockingRaisesAtZero
PROPERTY C12_BadReleaseRejectedUnchanged
PROPERTY C12_OutOfOrderFreesLater
PROPERTY C12_TokensSequentialPerTag
CONSTRAINT Progress
CONSTRAINT NotYetAccepted
POSTCONDITION Final_
CHECK_DEADLOCK FALSE
'''


def q(names):
    return ', '.join(f'"{n}"' for n in names)


def record_one(cap, nthreads, tags, seed, chooser):
    """One execution; returns (events, failure, blocked_nb)."""
    import s3transfer.utils as U
    from s3transfer.utils import NoResourcesAvailable
    events = []
    s = coop.Scheduler(chooser, tracer=events.append, max_steps=6000)
    rng = random.Random(seed)
    scripts = {}
    for i in range(nthreads):
        ops = []
        for _ in range(rng.randint(2, 4)):
            tag = rng.choice(tags)
            # hold 1 token (blocking or not), sometimes try a second one without blocking
            ops.append(('first', tag, rng.random() < 0.6))
            if rng.random() < 0.5:
                ops.append(('second_nb', rng.choice(tags)))
            if rng.random() < 0.2:
                # (a never-issued token or an unknown tag; re-releasing an issued token is
                #  outside what the property speaks about)
                ops.append(('bogus', rng.choice(tags + ['zz']), rng.choice([50, 51])))
            ops.append(('release_all', rng.random() < 0.5))
        scripts[f't{i}'] = ops
    innb = {}

    def worker(name, sem):
        held = []
        for op in scripts[name]:
            if op[0] in ('first', 'second_nb'):
                tag = op[1]
                blocking = op[0] == 'first' and op[2]
                s.emit('SCall', op='acquire' if blocking else 'acquire_nb', tag=tag, tok=-1)
                innb[name] = not blocking
                try:
                    tok = sem.acquire(tag, blocking)
                    held.append((tag, tok))
                    s.emit('SRet', res='token', tok=tok)
                except NoResourcesAvailable:
                    s.emit('SRet', res='NoResourcesAvailable', tok=-1)
                except Exception as e:     # any other outcome is an observation, not a harness error
                    s.emit('SRet', res='error:' + type(e).__name__, tok=-1)
                innb[name] = False
            elif op[0] == 'bogus':
                tag, tok = op[1], op[2]
                s.emit('SCall', op='release', tag=tag, tok=tok)
                try:
                    sem.release(tag, tok)
                    s.emit('SRet', res='ok', tok=-1)
                except ValueError:
                    s.emit('SRet', res='ValueError', tok=-1)
                except Exception as e:
                    s.emit('SRet', res='error:' + type(e).__name__, tok=-1)
            else:
                order = list(held)
                if op[1]:
                    order.reverse()
                for tag, tok in order:
                    s.emit('SCall', op='release', tag=tag, tok=tok)
                    try:
                        sem.release(tag, tok)
                        s.emit('SRet', res='ok', tok=-1)
                    except ValueError:
                        s.emit('SRet', res='ValueError', tok=-1)
                    except Exception as e:
                        s.emit('SRet', res='error:' + type(e).__name__, tok=-1)
                held.clear()

    def main():
        sem = U.SlidingWindowSemaphore(cap)
        sts = [s.spawn(n, worker, n, sem) for n in scripts]
        for st in sts:
            s.block(lambda st=st: st.finished, f'join:{st.name}')

    with coop.installed(s, threading_modules=('s3transfer.utils',), time_modules=()):
        s.run(main, name='main')
    ev = []
    for e in events:
        if e.get('e') == 'SCall':
            ev.append({'k': 'SCall', 'th': e['th'], 'op': e['op'], 'tag': e['tag'],
                       'tok': e['tok'], 'res': ''})
        elif e.get('e') == 'SRet':
            ev.append({'k': 'SRet', 'th': e['th'], 'op': '', 'tag': '', 'tok': e['tok'],
                       'res': e['res']})
    stuck_nb = [n for n, st in s.threads.items()
                if n in scripts and not st.finished and innb.get(n)]
    errs = [(n, repr(e), tb[-800:]) for n, e, tb in s.thread_errors]
    return ev, s.failure, s.failure_info, stuck_nb, errs, scripts


def validate(traces, cap, threads, tags):
    d = tempfile.mkdtemp(prefix='verif-c12t-')
    try:
        path = os.path.join(d, 'traces.ndjson')
        with open(path, 'w') as f:
            for t in traces:
                f.write(json.dumps(t) + '\n')
        r = tlc.run_tlc('Semaphores_Trace', CFG % dict(
            cap=cap, tags=q(tags + ['zz']), threads=q(threads)), workers=1,
            env={'TRACE_FILE': path}, timeout=3000, dfs_queue=True)
        reached = {}
        for p in r.json_prints('SEMTRACE '):
            j = json.loads(p)
            reached[j['id']] = (j['reached'], j['len'])
        return reached, r
    finally:
        shutil.rmtree(d, ignore_errors=True)


def run(ck, tier, seed):
    thorough = tier == 'thorough'
    rng = random.Random(seed * 977 + 12)
    total = 0
    for cap, nth, tags in ((1, 2, ['a']), (2, 3, ['a', 'b']), (1, 3, ['a', 'b']),
                           (3, 4, ['a', 'b'])):
        traces, meta = [], {}
        n = 250 if thorough else 70
        for i in range(n):
            sd = rng.randrange(1 << 30)
            chs = ('random', rng.randrange(1 << 30), rng.choice([0.3, 0.5, 0.7])) \
                if rng.random() < 0.6 else ('pct', rng.randrange(1 << 30), 3, 60)
            import pipeline
            ev, failure, info, stuck_nb, errs, scripts = record_one(
                cap, nth, tags, sd, pipeline.make_chooser(chs))
            if errs:
                ck.machinery_errors.append('c12 trace thread error: ' + str(errs[0])[-600:])
                continue
            rep = {'component': 'SlidingWindowSemaphore', 'mode': 'free-interleaving',
                   'cap': cap, 'threads': nth, 'detail': f'{failure}: {info}',
                   'events_tail': ev[-8:]}
            rp = {'kind': 'c12-trace', 'cap': cap, 'nthreads': nth, 'tags': tags,
                  'seed': sd, 'chooser': list(chs)}
            if failure:
                ck.violation('C12_NonBlockingRaisesAtZero' if stuck_nb
                             else 'C12_NoAcquirerBlockedForever', rep, replay=rp)
                continue
            ck.distinct(['semtrace', cap, ev])
            traces.append({'id': i, 'ev': ev})
            meta[i] = rp
        if not traces:
            continue
        threads = [f't{i}' for i in range(nth)]
        reached, r = validate(traces, cap, threads, tags)
        ck.add_tlc(f'Semaphores_Trace cap={cap} threads={nth} x{len(traces)}', r,
                   exhaustive=False)
        total += len(traces)
        if r.violated:
            ck.violation(r.violated[0], {
                'component': 'SlidingWindowSemaphore', 'mode': 'free-interleaving',
                'cap': cap, 'cex_tail': getattr(r, 'cex_full', r.cex)[-1500:]})
            continue
        for t in traces:
            rc = reached.get(t['id'])
            if rc is None:
                ck.machinery_errors.append('c12 trace without verdict')
                break
            if rc[0] <= rc[1]:
                at = t['ev'][rc[0] - 1]
                ck.violation('C12_TraceConformance', {
                    'component': 'SlidingWindowSemaphore', 'mode': 'free-interleaving',
                    'cap': cap, 'detail': f'event {rc[0]} of {rc[1]} has no linearization: {at}',
                    'before': t['ev'][max(0, rc[0] - 6):rc[0]]}, replay=meta[t['id']])
        if traces:
            ck.sample({'kind': 'semaphore trace (free interleaving)', 'cap': cap,
                       'events_head': traces[0]['ev'][:10]}, limit=2)
    ck.coverage['traces_validated_against_impl'] += total
    ck.coverage['evaluations'] += total
    return total
