"""Legacy front-end (s3transfer.S3Transfer.upload_file / download_file) facets
of C01, C02, C05, C06, C14: free-running executions recorded by
harness/legacy.py and validated by TLC (ObsTrace / Props clauses)."""

import copy
import random

import pipeline

CLAUSES = {
    'C01': ('C01_', 'C14_MultipartIffGeThreshold'),
    'C02': ('C02_', 'C14_DownloadRangesTile'),
    'C03': ('C03_',),
    'C05': ('C05_',),
    'C06': ('C06_',),
}


def _run(job):
    import legacy
    sc, seed, jid = job
    try:
        res = legacy.run(sc, seed)
        tr = legacy.to_trace(res, sc, jid)
    except Exception:
        import traceback
        return {'jid': jid, 'error': traceback.format_exc()[-1500:]}
    return {'jid': jid, 'trace': tr, 'results': res['results'],
            'failure': res['failure'], 'final': res['final']}


def _work(jobs):
    return [_run(j) for j in jobs]


def probe_calls(sc):
    import legacy
    r = legacy.run(sc, 0)
    return sum(1 for e in r['events'] if e.get('e') == 'S3Begin')


def scenarios(pid, tier, rng):
    T = tier == 'thorough'
    k = 3 if T else 1
    out = []

    def add(sc, n):
        for _ in range(n):
            out.append((copy.deepcopy(sc), rng.randrange(1 << 30)))
    ups = [{'transfer': {'kind': 'upload', 'size': s}} for s in (0, 1, 3, 4, 5, 6, 7)]
    dls = [{'transfer': {'kind': 'download', 'size': s, 'old': s % 2 == 1}}
           for s in (1, 3, 4, 5, 6, 7)]
    if pid == 'C01':
        for sc in ups:
            add(sc, 4 * k)
            for conc in (1, 3):
                add(dict(sc, cfg={'concurrency': conc}), 2 * k)
    if pid == 'C02':
        for sc in dls:
            add(sc, 4 * k)
            size = sc['transfer']['size']
            starts = list(range(0, size, 2)) if size >= 4 else [0]
            for rs in starts:
                for kind in ('timeout', 'protocol', 'incomplete', 'socket'):
                    for after in (0, 1, 2):
                        s2 = dict(sc, streams=[{'range_start': rs, 'attempt': 1,
                                                'fault_after': after, 'fault': kind,
                                                'reads': [1] if after else []}])
                        add(s2, 1 * k)
                s2 = dict(sc, streams=[
                    {'range_start': rs, 'attempt': 1, 'fault_after': 1, 'fault': 'timeout', 'reads': [1]},
                    {'range_start': rs, 'attempt': 2, 'fault_after': 2, 'fault': 'protocol'}])
                add(s2, 1 * k)
            add(dict(sc, streams=[{'reads': [1, 2, 1]}]), 2 * k)
    if pid == 'C05':
        for sc in ups:
            if sc['transfer']['size'] < 4:
                continue
            n = probe_calls(sc)
            for seq in range(1, n + 1):
                for after in (False, True):
                    add(dict(sc, faults=[{'on': 's3', 'seq': seq, 'after': after}]), 2 * k)
                    # a connection-level failure (possibly after the service applied the call)
                    for kind in ('conn', 'readtimeout'):
                        add(dict(sc, faults=[{'on': 's3', 'seq': seq, 'after': after,
                                              'kind': kind}]), 1 * k)
            add(sc, 2 * k)
    if pid == 'C03':
        for sc in ups:
            if sc['transfer']['size'] < 4:
                continue
            n = probe_calls(sc)
            for seq in range(1, n + 1):
                add(dict(sc, faults=[{'on': 's3', 'seq': seq}]), 1 * k)
    if pid in ('C06', 'C03'):
        for sc in dls:
            add(sc, 3 * k)
            n = probe_calls(sc)
            for seq in range(1, n + 1):
                add(dict(sc, faults=[{'on': 's3', 'seq': seq}]), 2 * k)
            for on, upto in (('fs_open', 1), ('fs_write', 4), ('fs_rename', 1)):
                for nth in range(1, upto + 1):
                    add(dict(sc, faults=[{'on': on, 'nth': nth}]), 2 * k)
                    # the writer lags behind the download threads
                    add(dict(sc, faults=[{'on': on, 'nth': nth}],
                             slow={'fs-write': 0.004}), 2 * k)
            add(dict(sc, streams=[{'attempt': 1, 'fault_after': 1, 'fault': 'fatal'}]), 2 * k)
            add(dict(sc, streams=[{'fault_after': 1, 'fault': 'timeout'}]), 1 * k)
    return out


def run_e2e(ck, pid, tier, seed):
    rng = random.Random(seed * 7 + 99)
    jobs = scenarios(pid, tier, rng)
    if not jobs:
        return
    jl = [(sc, sd, i) for i, (sc, sd) in enumerate(jobs)]
    chunks = [jl[i:i + 10] for i in range(0, len(jl), 10)]
    runs = []
    for part in pipeline.pool().imap(_work, chunks):
        runs.extend(part)
    errs = [r for r in runs if 'error' in r]
    if errs:
        ck.machinery_errors.append('legacy run failed: ' + errs[0]['error'][-600:])
    good = [r for r in runs if 'trace' in r]
    verdicts, tlcs = pipeline.validate_runs(good)
    for r in tlcs:
        ck.add_tlc('ObsTrace[legacy S3Transfer]', r, exhaustive=False)
    ck.coverage['traces_validated_against_impl'] += len(good)
    ck.coverage['evaluations'] += len(good)
    ck.coverage.setdefault('families', {})['legacy-S3Transfer'] = len(good)
    for r in good:
        ck.distinct(['legacy', r['trace']['ev']])
        sc = jobs[r['jid']][0]
        if r['failure']:
            ck.violation('C04_NoDeadlock', {'front_end': 'legacy', 'scenario': sc})
        v = verdicts.get(r['jid'], {})
        for c, idx in v.items():
            if not c.startswith(CLAUSES[pid]):
                continue
            ev = r['trace']['ev']
            at = ev[idx - 1] if 0 < idx <= len(ev) else None
            ck.violation(c, {
                'front_end': 'legacy', 'family': 'legacy-S3Transfer',
                'mode': 'legacy-' + sc['transfer']['kind'] + (
                    '-mp' if sc['transfer']['size'] >= 4 else '-1'),
                'at_event': at, 'faults': sc.get('faults'),
                'streams': sc.get('streams'), 'results': r['results'],
                'fault_op': _fault_op(ev, sc),
                'raised': ((r['results'].get(0) or r['results'].get('0') or (None, None))[1]),
                'fault_on': (sc.get('faults') or [{}])[0].get('on') if len(sc.get('faults') or []) == 1 else None,
            }, replay={'kind': 'legacy', 'scenario': sc, 'seed': jobs[r['jid']][1],
                       'clause': c})
    if good:
        ck.sample({'kind': 'legacy trace', 'scenario': jobs[good[0]['jid']][0],
                   'events_head': good[0]['trace']['ev'][:8]}, limit=8)


def _fault_op(ev, sc):
    for f in sc.get('faults') or []:
        if f.get('on') == 's3' and 'seq' in f:
            for e in ev:
                if e['e'] == 'S3Begin' and e['seq'] == f['seq']:
                    return e['op'] + (':after' if f.get('after') else '')
    return None


def replay(rp):
    import legacy
    import monitor
    res = legacy.run(rp['scenario'], rp['seed'])
    tr = legacy.to_trace(res, rp['scenario'], 0)
    v, r = monitor.validate([tr])
    print('results', res['results'], 'verdict', v.get(0))
    for i, e in enumerate(tr['ev'], 1):
        print(i, e)
    return 1
