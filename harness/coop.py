"""Deterministic cooperative runtime.

Real Python threads, but exactly one *controlled* thread runs at a time and
control changes hands only at scheduling points.  The substitutes for
``threading`` primitives, the executor and the clock defined here are
installed into the s3transfer modules by :func:`installed` for the duration of
one run.

A run is fully determined by (scenario, chooser); the chooser is either a
seeded random/PCT strategy or an explicit choice list (replay).
"""

import collections
import contextlib
import itertools
import random
import sys
import threading as _rt  # the real threading module
import traceback

MAXWAIT = 60.0  # real seconds a handed-over thread may take before we give up


class Abort(BaseException):
    """Raised inside controlled threads to unwind them when a run is torn down."""


class DeadlockError(Exception):
    pass


class StepBudgetExceeded(Exception):
    pass


class MachineryError(Exception):
    pass


class _TState:
    __slots__ = (
        'name', 'thread', 'go', 'enabled', 'blocked_on', 'finished', 'started',
        'wake_at', 'interrupt', 'prio', 'exc', 'steps', 'gate_step', 'daemonic',
        'idle_ok', 'noint',
    )

    def __init__(self, name):
        self.name = name
        self.thread = None
        self.go = _rt.Semaphore(0)
        self.enabled = None      # None = runnable, else callable -> bool
        self.blocked_on = None   # description (for Blocked events)
        self.finished = False
        self.started = False
        self.wake_at = None      # virtual time for sleepers
        self.interrupt = None    # exception instance to raise at next wait
        self.prio = 0
        self.exc = None
        self.steps = 0
        self.gate_step = None    # not schedulable before this global step
        self.daemonic = False    # does not count for termination/deadlock
        self.idle_ok = False     # blocked in a state that is fine to end in
        self.noint = False       # inside a wait that an interrupt cannot end


class Chooser:
    """Base strategy: pick one of the enabled thread names."""

    def choose(self, sched, names, current):
        raise NotImplementedError

    def describe(self):
        return {}


class RandomChooser(Chooser):
    """Uniform random walk with a bias towards staying on the current thread."""

    def __init__(self, seed, stay=0.5):
        self.rng = random.Random(seed)
        self.seed = seed
        self.stay = stay

    def choose(self, sched, names, current):
        if current in names and self.rng.random() < self.stay:
            return current
        return names[self.rng.randrange(len(names))]

    def describe(self):
        return {'strategy': 'random', 'seed': self.seed, 'stay': self.stay}


class PCTChooser(Chooser):
    """PCT-style: random fixed priorities, d-1 priority change points."""

    def __init__(self, seed, depth=3, horizon=400):
        self.rng = random.Random(seed)
        self.seed = seed
        self.depth = depth
        self.prio = {}
        self.change = sorted(
            self.rng.randrange(1, horizon) for _ in range(max(depth - 1, 0))
        )
        self.low = 0

    def choose(self, sched, names, current):
        for n in names:
            if n not in self.prio:
                self.prio[n] = self.rng.random() + 1.0
        while self.change and sched.step >= self.change[0]:
            self.change.pop(0)
            if current in self.prio:
                self.low -= 1
                self.prio[current] = self.low
        return max(names, key=lambda n: self.prio[n])

    def describe(self):
        return {'strategy': 'pct', 'seed': self.seed, 'depth': self.depth}


class FifoChooser(Chooser):
    """Run the current thread as long as possible, then the oldest enabled."""

    def choose(self, sched, names, current):
        if current in names:
            return current
        return names[0]

    def describe(self):
        return {'strategy': 'fifo'}


class LifoChooser(Chooser):
    """Eager workers: always run the most recently started enabled thread (a
    worker that has just been handed a task runs before its submitter goes
    on), each until it blocks."""

    def choose(self, sched, names, current):
        return names[-1]

    def describe(self):
        return {'strategy': 'lifo'}


class RoundRobinChooser(Chooser):
    """Maximal interleaving: switch to the next enabled thread at every
    scheduling point."""

    def choose(self, sched, names, current):
        if current in names:
            return names[(names.index(current) + 1) % len(names)]
        return names[0]

    def describe(self):
        return {'strategy': 'rr'}


class ReplayChooser(Chooser):
    """Replays an explicit list of choices, then falls back."""

    def __init__(self, choices, fallback=None):
        self.choices = list(choices)
        self.i = 0
        self.fallback = fallback or FifoChooser()

    def choose(self, sched, names, current):
        if self.i < len(self.choices):
            c = self.choices[self.i]
            self.i += 1
            if c in names:
                return c
        return self.fallback.choose(sched, names, current)

    def describe(self):
        return {'strategy': 'replay', 'n': len(self.choices)}


class DFSChooser(Chooser):
    """Systematic exploration with a preemption bound.

    ``prefix`` is a list of indices into the *ordered alternatives* at each
    branching point; after the prefix the default (no preemption) is taken.
    The explorer reads ``self.log`` (list of (n_alternatives, taken)) to
    enumerate siblings.
    """

    def __init__(self, prefix=(), preemption_bound=1):
        self.prefix = list(prefix)
        self.i = 0
        self.bound = preemption_bound
        self.preemptions = 0
        self.log = []

    def choose(self, sched, names, current):
        # alternatives: current first (no preemption) if enabled
        if current in names:
            alts = [current] + [n for n in names if n != current]
            if self.preemptions >= self.bound:
                alts = [current]
        else:
            alts = list(names)
        if len(alts) == 1:
            return alts[0]
        if self.i < len(self.prefix):
            k = self.prefix[self.i]
        else:
            k = 0
        k = min(k, len(alts) - 1)
        self.i += 1
        self.log.append((len(alts), k))
        if current in names and alts[k] != current:
            self.preemptions += 1
        return alts[k]

    def describe(self):
        return {'strategy': 'dfs', 'prefix': self.prefix, 'bound': self.bound}


class Scheduler:
    def __init__(self, chooser, tracer=None, max_steps=20000):
        self.chooser = chooser
        self.tracer = tracer
        self.max_steps = max_steps
        self.step = 0
        self.now = 0.0            # virtual clock
        self.threads = collections.OrderedDict()
        self.current = None
        self.aborting = False
        self.failure = None       # 'deadlock' | 'budget' | None
        self.failure_info = None
        self.choices = []
        self._names = itertools.count()
        self._mutex = _rt.Lock()
        self._done = _rt.Semaphore(0)
        self.point_hooks = []     # callables(sched, kind) run at every point
        self.late_wakeup = None   # callable(sched) -> extra delay for sleepers
        self.thread_errors = []
        self._by_ident = {}
        self.release_hooks = {}   # thread name -> [callables] run at its next lock release

    # -- tracing ----------------------------------------------------------
    def emit(self, e, **kw):
        if self.tracer is not None and not self.aborting:
            kw['e'] = e
            kw['th'] = self.current
            kw['t'] = self.step
            if self.now:
                kw['vt'] = self.now      # virtual time, once it has advanced
            self.tracer(kw)

    # -- thread management ------------------------------------------------
    def _new_state(self, name):
        if name in self.threads:
            name = f'{name}#{next(self._names)}'
        st = _TState(name)
        self.threads[name] = st
        return st

    def spawn(self, name, fn, *args, gate_step=None, daemonic=False, **kwargs):
        """Create a controlled thread; it becomes schedulable immediately."""
        st = self._new_state(name)
        st.gate_step = gate_step
        st.daemonic = daemonic

        def body():
            self._by_ident[_rt.get_ident()] = st
            st.go.acquire()
            st.started = True
            try:
                if self.aborting:
                    raise Abort()
                fn(*args, **kwargs)
            except Abort:
                pass
            except BaseException as e:  # noqa
                st.exc = e
                if not self.aborting:
                    self.thread_errors.append(
                        (st.name, e, traceback.format_exc())
                    )
            finally:
                st.finished = True
                self._thread_exit(st)

        th = _rt.Thread(target=body, name=f'coop-{name}', daemon=True)
        st.thread = th
        th.start()
        return st

    def _thread_exit(self, st):
        # hand control to somebody else; never returns control to st
        if self.aborting:
            self._done.release()
            return
        try:
            self._switch(st, exiting=True)
        except Abort:
            pass

    # -- core -------------------------------------------------------------
    def _enabled_names(self):
        out = []
        for n, st in self.threads.items():
            if st.finished:
                continue
            if st.gate_step is not None and self.step < st.gate_step:
                continue
            if st.enabled is not None:
                # an interrupt posted to a thread inside a non-interruptible wait
                # (a thread join, a lock) stays pending until its next interruptible wait
                if st.interrupt is not None and not st.noint:
                    out.append(n)
                    continue
                if not st.enabled():
                    continue
            out.append(n)
        return out

    def _advance_clock(self):
        """Nothing is enabled: advance virtual time to the next timed waiter,
        or the step counter to the next gated thread."""
        sleepers = [
            st for st in self.threads.values()
            if not st.finished and st.wake_at is not None
            and st.wake_at > self.now
        ]
        if sleepers:
            self.now = min(st.wake_at for st in sleepers)
            return True
        gated = [
            st for st in self.threads.values()
            if not st.finished and st.gate_step is not None
            and self.step < st.gate_step
        ]
        if gated:
            self.step = min(st.gate_step for st in gated)
            return True
        return False

    def _switch(self, me, exiting=False):
        """Pick the next thread and transfer control. Called by ``me``."""
        if self.aborting:
            if exiting:
                self._done.release()
                return
            raise Abort()
        self.step += 1
        if me is not None:
            me.steps += 1
        if self.step > self.max_steps:
            self._fail('budget', {'steps': self.step})
            if exiting:
                return
            raise Abort()
        for h in self.point_hooks:
            h(self)
        names = self._enabled_names()
        while not names:
            if not self._advance_clock():
                break
            names = self._enabled_names()
        if not names:
            live = [
                st for st in self.threads.values()
                if not st.finished and not st.daemonic and not st.idle_ok
            ]
            if not live:
                # everything finished (daemonic threads are abandoned)
                self.aborting = True
                self._wake_all_for_abort(except_=me)
                self._done.release()
                if exiting:
                    return
                raise Abort()
            self._fail('deadlock', {
                'blocked': {
                    st.name: st.blocked_on for st in self.threads.values()
                    if not st.finished
                }
            })
            if exiting:
                return
            raise Abort()
        cur = me.name if (me is not None and not exiting) else None
        if len(names) == 1:
            nxt = names[0]
        else:
            nxt = self.chooser.choose(self, names, cur)
            if nxt not in names:
                nxt = names[0]
        self.choices.append(nxt)
        if not exiting and me is not None and nxt == me.name:
            self.current = nxt
            return
        self.current = nxt
        self.threads[nxt].go.release()
        if exiting or me is None:
            return
        me.go.acquire()
        if self.aborting:
            raise Abort()

    def _wake_all_for_abort(self, except_=None):
        for st in self.threads.values():
            if st is except_ or st.finished:
                continue
            st.go.release()

    def _fail(self, kind, info):
        if self.failure is None:
            self.failure = kind
            self.failure_info = info
            self.emit('Deadlock' if kind == 'deadlock' else 'StepBudget', **{
                'info': _jsonable(info)})
        self.aborting = True
        self._wake_all_for_abort(except_=self.me())
        self._done.release()

    def me(self):
        return self._by_ident.get(_rt.get_ident())

    # -- API used by the primitives --------------------------------------
    def point(self, kind='', **info):
        """A scheduling point for the calling (controlled) thread."""
        me = self.me()
        if me is None:
            return  # uncontrolled thread (e.g. interpreter shutdown)
        self._switch(me)

    def block(self, enabled, on, interruptible=False, idle_ok=False):
        """Block the caller until ``enabled()`` is true."""
        me = self.me()
        if me is None:
            raise MachineryError(f'uncontrolled thread blocks on {on}')
        if interruptible and me.interrupt is not None:
            exc, me.interrupt = me.interrupt, None
            raise exc
        if enabled():
            self._switch(me)
            if interruptible and me.interrupt is not None:
                exc, me.interrupt = me.interrupt, None
                raise exc
            if enabled():
                return
        me.enabled = enabled
        me.blocked_on = on
        me.idle_ok = idle_ok
        me.noint = not interruptible
        saved = None
        if not interruptible:
            saved, me.interrupt = me.interrupt, None
        self.emit('Blocked', on=on)
        try:
            while True:
                self._switch(me)
                if interruptible and me.interrupt is not None:
                    exc, me.interrupt = me.interrupt, None
                    raise exc
                if enabled():
                    return
        finally:
            me.enabled = None
            me.blocked_on = None
            me.idle_ok = False
            me.noint = False
            if not interruptible and saved is not None and me.interrupt is None:
                me.interrupt = saved

    def sleep(self, duration):
        me = self.me()
        extra = self.late_wakeup(self) if self.late_wakeup else 0.0
        t = self.now + max(duration, 0.0) + extra
        me.wake_at = t
        try:
            self.block(lambda: self.now >= t, 'sleep')
        finally:
            me.wake_at = None

    def wait_until_step(self, g):
        me = self.me()
        me.gate_step = g
        try:
            self._switch(me)
        finally:
            me.gate_step = None

    def on_next_release(self, fn):
        """Run ``fn`` when the calling thread next releases a lock - i.e.
        still inside the critical section's atomic block, before any other
        thread can observe the change (linearization-point logging)."""
        me = self.me()
        self.release_hooks.setdefault(me.name if me else None, []).append(fn)
        return fn

    def run_release_hooks(self, only=None):
        me = self.me()
        key = me.name if me else None
        hooks = self.release_hooks.get(key)
        if not hooks:
            return False
        if only is not None:
            if only in hooks:
                hooks.remove(only)
                only()
                return True
            return False
        self.release_hooks[key] = []
        for h in hooks:
            h()
        return True

    def interrupt(self, name, exc):
        """Deliver an exception (e.g. KeyboardInterrupt) to a thread at its
        next interruptible wait."""
        self.threads[name].interrupt = exc

    # -- running ----------------------------------------------------------
    def run(self, main, name='user'):
        """Run ``main`` as the first controlled thread until quiescence."""
        self.spawn(name, main)
        self.current = name
        self.step += 1
        self.threads[name].go.release()
        if not self._done.acquire(timeout=MAXWAIT * 5):
            self.aborting = True
            self._wake_all_for_abort()
            raise MachineryError(
                'run did not finish in real time; current=%s step=%s'
                % (self.current, self.step)
            )
        # give threads a moment to unwind
        for st in list(self.threads.values()):
            if st.thread is not None:
                st.thread.join(timeout=2.0)
        return self


def _jsonable(x):
    if isinstance(x, dict):
        return {str(k): _jsonable(v) for k, v in x.items()}
    if isinstance(x, (list, tuple, set)):
        return [_jsonable(v) for v in x]
    if isinstance(x, (int, float, str, bool)) or x is None:
        return x
    return repr(x)


# ---------------------------------------------------------------------------
# threading substitutes
# ---------------------------------------------------------------------------

_SCHED = None  # the scheduler of the run in progress (one per process)


def sched():
    return _SCHED


class Lock:
    _ids = itertools.count()

    def __init__(self, label=None):
        self._owner = None
        self.label = label or f'lock{next(Lock._ids)}'

    def acquire(self, blocking=True, timeout=-1):
        s = _SCHED
        me = s.me()
        if not blocking:
            s.point('lock-try')
            if self._owner is not None:
                return False
            self._owner = me
            return True
        s.block(lambda: self._owner is None, f'lock:{self.label}')
        self._owner = me
        return True

    def release(self):
        if self._owner is None:
            if _SCHED is None or _SCHED.aborting:
                return  # unwinding a torn-down run
            raise RuntimeError('release unlocked lock')
        self._owner = None
        _SCHED.run_release_hooks()
        # a switch right after a release matters when the code touches
        # shared state after leaving its critical section
        _SCHED.point('lock-release')

    def locked(self):
        return self._owner is not None

    def __enter__(self):
        self.acquire()
        return True

    def __exit__(self, *a):
        self.release()

    def _is_owned(self):
        return self._owner is not None and self._owner is _SCHED.me()


class RLock:
    def __init__(self, label=None):
        self._owner = None
        self._count = 0
        self.label = label or f'rlock{next(Lock._ids)}'

    def acquire(self, blocking=True, timeout=-1):
        s = _SCHED
        me = s.me()
        if self._owner is me:
            self._count += 1
            return True
        if not blocking:
            s.point('rlock-try')
            if self._owner is not None:
                return False
        else:
            s.block(lambda: self._owner is None, f'rlock:{self.label}')
        self._owner = me
        self._count = 1
        return True

    def release(self):
        if self._owner is not _SCHED.me():
            if _SCHED.aborting:
                return
            raise RuntimeError('cannot release un-acquired lock')
        self._count -= 1
        if self._count == 0:
            self._owner = None

    __enter__ = acquire

    def __exit__(self, *a):
        self.release()

    def _is_owned(self):
        return self._owner is _SCHED.me()

    def _release_save(self):
        c, o = self._count, self._owner
        self._count, self._owner = 0, None
        return c, o

    def _acquire_restore(self, saved):
        s = _SCHED
        s.block(lambda: self._owner is None, f'rlock:{self.label}')
        self._count, self._owner = saved


class Condition:
    def __init__(self, lock=None):
        if lock is None:
            lock = RLock()
        self._lock = lock
        self._waiters = collections.deque()
        self.acquire = lock.acquire
        self.release = lock.release

    def __enter__(self):
        return self._lock.__enter__()

    def __exit__(self, *a):
        return self._lock.__exit__(*a)

    def wait(self, timeout=None):
        s = _SCHED
        if not self._lock._is_owned():
            raise RuntimeError('cannot wait on un-acquired lock')
        token = [False]
        self._waiters.append(token)
        if isinstance(self._lock, RLock):
            saved = self._lock._release_save()
        else:
            self._lock.release()
            saved = None
        try:
            if timeout is not None and timeout < 1e6:
                # timed wait: may return without notification
                me = s.me()
                me.wake_at = s.now + timeout
                try:
                    s.block(lambda: token[0] or s.now >= me.wake_at, 'cond')
                finally:
                    me.wake_at = None
            else:
                s.block(lambda: token[0], 'cond')
        finally:
            if token in self._waiters:
                self._waiters.remove(token)
            if saved is not None:
                self._lock._acquire_restore(saved)
            else:
                self._lock.acquire()
        return token[0]

    def wait_for(self, predicate, timeout=None):
        result = predicate()
        while not result:
            self.wait(timeout)
            result = predicate()
        return result

    def notify(self, n=1):
        if not self._lock._is_owned():
            raise RuntimeError('cannot notify on un-acquired lock')
        for _ in range(n):
            if not self._waiters:
                break
            self._waiters.popleft()[0] = True

    def notify_all(self):
        self.notify(len(self._waiters))

    notifyAll = notify_all


class Event:
    def __init__(self):
        self._flag = False

    def is_set(self):
        return self._flag

    isSet = is_set

    def set(self):
        self._flag = True
        if _SCHED is not None:
            _SCHED.point('event-set')

    def clear(self):
        self._flag = False

    def wait(self, timeout=None):
        s = _SCHED
        if timeout is not None and timeout < 1e6:
            me = s.me()
            me.wake_at = s.now + timeout
            try:
                s.block(lambda: self._flag or s.now >= me.wake_at, 'event',
                        interruptible=True)
            finally:
                me.wake_at = None
            return self._flag
        s.block(lambda: self._flag, 'event', interruptible=True)
        return True


class Semaphore:
    def __init__(self, value=1):
        if value < 0:
            raise ValueError('semaphore initial value must be >= 0')
        self._value = value

    def acquire(self, blocking=True, timeout=None):
        s = _SCHED
        if not blocking:
            s.point('sem-try')
            if self._value == 0:
                return False
            self._value -= 1
            return True
        s.block(lambda: self._value > 0, 'sem')
        self._value -= 1
        return True

    __enter__ = acquire

    def release(self, n=1):
        self._value += n
        if _SCHED is not None:
            _SCHED.point('sem-release')

    def __exit__(self, *a):
        self.release()


class BoundedSemaphore(Semaphore):
    def __init__(self, value=1):
        super().__init__(value)
        self._initial = value

    def release(self, n=1):
        if self._value + n > self._initial:
            raise ValueError('Semaphore released too many times')
        self._value += n


class _ThreadingShim:
    """Stands in for the ``threading`` module inside s3transfer modules."""

    Lock = Lock
    RLock = RLock
    Condition = Condition
    Event = Event
    Semaphore = Semaphore
    BoundedSemaphore = BoundedSemaphore

    def __getattr__(self, name):
        return getattr(_rt, name)

    @staticmethod
    def current_thread():
        class _T:
            pass
        t = _T()
        me = _SCHED.me() if _SCHED else None
        t.name = me.name if me else _rt.current_thread().name
        t.ident = id(me) if me else _rt.get_ident()
        return t


threading_shim = _ThreadingShim()


class _TimeShim:
    """Virtual clock standing in for the ``time`` module."""

    def __init__(self):
        import time as _t
        self._t = _t

    def time(self):
        return _SCHED.now

    def sleep(self, value):
        _SCHED.emit('Sleep', dur=value)
        _SCHED.sleep(value)

    def __getattr__(self, name):
        return getattr(self._t, name)


time_shim = _TimeShim()


# ---------------------------------------------------------------------------
# Executor with the ThreadPoolExecutor contract
# ---------------------------------------------------------------------------

class CoopFuture:
    def __init__(self):
        self._done = False
        self._result = None
        self._exception = None
        self._callbacks = []

    def done(self):
        return self._done

    def cancel(self):
        return False

    def cancelled(self):
        return False

    def running(self):
        return not self._done

    def result(self, timeout=None):
        _SCHED.block(lambda: self._done, 'future', interruptible=True)
        if self._exception is not None:
            raise self._exception
        return self._result

    def exception(self, timeout=None):
        _SCHED.block(lambda: self._done, 'future', interruptible=True)
        return self._exception

    def add_done_callback(self, fn):
        if not self._done:
            self._callbacks.append(fn)
            return
        self._call(fn)

    def _call(self, fn):
        try:
            fn(self)
        except Exception:
            _SCHED.emit('FutureCallbackError', err=traceback.format_exc()[-300:])

    def _finish(self, result=None, exception=None):
        self._result = result
        self._exception = exception
        self._done = True
        # waiters are enabled from here on; the callbacks run afterwards in
        # the worker, exactly as concurrent.futures does.
        _SCHED.point('future-set')
        cbs, self._callbacks = self._callbacks, []
        for fn in cbs:
            self._call(fn)


class CoopExecutor:
    """FIFO work queue, lazily spawned workers up to max_workers."""

    _ids = itertools.count()
    stage_names = None  # optional list consumed in creation order

    def __init__(self, max_workers=None):
        self._max_workers = max_workers or 1
        self._queue = collections.deque()
        self._workers = []
        self._idle = 0
        self._shutdown = False
        n = next(CoopExecutor._ids)
        if CoopExecutor.stage_names:
            self.name = CoopExecutor.stage_names.pop(0)
        else:
            self.name = f'ex{n}'
        self.submitted = 0
        self.completed = 0

    def submit(self, fn, *args, **kwargs):
        if self._shutdown:
            raise RuntimeError('cannot schedule new futures after shutdown')
        s = _SCHED
        f = CoopFuture()
        self._queue.append((f, fn, args, kwargs))
        self.submitted += 1
        s.emit('ExecSubmit', stage=self.name, task=_task_name(fn),
               qlen=len(self._queue), inflight=self.submitted - self.completed,
               xid=_task_xid(fn))
        if self._idle > 0:
            # an idle worker will pick it up
            pass
        elif len(self._workers) < self._max_workers:
            idx = len(self._workers)
            st = s.spawn(f'{self.name}-w{idx}', self._worker)
            self._workers.append(st)
        return f

    def _worker(self):
        s = _SCHED
        while True:
            self._idle += 1
            try:
                s.block(lambda: bool(self._queue) or self._shutdown,
                        f'queue:{self.name}', idle_ok=True)
            finally:
                self._idle -= 1
            if not self._queue:
                if self._shutdown:
                    return
                continue
            f, fn, args, kwargs = self._queue.popleft()
            s.emit('TaskBegin', stage=self.name, task=_task_name(fn))
            try:
                r = fn(*args, **kwargs)
            except Abort:
                raise
            except BaseException as e:  # noqa - as concurrent.futures does
                self.completed += 1
                s.emit('TaskEnd', stage=self.name, task=_task_name(fn),
                       ok=False, xid=_task_xid(fn))
                f._finish(exception=e)
            else:
                self.completed += 1
                s.emit('TaskEnd', stage=self.name, task=_task_name(fn),
                       ok=True, xid=_task_xid(fn))
                f._finish(result=r)

    def shutdown(self, wait=True, cancel_futures=False):
        s = _SCHED
        self._shutdown = True
        s.emit('ExecShutdown', stage=self.name)
        if wait:
            for st in list(self._workers):
                s.block(lambda st=st: st.finished, f'join:{st.name}')


def _task_xid(fn):
    x = getattr(fn, 'transfer_id', None)
    return x if isinstance(x, int) else -1


def _task_name(fn):
    return type(fn).__name__ if not hasattr(fn, '__name__') else fn.__name__


# ---------------------------------------------------------------------------
# installation
# ---------------------------------------------------------------------------

PATCH_THREADING = (
    's3transfer.futures', 's3transfer.utils', 's3transfer.download',
    's3transfer.manager', 's3transfer.bandwidth',
)


@contextlib.contextmanager
def installed(scheduler, threading_modules=PATCH_THREADING, time_modules=(
        's3transfer.bandwidth',), extra=()):
    """Install the substitutes for one run."""
    global _SCHED
    import importlib
    if _SCHED is not None:
        raise MachineryError('nested coop run')
    saved = []
    try:
        _SCHED = scheduler
        CoopExecutor._ids = itertools.count()
        Lock._ids = itertools.count()
        for mn in threading_modules:
            m = importlib.import_module(mn)
            if hasattr(m, 'threading'):
                saved.append((m, 'threading', m.threading))
                m.threading = threading_shim
        for mn in time_modules:
            m = importlib.import_module(mn)
            if hasattr(m, 'time'):
                saved.append((m, 'time', m.time))
                m.time = time_shim
        for (obj, attr, val) in extra:
            saved.append((obj, attr, getattr(obj, attr)))
            setattr(obj, attr, val)
        yield scheduler
    finally:
        for obj, attr, val in reversed(saved):
            setattr(obj, attr, val)
        _SCHED = None
