----------------------------- MODULE DeferQueue -----------------------------
(***************************************************************************)
(* s3transfer.download.DeferQueue driven by every delivery history the     *)
(* download loop can produce (property C16):                               *)
(*   - the object 0..Size-1 is split into parts of PartSize bytes;         *)
(*   - an attempt of a part delivers consecutive chunks starting at the    *)
(*     part's first byte; chunk lengths are arbitrary (1..MaxLen): short   *)
(*     reads; an attempt may stop anywhere (Retry) and the next attempt    *)
(*     starts again at the part's first byte, possibly cut differently;    *)
(*   - attempts of different parts interleave arbitrarily.                 *)
(* Bytes are abstracted to positions: a chunk is (off, len).               *)
(*                                                                         *)
(* request_writes(offset, data) is one atomic action (the caller holds     *)
(* _io_submit_lock).  Variant = "orig" is the code as found (a chunk whose *)
(* offset is below next_offset, or equal to a queued offset, is dropped    *)
(* *entirely*: defect D4); Variant = "trim" is the repaired queue (the     *)
(* already-written prefix of a chunk is trimmed, the rest is kept).        *)
(***************************************************************************)
EXTENDS Naturals, Integers, Sequences, FiniteSets, TLC

CONSTANTS Size, PartSize, MaxLen, MaxAttempts, Variant

VARIABLES nextOffset,  \* DeferQueue._next_offset
          queued,      \* set of <<off, len>> waiting in the heap
          written,     \* sequence of <<off, len>> writes released so far
          cursor,      \* [part -> next position the current attempt delivers]
          attempt,     \* [part -> number of the current attempt, 0 = not begun]
          complete,    \* [part -> some attempt delivered the part to its end]
          last         \* last request and what it returned

vars == <<nextOffset, queued, written, cursor, attempt, complete, last>>

NParts == IF Size = 0 THEN 1 ELSE (Size + PartSize - 1) \div PartSize
Parts == 0..(NParts - 1)
Start(p) == p * PartSize
End(p) == IF (p + 1) * PartSize < Size THEN (p + 1) * PartSize ELSE Size

Init ==
    /\ nextOffset = 0 /\ queued = {} /\ written = <<>>
    /\ cursor = [p \in Parts |-> Start(p)]
    /\ attempt = [p \in Parts |-> 0]
    /\ complete = [p \in Parts |-> FALSE]
    /\ last = [off |-> -1, len |-> 0, part |-> -1, out |-> <<>>]

\* ------------------------------------------------------------ the queue
Min(S) == CHOOSE x \in S : \A y \in S : x <= y
Offs(q) == {c[1] : c \in q}

\* pop chunks while the lowest offset equals next (original code)
RECURSIVE PopOrig(_, _, _)
PopOrig(q, nxt, out) ==
    IF q # {} /\ Min(Offs(q)) = nxt
    THEN LET c == CHOOSE c \in q : c[1] = nxt IN
         PopOrig(q \ {c}, nxt + c[2], Append(out, c))
    ELSE [q |-> q, nxt |-> nxt, out |-> out]

ReqOrig(q, nxt, off, len) ==
    IF off < nxt THEN [q |-> q, nxt |-> nxt, out |-> <<>>]
    ELSE IF off \in Offs(q) THEN [q |-> q, nxt |-> nxt, out |-> <<>>]
    ELSE PopOrig(q \cup {<<off, len>>}, nxt, <<>>)

\* repaired queue: keep the longest chunk per offset, trim at pop time
RECURSIVE PopTrim(_, _, _)
PopTrim(q, nxt, out) ==
    IF q # {} /\ Min(Offs(q)) <= nxt
    THEN LET o == Min(Offs(q))
             c == CHOOSE c \in q : c[1] = o
             skip == nxt - o IN
         IF skip >= c[2] /\ ~(skip = 0 /\ c[2] = 0)
         THEN PopTrim(q \ {c}, nxt, out)                \* nothing new in it
         ELSE PopTrim(q \ {c}, nxt + (c[2] - skip),
                      Append(out, <<nxt, c[2] - skip>>))
    ELSE [q |-> q, nxt |-> nxt, out |-> out]

ReqTrim(q, nxt, off, len) ==
    IF off < nxt /\ off + len <= nxt THEN [q |-> q, nxt |-> nxt, out |-> <<>>]
    ELSE IF \E c \in q : c[1] = off /\ c[2] >= len
    THEN [q |-> q, nxt |-> nxt, out |-> <<>>]
    ELSE PopTrim({c \in q : c[1] # off} \cup {<<off, len>>}, nxt, <<>>)

Req(q, nxt, off, len) ==
    IF Variant = "orig" THEN ReqOrig(q, nxt, off, len) ELSE ReqTrim(q, nxt, off, len)

\* ------------------------------------------------------------ the environment
Deliver(p, len) ==
    /\ attempt[p] >= 1
    /\ cursor[p] + len <= End(p)
    /\ len >= 1 \/ (Size = 0 /\ len = 0 /\ ~complete[p])
    /\ LET r == Req(queued, nextOffset, cursor[p], len) IN
       /\ queued' = r.q
       /\ nextOffset' = r.nxt
       /\ written' = written \o r.out
       /\ last' = [off |-> cursor[p], len |-> len, part |-> p, out |-> r.out]
    /\ cursor' = [cursor EXCEPT ![p] = @ + len]
    /\ complete' = [complete EXCEPT ![p] = @ \/ (cursor[p] + len = End(p))]
    /\ UNCHANGED attempt

\* a new attempt of part p starts at the part's first byte
Begin(p) ==
    /\ attempt[p] < MaxAttempts
    /\ attempt' = [attempt EXCEPT ![p] = @ + 1]
    /\ cursor' = [cursor EXCEPT ![p] = Start(p)]
    /\ UNCHANGED <<nextOffset, queued, written, complete, last>>

Next ==
    \/ \E p \in Parts : Begin(p)
    \/ \E p \in Parts, len \in 0..MaxLen : Deliver(p, len)

Spec == Init /\ [][Next]_vars

\* ------------------------------------------------------------ properties
RECURSIVE SumLen(_)
SumLen(s) == IF s = <<>> THEN 0 ELSE Head(s)[2] + SumLen(Tail(s))

\* writes are issued in strictly increasing offset order, contiguous from 0:
\* every position is written exactly once
C16_WrittenIsPrefixInOrder ==
    \A i \in 1..Len(written) : written[i][1] = SumLen(SubSeq(written, 1, i - 1))

C16_NextIsWrittenLength == nextOffset = SumLen(written)

\* nothing that is (now) contiguous is withheld
C16_ReleasedAsSoonAsContiguous ==
    \A c \in queued : ~(c[1] <= nextOffset /\ nextOffset < c[1] + c[2])

\* when every part was delivered to its end by some attempt, everything is written
C16_AllWrittenWhenAllPartsComplete ==
    (\A p \in Parts : complete[p]) => nextOffset = Size

\* only data beyond the written prefix is kept in memory
C16_QueuedAhead == \A c \in queued : c[1] + c[2] > nextOffset \/ (c[2] = 0)
=============================================================================
