"""C13 - bandwidth limit respected without starving or over-throttling.

1. TLC checks Bandwidth.tla: exhaustively for a tiny configuration (both the
   faithful variant with the unrepaired defect D5 and the intended design),
   and by simulation for 3 streams / mixed read sizes / late wake-ups.
2. code -> spec: 1-8 real BandwidthLimitedStreams sharing one real
   LeakyBucket run as cooperative threads in virtual time (reads, think
   times, streams abandoned while waiting); every read is an event
   (time, stream, size, pass/admit/refuse+retry/granted/raise) and TLC
   validates the trace against Bandwidth_Trace.tla: each decision of the
   real bucket must lie inside the specification's envelope, the retry time
   must equal the specified total wait, and the window-rate / one-wait
   clauses are evaluated on the reconstructed history.
3. end-to-end: uploads/downloads through a TransferManager with
   max_bandwidth (wrapping, enable/disable, error propagation).
"""

import json
import os
import random
import shutil
import tempfile

import checklib
import coop
import tlc

MC_CFG = '''SPECIFICATION Spec
CONSTANTS
  Streams = {%(streams)s}
  Amts = {%(amts)s}
  Thr = %(thr)d
  Late = %(late)d
  MaxW = %(maxw)d
  MaxHist = %(maxh)d
  KF_D5 = %(kf)s
INVARIANT C13_WindowRate125
INVARIANT C13_OneWaitBounded
INVARIANT C13_TotalWaitIsSumScheduled
PROPERTY C13_RetryIsTotalWait
PROPERTY C13_BelowLimitNeverDelayed
PROPERTY C13_GrantedAfterOneWait
CONSTRAINT Bound
CHECK_DEADLOCK FALSE
'''

TRACE_CFG = '''SPECIFICATION TSpec
CONSTANTS
  Streams = {%(streams)s}
  Amts = {1}
  Thr = %(thr)d
  Late = 0
  MaxW = 100000
  MaxHist = 100000
  KF_D5 = TRUE
CONSTRAINT Progress
CONSTRAINT Report
POSTCONDITION Final
CHECK_DEADLOCK FALSE
'''


def q(names):
    return ', '.join(f'"{n}"' for n in names)


class _Coord:
    def __init__(self):
        self.exception = None


class _Src:
    def read(self, n):
        return b'x' * n

    def close(self):
        pass


def record_one(rng, nstreams, thr, nreads, chooser, abandon=True, late=False):
    """One virtual-time execution of real limited streams on a real bucket."""
    import s3transfer.bandwidth as B
    events = []
    s = coop.Scheduler(chooser, max_steps=20000)
    names = [f's{i + 1}' for i in range(nstreams)]
    plan = {}
    for n in names:
        sizes = [rng.choice([1, 2, 3, thr, thr + 1, 2 * thr]) for _ in range(nreads)]
        thinks = [rng.choice([0, 0, 1, 2, thr, 3 * thr]) for _ in range(nreads)]
        plan[n] = list(zip(sizes, thinks))
    kill = {}
    if abandon and nstreams > 1 and rng.random() < 0.5:
        kill[rng.choice(names)] = rng.randint(1, 6 * thr)
    if late:
        s.late_wakeup = lambda sc: rng.choice([0, 0, 1])

    def W():
        return int(round(s.now))

    keyc = [0]
    lockkey = {}

    def key():
        keyc[0] += 1
        return keyc[0]

    class TU(B.TimeUtils):
        # consume() reads the clock while holding the bucket lock: the order
        # of these calls is the order of the critical sections
        def time(self):
            lockkey[s.current] = key()
            return super().time()

    def main():
        bucket = B.LeakyBucket(1, time_utils=TU())   # 1 byte per (virtual) second: W = t
        orig_consume = bucket.consume
        waiting = set()
        ctx = {}
        coords = {}

        def consume(amt, token):
            name = s.current                # the running stream thread
            c = ctx[name]
            c['w'] = W()       # virtual time does not move while threads run
            try:
                r = orig_consume(amt, token)
            except B.RequestExceededException as e:
                waiting.add(name)
                events.append({'s': name, 'amt': c['amt'], 'w': c['w'],
                               'res': 'refuse', 'k': lockkey.get(name, key()),
                               'retry': int(round(e.retry_time))})
                raise
            kind = 'granted' if name in waiting else 'admit'
            waiting.discard(name)
            events.append({'s': name, 'amt': c['amt'], 'w': c['w'], 'res': kind,
                           'k': lockkey.get(name, key()), 'retry': 0})
            c['consumed'] = True
            return r
        bucket.consume = consume

        def stream_thread(name):
            coord = _Coord()
            st = B.BandwidthLimitedStream(_Src(), bucket, coord,
                                          bytes_threshold=thr)
            coords[name] = coord
            for amt, think in plan[name]:
                if think:
                    s.sleep(think)
                ctx[name] = {'amt': amt, 'consumed': False}
                try:
                    st.read(amt)
                except RuntimeError:
                    events.append({'s': name, 'amt': amt, 'w': W(),
                                   'res': 'raise', 'retry': 0, 'k': key()})
                    return
                if not ctx[name]['consumed']:
                    events.append({'s': name, 'amt': amt, 'w': W(),
                                   'res': 'pass', 'retry': 0, 'k': key()})

        def killer(name, at):
            s.sleep(at)
            if name in coords and coords[name].exception is None:
                coords[name].exception = RuntimeError('transfer failed')
                events.append({'s': name, 'amt': 0, 'w': W(), 'res': 'abandon',
                               'retry': 0, 'k': key()})
        for n in names:
            s.spawn(n, stream_thread, n)
        for n, at in kill.items():
            s.spawn('killer-' + n, killer, n, at)

    with coop.installed(s, threading_modules=('s3transfer.bandwidth',),
                        time_modules=('s3transfer.bandwidth',)):
        s.run(main, name='main')
    events.sort(key=lambda e: e['k'])
    return events, names, plan, s.failure, s.thread_errors


def validate(traces, names, thr):
    d = tempfile.mkdtemp(prefix='verif-c13-')
    try:
        path = os.path.join(d, 'traces.ndjson')
        with open(path, 'w') as f:
            for t in traces:
                f.write(json.dumps(t) + '\n')
        cfg = TRACE_CFG % dict(streams=q(names), thr=thr)
        r = tlc.run_tlc('Bandwidth_Trace', cfg, workers=1,
                        env={'TRACE_FILE': path}, timeout=3000)
        verdict = {}
        reached = {}
        for p in r.json_prints('BWVERDICT '):
            j = json.loads(p)
            verdict[j['id']] = j['viol']
        for p in r.json_prints('BWTRACE '):
            j = json.loads(p)
            reached[j['id']] = (j['reached'], j['len'])
        return verdict, reached, r
    finally:
        shutil.rmtree(d, ignore_errors=True)


def classify(ev, clause):
    """Attributes used to match known findings."""
    abandoned_while_waiting = False
    waiting = set()
    same_instant = False
    lastw = None
    failed = set()
    for e in ev:
        if e['res'] == 'refuse':
            waiting.add(e['s'])
        elif e['res'] == 'granted':
            waiting.discard(e['s'])
        elif e['res'] == 'abandon':
            failed.add(e['s'])
        elif e['res'] == 'raise' and e['s'] in waiting:
            abandoned_while_waiting = True
        if e['res'] in ('admit', 'granted'):
            if lastw is not None and e['w'] <= lastw and e['res'] == 'granted':
                same_instant = True
            lastw = e['w']
    return {'abandoned_while_waiting': abandoned_while_waiting,
            'granted_at_same_instant': same_instant}


def run(tier, seed):
    ck = checklib.Check('C13', tier, seed)
    thorough = tier == 'thorough'
    rng = random.Random(seed * 31 + 13)
    ck.coverage['rule'] = (
        'one case per virtual-time execution of 1-8 real limited streams on '
        'one real LeakyBucket (random read sizes around the threshold, think '
        'times, abandonment, late wake-ups, random/PCT schedules); distinct = '
        'distinct event traces; all non-trivial (>= 1 consume)')
    # 1. model checking
    tiny = dict(streams=q(['a', 'b']), amts='4', thr=4, late=0,
                maxw=10 if thorough else 9, maxh=5 if thorough else 4)
    for kf in ('FALSE', 'TRUE'):
        r = tlc.run_tlc('MC_Bandwidth', MC_CFG % dict(tiny, kf=kf), workers=12,
                        timeout=1500)
        ck.add_tlc(f'Bandwidth exhaustive 2 streams KF_D5={kf}', r)
        for v in r.violated:
            ck.violation(v, {'component': 'model', 'variant': 'KF_D5=' + kf,
                             'abandoned_while_waiting': kf == 'TRUE',
                             'cex': r.cex[-2500:]})
    sim = dict(streams=q(['a', 'b', 'c']), amts='2, 4, 8', thr=4, late=1,
               maxw=60, maxh=16, kf='FALSE')
    r = tlc.run_tlc('MC_Bandwidth', MC_CFG % sim, workers=8, timeout=1500,
                    simulate=f'num={40000 if thorough else 6000}', depth=60,
                    seed=seed + 1)
    ck.add_tlc('Bandwidth simulation 3 streams', r, exhaustive=False)
    for v in r.violated:
        ck.violation(v, {'component': 'model', 'variant': 'simulation',
                         'cex': r.cex[-2500:]})
    # 2. traces of the real code
    total = 0
    for nstreams in ((1, 2, 3, 5, 8) if thorough else (1, 2, 3, 8)):
        thr = 4
        traces = []
        names = None
        n = (300 if thorough else 80)
        for i in range(n):
            chooser = coop.RandomChooser(rng.randrange(1 << 30), stay=0.5) \
                if rng.random() < 0.6 else coop.PCTChooser(rng.randrange(1 << 30), 3, 80)
            ev, names, plan, failure, errs = record_one(
                rng, nstreams, thr, rng.choice([3, 5, 8]), chooser,
                late=rng.random() < 0.3)
            if errs:
                raise RuntimeError(errs[0][2])
            if failure:
                ck.violation('C13_GrantedAfterOneWait', {
                    'component': 'LeakyBucket', 'detail': failure,
                    'events': ev[-10:]})
                continue
            traces.append({'id': i, 'ev': ev})
            ck.distinct(['bw', nstreams, ev])
        if traces:
            ck.sample({'kind': 'bandwidth trace', 'streams': nstreams,
                       'events': traces[0]['ev'][:10]}, limit=3)
        verdict, reached, r = validate(traces, names, thr)
        ck.add_tlc(f'Bandwidth_Trace {nstreams} streams x {len(traces)}', r,
                   exhaustive=False)
        total += len(traces)
        for t in traces:
            rc = reached.get(t['id'])
            if rc is None:
                ck.machinery_errors.append('trace without verdict')
                continue
            attrs = classify(t['ev'], None)
            if rc[0] <= rc[1]:
                at = t['ev'][rc[0] - 1] if 0 < rc[0] <= len(t['ev']) else None
                ck.violation('C13_TraceConformance', dict(attrs, **{
                    'component': 'LeakyBucket', 'streams': nstreams,
                    'detail': f'event {rc[0]} of {rc[1]} is not a step of '
                              f'Bandwidth.tla: {at}',
                    'events': t['ev']}),
                    replay={'kind': 'c13', 'events': t['ev']})
                continue
            for c in verdict.get(t['id'], []):
                ck.violation(c, dict(attrs, **{
                    'component': 'LeakyBucket', 'streams': nstreams,
                    'events': t['ev']}), replay={'kind': 'c13', 'events': t['ev']})
    ck.coverage['traces_validated_against_impl'] += total
    ck.coverage['evaluations'] += total
    ck.require_nonvacuous('bandwidth traces', total, 50)
    # 3. end to end through a TransferManager
    from checks import c13_e2e
    c13_e2e.run(ck, tier, seed)
    ck.assumptions += [
        'max_rate 1 byte per virtual second so that time, waits and amounts '
        'are exact integers (floats are exact for these values)',
        'the float moving average is checked against an integer envelope '
        '(DESIGN C13), not reproduced digit for digit',
    ]
    return ck.finish()


def replay(path):
    with open(path) as f:
        body = json.load(f)
    for e in (body.get('replay') or {}).get('events', []):
        print(e)
    print(json.dumps({k: v for k, v in body['report'].items() if k != 'events'},
                     indent=1)[:2000])
    return 1
