------------------------------- MODULE Props -------------------------------
(***************************************************************************)
(* The listed properties C01..C11, C18 (and the system-level facets of     *)
(* C12, C14, C16, C17) as predicates over the observable state `o` of      *)
(* Obs.tla.  Every property is a conjunction of NAMED clauses; Holds(c, o) *)
(* evaluates clause c.  The same clauses are INVARIANTs of Pipeline.tla    *)
(* and are evaluated by ObsTrace.tla in every state of every trace         *)
(* recorded from the real code.                                            *)
(*                                                                         *)
(* "The future is done" is read as "result() has returned" (xr.res # none) *)
(***************************************************************************)
EXTENDS Obs

Ok(xr) == xr.res = "ok"
Raised(xr) == xr.res = "raise"
Finished(xr) == xr.res # "none"
IsUp(xr) == xr.kind \in {"upload", "copy"}
IsDl(xr) == xr.kind = "download"
Cancelled(xr) == xr.cancelReq
CancelErr(xr) == xr.ek \in {"cancel", "fatal"}
OldOrAbsent(xr) == IF xr.hasOld THEN "old" ELSE "absent"
AllX(o, P(_)) == \A i \in DOMAIN o.x : P(o.x[i])
AllM(o, P(_)) == \A u \in DOMAIN o.mpu : P(o.mpu[u])

Clauses == {
  "C01_ObjectEqualsSource", "C01_PartsAscending1toN", "C01_PartsCarryReturnedETags",
  "C01_PartsCarryReturnedChecksums", "C01_PartsTileSource", "C01_CompletedOnce",
  "C02_DestEqualsObject", "C02_NoWrongBytes",
  "C03_NoSuccessAfterFatalFault", "C03_RaisedIsOccurredFailureOrCancel",
  "C03_AttemptsBounded", "C03_NonRetryableNotRetried", "C03_FailureReported",
  "C04_NoDeadlock",
  "C05_ExactlyOneEnd", "C05_NeverCompletedTwice", "C05_NoPartOrCompleteAfterAbort",
  "C05_AbortAfterAllReturned",
  "C06_DestNeverPartial", "C06_NoTempWhenDone", "C06_FailureLeavesOld",
  "C06_CancelOldOrComplete", "C06_SuccessPublishesComplete",
  "C07_NoRequestIfNotStarted", "C07_CancelledOutcome", "C07_CancelErrorTruthful",
  "C07_FinishedKeepsResult", "C07_CancelEntryPointReturns", "C07_EntryPointCancelsAll",
  "C08_QueuedAtMostOnce", "C08_QueuedOnceWhenStarted", "C08_QueuedBeforeAnyRequest",
  "C08_NoQueuedIfCancelledBeforeStart", "C08_DoneAtMostOnce", "C08_DoneExactlyOnceAtEnd",
  "C08_DoneAfterFinalAndQuiet", "C08_NoProgressAfterDoneBegan", "C08_NoQueuedAfterDoneBegan",
  "C08_ProvidedSizeSuppressesHead", "C08_OutcomeFinalAtDone",
  "C09_RunningSumWithinBounds", "C09_SumEqualsSizeAtSuccess",
  "C10_RequestsInFlightLeR", "C10_HeadsInFlightLeS", "C10_OneWriterPerDest",
  "C10_StageOccupancy", "C10_RequestThreadsLeR",
  "C11_UploadBuffers", "C11_DownloadWindow", "C11_IoQueue", "C11_BufferSize",
  "C12_AllPermitsReturned",
  "C14_MultipartIffGeThreshold", "C14_DownloadRangesTile",
  "C14_PartSizesWithinLimits", "C14_ChunkChangedOnlyIfRequired",
  "C16_StreamInOrderExactlyOnce",
  "C17_DoneNeverReverts",
  "C18_NothingAfterShutdownReturns", "C18_AllDoneAtShutdownReturn",
  "C18_NeighbourUnaffected", "C18_FinalStateConsistent", "C18_ExecutorsShutInOrder" }

Holds(c, o) ==
  CASE c = "C01_ObjectEqualsSource" ->
         AllX(o, LAMBDA xr : (IsUp(xr) /\ Ok(xr)) => xr.obj = "ok")
    [] c \in {"C01_PartsAscending1toN", "C01_PartsCarryReturnedETags",
              "C01_PartsCarryReturnedChecksums", "C01_PartsTileSource"} ->
         AllX(o, LAMBDA xr : c \notin xr.cplBad)
    [] c = "C01_CompletedOnce" -> AllM(o, LAMBDA m : m.completesOk <= 1)

    [] c = "C02_DestEqualsObject" ->
         AllX(o, LAMBDA xr : (IsDl(xr) /\ Ok(xr)) =>
               /\ \A p \in DOMAIN xr.w : xr.w[p] >= 1
               /\ (xr.dstk = "path" => xr.destAtResult = "complete"))
    [] c = "C02_NoWrongBytes" ->
         AllX(o, LAMBDA xr : (IsDl(xr) /\ Ok(xr)) => ~xr.wbad)

    [] c = "C03_NoSuccessAfterFatalFault" ->
         AllX(o, LAMBDA xr : Ok(xr) => ~xr.fatal)
    [] c = "C03_RaisedIsOccurredFailureOrCancel" ->
         AllX(o, LAMBDA xr : (Raised(xr) /\ ~xr.override) =>
               \/ xr.ek \in {"s3", "inj", "stream-fatal"} /\ xr.tag \in xr.tags
               \/ xr.ek = "retries" /\ xr.tag \in xr.rkinds
               \/ CancelErr(xr) /\ Cancelled(xr))
    [] c = "C03_AttemptsBounded" ->
         AllX(o, LAMBDA xr : \A r \in DOMAIN xr.gets : xr.gets[r] <= o.cfg.attempts)
    [] c = "C03_NonRetryableNotRetried" -> AllX(o, LAMBDA xr : ~xr.getAfterFatal)
    [] c = "C03_FailureReported" ->
         \* a transfer that met a fatal fault must report it: it may not hang
         AllX(o, LAMBDA xr : (o.stuck # "" /\ xr.fatal /\ xr.call = "returned") => Finished(xr))

    [] c = "C04_NoDeadlock" -> o.stuck = ""

    [] c = "C05_ExactlyOneEnd" ->
         AllM(o, LAMBDA m :
            (m.idKnown /\ m.x >= 0 /\ m.x < Len(o.x) /\ Finished(o.x[m.x + 1])
               /\ ~o.x[m.x + 1].override) =>
               IF Ok(o.x[m.x + 1]) THEN m.completesOk = 1 /\ m.abortBegins = 0
               ELSE m.abortBegins >= 1)
    [] c = "C05_NeverCompletedTwice" -> AllM(o, LAMBDA m : m.completesOk <= 1)
    [] c = "C05_NoPartOrCompleteAfterAbort" -> AllM(o, LAMBDA m : ~m.partAfterAbort)
    [] c = "C05_AbortAfterAllReturned" -> AllM(o, LAMBDA m : ~m.abortWithOpen)

    [] c = "C06_DestNeverPartial" -> AllX(o, LAMBDA xr : ~xr.destBad)
    [] c = "C06_NoTempWhenDone" ->
         AllX(o, LAMBDA xr : (IsDl(xr) /\ xr.dstk = "path" /\ Finished(xr)) => xr.tempsAtResult = 0)
    [] c = "C06_FailureLeavesOld" ->
         AllX(o, LAMBDA xr : (IsDl(xr) /\ xr.dstk = "path" /\ Raised(xr) /\ ~Cancelled(xr)
                               /\ ~xr.override) =>
               xr.destAtResult = OldOrAbsent(xr))
    [] c = "C06_CancelOldOrComplete" ->
         AllX(o, LAMBDA xr : (IsDl(xr) /\ xr.dstk = "path" /\ Raised(xr) /\ Cancelled(xr)) =>
               xr.destAtResult \in {OldOrAbsent(xr), "complete"})
    [] c = "C06_SuccessPublishesComplete" ->
         AllX(o, LAMBDA xr : (IsDl(xr) /\ xr.dstk = "path" /\ Ok(xr)) => xr.destAtResult = "complete")

    [] c = "C07_NoRequestIfNotStarted" -> AllX(o, LAMBDA xr : ~xr.s3AfterEarlyCancel)
    [] c = "C07_CancelledOutcome" ->
         \* a cancel that returned makes the transfer end with the cancellation
         \* error (or with a failure that occurred), unless its final operation
         \* had begun before the cancel returned
         AllX(o, LAMBDA xr : (xr.cancelRet /\ Finished(xr)) =>
               \/ Raised(xr)
               \/ Ok(xr) /\ (xr.kind = "download" /\ xr.dstk # "path")
               \/ Ok(xr) /\ xr.finalSeen /\ xr.finalBeforeCancel)
    [] c = "C07_CancelErrorTruthful" ->
         AllX(o, LAMBDA xr : (Raised(xr) /\ CancelErr(xr) /\ ~xr.override) =>
               /\ Cancelled(xr)
               /\ xr.msgok
               /\ xr.cls = (IF xr.cancelHow = "exit-exc" THEN "FatalError" ELSE "CancelledError"))
    [] c = "C07_CancelEntryPointReturns" -> ~o.cancelRaised
    \* shutdown(cancel=True) / an exception or Ctrl-C leaving the with-block hands the cancel
    \* to the controller whenever a transfer is still tracked; so does a Ctrl-C that ends
    \* the wait inside shutdown(); and the controller hands it to every tracked transfer
    [] c = "C07_EntryPointCancelsAll" -> ~o.entrySkipped /\ ~o.kbiSkipped /\ ~o.ctlMissed
    [] c = "C07_FinishedKeepsResult" -> AllX(o, LAMBDA xr : xr.override \/ ~xr.resChanged)

    [] c = "C08_QueuedAtMostOnce" ->
         AllX(o, LAMBDA xr : \A s \in DOMAIN xr.q : xr.q[s] <= 1)
    [] c = "C08_QueuedOnceWhenStarted" ->
         AllX(o, LAMBDA xr : (Ok(xr) /\ xr.nsubs > 0) => \A s \in DOMAIN xr.q : xr.q[s] = 1)
    [] c = "C08_QueuedBeforeAnyRequest" ->
         AllX(o, LAMBDA xr : xr.nsubs > 0 => ~xr.s3BeforeQueued)
    [] c = "C08_NoQueuedIfCancelledBeforeStart" ->
         AllX(o, LAMBDA xr : ~xr.queuedAfterEarlyCancel)
    [] c = "C08_DoneAtMostOnce" ->
         AllX(o, LAMBDA xr : \A s \in DOMAIN xr.d : xr.d[s] <= 1)
    [] c = "C08_DoneExactlyOnceAtEnd" ->
         AllX(o, LAMBDA xr : (o.ended /\ o.stuck = "" /\ xr.call = "returned") =>
               \A s \in DOMAIN xr.d : xr.d[s] = 1)
    [] c = "C08_DoneAfterFinalAndQuiet" ->
         AllX(o, LAMBDA xr : ~xr.doneWithOpen /\ ~xr.doneFlagBad
                              /\ xr.afterDone \cap {"s3", "fs", "write"} = {})
    [] c = "C08_NoProgressAfterDoneBegan" ->
         AllX(o, LAMBDA xr : "progress" \notin xr.afterDone)
    [] c = "C08_NoQueuedAfterDoneBegan" ->
         AllX(o, LAMBDA xr : "queued" \notin xr.afterDone)
    [] c = "C08_ProvidedSizeSuppressesHead" ->
         AllX(o, LAMBDA xr : xr.provide => ~xr.headSeen)
    [] c = "C08_OutcomeFinalAtDone" ->
         AllX(o, LAMBDA xr : (Finished(xr) /\ xr.doneBegun /\ ~xr.override /\ xr.resAtDone # "") =>
               ((xr.resAtDone = "success") <=> Ok(xr)))

    [] c = "C09_RunningSumWithinBounds" -> AllX(o, LAMBDA xr : ~xr.progBad)
    [] c = "C09_SumEqualsSizeAtSuccess" ->
         AllX(o, LAMBDA xr : (Ok(xr) /\ xr.kind # "delete") =>
               \A s \in DOMAIN xr.prog : xr.prog[s] = xr.size)

    [] c = "C10_RequestsInFlightLeR" -> ~o.overR
    [] c = "C10_HeadsInFlightLeS" -> ~o.overS
    [] c = "C10_OneWriterPerDest" -> AllX(o, LAMBDA xr : ~xr.woverlap)
    [] c = "C10_StageOccupancy" -> o.occBad = {}
    [] c = "C10_RequestThreadsLeR" -> Cardinality(o.reqThreads) <= o.cfg.R

    [] c = "C11_UploadBuffers" -> "C11_UploadBuffers" \notin o.memBad
    [] c = "C11_DownloadWindow" -> "C11_DownloadWindow" \notin o.memBad
    [] c = "C11_IoQueue" -> "io" \notin o.occBad /\ ~o.ioWriteBig /\ AllX(o, LAMBDA xr : ~xr.wbig)

    [] c = "C11_BufferSize" -> AllX(o, LAMBDA xr : ~xr.bigPart)
    [] c = "C12_AllPermitsReturned" -> (o.ended /\ o.stuck = "") => ~o.permsBad

    [] c \in {"C14_PartSizesWithinLimits", "C14_ChunkChangedOnlyIfRequired"} ->
         AllX(o, LAMBDA xr : c \notin xr.cplBad)
    [] c = "C14_MultipartIffGeThreshold" ->
         \* (a stream whose sized reads return short cannot be measured by
         \* the threshold pre-read; the decision is not required of it)
         AllX(o, LAMBDA xr : (IsUp(xr) /\ Ok(xr) /\ ~xr.shortsrc) =>
               ((xr.objVia = "CompleteMultipartUpload") <=> (xr.size >= o.cfg.threshold)))

    [] c = "C14_DownloadRangesTile" ->
         \* the ranges requested by a successful download are consecutive,
         \* start at 0, end at the last byte; ranged exactly when size >= threshold
         AllX(o, LAMBDA xr : (IsDl(xr) /\ Ok(xr)) =>
               LET RECURSIVE Cover(_)
                   Cover(pos) == IF pos = xr.size THEN TRUE
                                 ELSE \E r \in xr.ranges : r[1] = pos /\ r[2] > 0 /\ Cover(pos + r[2])
                   RECURSIVE Sum(_)
                   Sum(S) == IF S = {} THEN 0 ELSE LET r == CHOOSE r \in S : TRUE IN r[2] + Sum(S \ {r})
               IN /\ Cover(0)
                  /\ Sum(xr.ranges) = xr.size
                  /\ (xr.size < o.cfg.threshold) => Cardinality(xr.ranges) = 1
                  /\ (xr.size >= o.cfg.threshold) =>
                        \A r \in xr.ranges : r[2] = o.cfg.chunk \/ (r[1] + r[2] = xr.size /\ r[2] <= o.cfg.chunk))
    [] c = "C16_StreamInOrderExactlyOnce" ->
         AllX(o, LAMBDA xr : (IsDl(xr) /\ xr.dstk = "nonseekable") =>
               /\ ~xr.sbad
               /\ \A p \in DOMAIN xr.w : xr.w[p] <= 1
               /\ Ok(xr) => (xr.snext = xr.size /\ \A p \in DOMAIN xr.w : xr.w[p] = 1))

    [] c = "C17_DoneNeverReverts" -> AllX(o, LAMBDA xr : ~xr.flipBack)

    [] c = "C18_NothingAfterShutdownReturns" -> o.afterShutdown = {}
    [] c = "C18_AllDoneAtShutdownReturn" -> ~o.undoneAtShutdown
    [] c = "C18_NeighbourUnaffected" ->
         AllX(o, LAMBDA xr : (Finished(xr) /\ xr.faultFree /\ ~Cancelled(xr) /\ ~xr.override) => Ok(xr))
    [] c = "C18_FinalStateConsistent" -> o.finalBad = <<>>
    \* (binds the constant Order of Manager.tla to the code)
    [] c = "C18_ExecutorsShutInOrder" -> ~o.shutBad
    [] OTHER -> TRUE

Violated(o) == {c \in Clauses : ~Holds(c, o)}
=============================================================================
