------------------------------ MODULE CrtGlue ------------------------------
(***************************************************************************)
(* The Python layer of s3transfer.crt.CRTTransferManager around a CRT S3   *)
(* client: permits (a semaphore of Cap slots), request construction,       *)
(* composition of the done callbacks                                       *)
(*     before (rename/remove temp file) -> subscribers -> after            *)
(*     (release permit, mark callbacks complete)                           *)
(* and shutdown.  The CRT client is the environment: a request in flight   *)
(* finishes ok / with an error / cancelled, in any order.                  *)
(*                                                                         *)
(* One user thread submits transfers 0..N-1 in order (it blocks while no   *)
(* permit is free), may cancel, and finally shuts down.  The done          *)
(* callbacks of an in-flight transfer run on a CRT thread (one sub-step    *)
(* each), those of a transfer whose construction failed run inline in the  *)
(* user thread.                                                            *)
(***************************************************************************)
EXTENDS Naturals, Integers, Sequences, FiniteSets, TLC

CONSTANTS Cap,        \* permits
          N,          \* number of transfers the user submits
          Kinds,      \* [t -> "upload" | "download_path" | "download_stream" | "delete"]
          MayFailConstruction, MayCancel, MayFailRename, ShutdownCancel

T == 0..(N - 1)

VARIABLES permits,   \* free permits
          st,        \* [t -> "none"|"acquired"|"inflight"|"finished"|"done"]
          outcome,   \* [t -> "none"|"ok"|"err"|"cancelled"|"construct"]
          phase,     \* [t -> "none"|"before"|"subs"|"release"|"complete"|"end"]
          released,  \* [t -> number of permit releases by t's callbacks]
          subsRan,   \* [t -> subscribers' on_done ran]
          complete,  \* [t -> callbacks-complete event set]
          temp,      \* [t -> temp file exists]
          dest,      \* [t -> "old" | "complete"]
          cancelReq, \* [t -> cancel was requested on the CRT request]
          upc,       \* user: next transfer to submit, or "shutdown" phases
          unext      \* index of the next transfer to submit

vars == <<permits, st, outcome, phase, released, subsRan, complete, temp, dest, cancelReq, upc, unext>>

Init ==
    /\ permits = Cap
    /\ st = [t \in T |-> "none"] /\ outcome = [t \in T |-> "none"]
    /\ phase = [t \in T |-> "none"] /\ released = [t \in T |-> 0]
    /\ subsRan = [t \in T |-> FALSE] /\ complete = [t \in T |-> FALSE]
    /\ temp = [t \in T |-> FALSE] /\ dest = [t \in T |-> "old"]
    /\ cancelReq = [t \in T |-> FALSE]
    /\ upc = "submit" /\ unext = 0

\* ------------------------------------------------------------------ user
\* _submit_transfer: semaphore.acquire() (blocks while no permit is free)
Acquire ==
    /\ upc = "submit" /\ unext < N /\ permits > 0
    /\ permits' = permits - 1
    /\ st' = [st EXCEPT ![unext] = "acquired"]
    /\ upc' = "construct"
    /\ UNCHANGED <<outcome, phase, released, subsRan, complete, temp, dest, cancelReq, unext>>

\* on_queued + request construction + make_request succeed: in flight
MakeRequest ==
    /\ upc = "construct"
    /\ st' = [st EXCEPT ![unext] = "inflight"]
    /\ upc' = "submit" /\ unext' = unext + 1
    /\ UNCHANGED <<permits, outcome, phase, released, subsRan, complete, temp, dest, cancelReq>>

\* ... or something raised: the done callbacks run inline (no before-calls)
ConstructFail ==
    /\ MayFailConstruction /\ upc = "construct"
    /\ st' = [st EXCEPT ![unext] = "finished"]
    /\ outcome' = [outcome EXCEPT ![unext] = "construct"]
    /\ phase' = [phase EXCEPT ![unext] = "subs"]
    /\ upc' = "inline"
    /\ UNCHANGED <<permits, released, subsRan, complete, temp, dest, cancelReq, unext>>

\* the inline callbacks have finished: _submit_transfer returns
InlineDone ==
    /\ upc = "inline" /\ phase[unext] = "end"
    /\ upc' = "submit" /\ unext' = unext + 1
    /\ UNCHANGED <<permits, st, outcome, phase, released, subsRan, complete, temp, dest, cancelReq>>

UserCancel(t) ==
    /\ MayCancel /\ st[t] = "inflight"      \* (any time, also during shutdown; idempotent)
    /\ cancelReq' = [cancelReq EXCEPT ![t] = TRUE]
    /\ UNCHANGED <<permits, st, outcome, phase, released, subsRan, complete, temp, dest, upc, unext>>

\* shutdown(cancel): cancel unfinished requests, wait for the CRT futures
\* (the loop stops at the first failed transfer), then - always - wait until
\* every transfer's done callbacks completed
ShutdownStart ==
    /\ upc = "submit" /\ unext = N
    /\ cancelReq' = IF ShutdownCancel
                    THEN [t \in T |-> cancelReq[t] \/ st[t] = "inflight"] ELSE cancelReq
    /\ upc' = "sd_wait"
    /\ UNCHANGED <<permits, st, outcome, phase, released, subsRan, complete, temp, dest, unext>>
ShutdownReturn ==
    /\ upc = "sd_wait"
    /\ \A t \in T : st[t] # "none" => complete[t]
    /\ upc' = "down"
    /\ UNCHANGED <<permits, st, outcome, phase, released, subsRan, complete, temp, dest, cancelReq, unext>>

\* ------------------------------------------------------------------ CRT client (environment)
\* a path download receives its data into the temp file before finishing
CrtFinish(t, o) ==
    /\ st[t] = "inflight"
    /\ o \in {"ok", "err", "cancelled"}
    /\ (o = "cancelled") => cancelReq[t]
    /\ st' = [st EXCEPT ![t] = "finished"]
    /\ outcome' = [outcome EXCEPT ![t] = o]
    /\ temp' = [temp EXCEPT ![t] = (Kinds[t] = "download_path")]
    /\ phase' = [phase EXCEPT ![t] = IF Kinds[t] = "download_path" THEN "before" ELSE "subs"]
    /\ UNCHANGED <<permits, released, subsRan, complete, dest, cancelReq, upc, unext>>

\* ------------------------------------------------------------------ done callbacks (one step each)
\* before-subscribers: RenameTempFileHandler
CbBefore(t, renameOk) ==
    /\ phase[t] = "before"
    /\ IF outcome[t] = "ok"
       THEN IF renameOk THEN temp' = [temp EXCEPT ![t] = FALSE] /\ dest' = [dest EXCEPT ![t] = "complete"]
            ELSE MayFailRename /\ temp' = [temp EXCEPT ![t] = FALSE] /\ UNCHANGED dest
       ELSE renameOk /\ temp' = [temp EXCEPT ![t] = FALSE] /\ UNCHANGED dest
    /\ phase' = [phase EXCEPT ![t] = "subs"]
    /\ UNCHANGED <<permits, st, outcome, released, subsRan, complete, cancelReq, upc, unext>>
CbSubs(t) ==
    /\ phase[t] = "subs"
    /\ subsRan' = [subsRan EXCEPT ![t] = TRUE]
    /\ phase' = [phase EXCEPT ![t] = "release"]
    /\ UNCHANGED <<permits, st, outcome, released, complete, temp, dest, cancelReq, upc, unext>>
CbRelease(t) ==
    /\ phase[t] = "release"
    /\ permits' = permits + 1
    /\ released' = [released EXCEPT ![t] = @ + 1]
    /\ phase' = [phase EXCEPT ![t] = "complete"]
    /\ UNCHANGED <<st, outcome, subsRan, complete, temp, dest, cancelReq, upc, unext>>
CbComplete(t) ==
    /\ phase[t] = "complete"
    /\ complete' = [complete EXCEPT ![t] = TRUE]
    /\ phase' = [phase EXCEPT ![t] = "end"]
    /\ st' = [st EXCEPT ![t] = "done"]
    /\ UNCHANGED <<permits, outcome, released, subsRan, temp, dest, cancelReq, upc, unext>>

Next ==
    \/ Acquire \/ MakeRequest \/ ConstructFail \/ InlineDone \/ ShutdownStart \/ ShutdownReturn
    \/ \E t \in T : UserCancel(t)
    \/ \E t \in T, o \in {"ok", "err", "cancelled"} : CrtFinish(t, o)
    \/ \E t \in T : CbBefore(t, TRUE) \/ CbBefore(t, FALSE) \/ CbSubs(t) \/ CbRelease(t) \/ CbComplete(t)

Spec == Init /\ [][Next]_vars
FairSpec == Spec /\ WF_vars(Next)

\* ------------------------------------------------------------- properties
Submitted(t) == st[t] # "none"
C20_OnePermitPerTransferOnEveryPath ==
    /\ \A t \in T : released[t] <= 1
    /\ \A t \in T : complete[t] => released[t] = 1
    /\ permits = Cap - Cardinality({t \in T : Submitted(t) /\ released[t] = 0})
C20_PermitsInRange == permits >= 0 /\ permits <= Cap
C20_AtMostCapInFlight == Cardinality({t \in T : st[t] \in {"acquired", "inflight"}}) <= Cap
C20_SubscribersBeforeCallbacksComplete == \A t \in T : complete[t] => subsRan[t]
C20_RenameOnSuccessRemoveOnError ==
    \A t \in T : (complete[t] /\ Kinds[t] = "download_path") =>
        /\ ~temp[t]
        /\ (dest[t] = "complete") => outcome[t] = "ok"
C20_ShutdownAfterAllDoneCallbacks ==
    (upc = "down") => \A t \in T : Submitted(t) => complete[t]
C20_PermitsRestoredAtQuiescence ==
    (\A t \in T : st[t] \in {"none", "done"}) => permits = Cap
\* liveness: every submitted transfer completes its callbacks; shutdown returns
C20_EventuallyComplete == \A t \in T : Submitted(t) ~> complete[t]
C20_ShutdownReturns == (upc = "sd_wait") ~> (upc = "down")
=============================================================================
