#!/usr/bin/env python3
"""Self-test of the binding between Download.tla and the code (not a registered
check): accepted traces of real downloads (ranged to a path, ranged to a
non-seekable stream, single-request) are corrupted in one place and
Download_Trace.tla must reject the result.

run:  cd /verif && PYTHONPATH=/repo:harness /venv/bin/python selftest/corrupt_download_traces.py"""
import copy
import os
import sys

HERE = os.path.dirname(os.path.abspath(__file__))
sys.path.insert(0, os.path.join(HERE, '..', 'harness'))
sys.path.insert(0, os.path.join(HERE, '..', 'harness', 'checks'))
import pconf  # noqa: E402
import pipeline  # noqa: E402
import runner  # noqa: E402
import scenarios as S  # noqa: E402
import world  # noqa: E402
from checks import pconf_e2e  # noqa: E402


def variants(ev):
    out = []
    for d in range(len(ev)):
        t = copy.deepcopy(ev)
        del t[d]
        out.append((f'drop {d + 1} {ev[d]["k"]}', t))
    for d in range(len(ev) - 1):
        if ev[d]['th'] == ev[d + 1]['th']:
            t = copy.deepcopy(ev)
            t[d], t[d + 1] = t[d + 1], t[d]
            out.append((f'swap {d + 1} {ev[d]["k"]}<->{ev[d + 1]["k"]}', t))
    for d, e in enumerate(ev):
        cands = []
        if e['k'] in ('Status', 'SetExc', 'SetResult', 'AnnBegin', 'CancelEnd'):
            cands.append(('st', 'cancelled' if e['st'] != 'cancelled' else 'failed'))
        if e['k'] == 'S3End' and e['oc'] == 'ok':
            cands.append(('oc', 'fault'))
        if e['k'] in ('IoSubmit', 'Submit'):
            cands.append(('inflight', e['inflight'] + 1))
        if e['k'] in ('S3Begin', 'FsWriteBegin') and e['part']:
            cands.append(('part', e['part'] % 3 + 1))
        if e['k'] == 'BodyRead':
            cands.append(('data', not e['data']))
        if e['k'] == 'FsWriteEnd':
            cands.append(('ok', not e['ok']))
        if e['th'].startswith('request-w'):
            cands.append(('th', 'request-w1' if e['th'] != 'request-w1' else 'request-w0'))
        for f, v in cands:
            t = copy.deepcopy(ev)
            t[d][f] = v
            out.append((f'flip {d + 1} {e["k"]}.{f}', t))
    return out


def main():
    total = acc = 0
    base = [('dl-path-mp', {}, ('random', 11, 0.5)),
            ('dl-path-mp', {'streams': [{'x': 0, 'range_start': 2, 'attempt': 1,
                                         'fault_after': 0, 'fault': 'timeout'}]}, ('rr',)),
            ('dl-ns-mp', {}, ('lifo',)),
            ('dl-path-1', {'cfg': {'io_chunk': 4}}, ('fifo',))]
    for name, over, ch in base:
        sc = S.base(name)
        sc.update(copy.deepcopy(over))
        res = runner.run_scenario(sc, pipeline.make_chooser(ch))
        cfg = dict(world.DEFAULT_CFG)
        cfg.update(sc.get('cfg', {}))
        geo = pconf.dl_geometry(sc, cfg)
        ev = pconf.project(res['events'], cfg['chunk'])
        vs = [('original', ev)] + variants(ev)
        reached, r = pconf_e2e.validate(
            [{'id': i, 'ev': t} for i, (_, t) in enumerate(vs)], geo)
        ok0 = reached[0][0] > reached[0][1]
        print(f'{name} {over or ""}: original accepted={ok0}, {len(vs) - 1} corruptions')
        for i, (nm, _) in enumerate(vs[1:], 1):
            total += 1
            if reached[i][0] > reached[i][1]:
                acc += 1
                print('   accepted:', nm)
        if not ok0:
            return 2
    print(f'{total - acc} of {total} corruptions rejected')
    return 0


if __name__ == '__main__':
    sys.exit(main())
