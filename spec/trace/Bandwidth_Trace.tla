-------------------------- MODULE Bandwidth_Trace --------------------------
(***************************************************************************)
(* Trace validation for Bandwidth.tla: reads of real                      *)
(* BandwidthLimitedStreams sharing one real LeakyBucket, run as threads in *)
(* virtual time.  Every event carries the virtual time, the stream, the    *)
(* read size and what happened (pass / admit / refuse+retry / granted /    *)
(* raise); it must be a step of the specification with those values, and   *)
(* the window / wait clauses are evaluated on the reconstructed history.   *)
(* Each event takes two steps: the clock jumps to the logged time, then    *)
(* the action fires.                                                       *)
(***************************************************************************)
EXTENDS Bandwidth, Json, IOUtils, TLCExt

Traces == ndJsonDeserialize(IOEnv.TRACE_FILE)
VARIABLES tid, l, phase, viol
tvars == <<vars, tid, l, phase, viol>>
Ev == Traces[tid].ev[l]
More == l <= Len(Traces[tid].ev)

TInit == Init /\ tid \in 1..Len(Traces) /\ l = 1 /\ phase = "jump" /\ viol = {}
         /\ TLCSet(tid, 0)

Jump ==
    /\ More /\ phase = "jump"
    /\ Ev.w >= now
    /\ now' = Ev.w
    /\ phase' = "act"
    /\ UNCHANGED <<lastW, ub, totalWait, sched, pc, dead, failAt, wake, seen, pend, hist, waits, last, tid, l, viol>>

\* windows ending at the newest history entry (earlier ones were checked before)
WindowNew ==
    \A i \in 1..(Len(hist) - 1) :
        4 * (hist[Len(hist)].c - hist[i].c) <= 5 * (hist[Len(hist)].w - hist[i].w) + 4 * Burst

Checks == {c \in {"C13_WindowRate125", "C13_OneWaitBounded", "C13_TotalWaitIsSumScheduled",
                  "C13_RateNeverSticksInfinite"} :
             CASE c = "C13_WindowRate125" -> ~WindowNew'
               [] c = "C13_OneWaitBounded" -> ~C13_OneWaitBounded'
               [] c = "C13_TotalWaitIsSumScheduled" -> ~C13_TotalWaitIsSumScheduled'
               [] c = "C13_RateNeverSticksInfinite" -> ~C13_RateNeverSticksInfinite'}

Act ==
    /\ More /\ phase = "act"
    /\ LET e == Ev IN
       \/ e.res = "pass" /\ Pass(e.s, e.amt)
       \/ e.res = "admit" /\ Admit(e.s, e.amt)
       \/ e.res = "refuse" /\ Refuse(e.s, e.amt) /\ last'.retry = e.retry
       \/ e.res = "granted" /\ Wake(e.s)
       \/ e.res = "abandon" /\ Fail(e.s)
       \/ e.res = "raise" /\ Raise(e.s)
    /\ phase' = "jump"
    /\ l' = l + 1
    /\ viol' = viol \cup Checks
    /\ UNCHANGED tid

TNext == Jump \/ Act
TSpec == TInit /\ [][TNext]_tvars

Progress == TLCSet(tid, IF TLCGet(tid) < l THEN l ELSE TLCGet(tid))
Report ==
    (l = Len(Traces[tid].ev) + 1) =>
        PrintT("BWVERDICT " \o ToJson([id |-> Traces[tid].id, viol |-> viol]))
Final ==
    \A i \in 1..Len(Traces) :
        PrintT("BWTRACE " \o ToJson([id |-> Traces[i].id, reached |-> TLCGet(i), len |-> Len(Traces[i].ev)]))
=============================================================================
