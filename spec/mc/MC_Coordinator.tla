--------------------------- MODULE MC_Coordinator ---------------------------
EXTENDS Coordinator, Json, TLCExt

StateRec == [status |-> status, exc |-> exc, result |-> result, event |-> event,
             cleanups |-> Len(cleanups), doneCbs |-> doneCbs,
             ranCleanups |-> ranCleanups, ranCbs |-> ranCbs,
             lock |-> lock, pc |-> pc, nops |-> nops, tmp |-> tmp,
             clLock |-> clLock, cbLock |-> cbLock]
DumpEdge ==
    PrintT("EDGE " \o ToJson([from |-> StateRec, to |-> StateRec', op |-> last',
                               opchanged |-> (last' # last)]))
=============================================================================
