"""Action-level conformance of the real TransferManager to spec/Pipeline.tla
(trace/Pipeline_Trace.tla: a multipart upload from a file / single put /
delete) and to spec/Download.tla (trace/Download_Trace.tla: a ranged download
to a file path): every recorded execution - under faults at every S3 call
(before and after its effect), stream errors (retryable below and beyond the
attempt budget, non-retryable), failing writes / rename, a raising on_queued,
cancels at every few scheduling points, slow requests, deterministic extreme
and random schedules - must be a behaviour of the specification: each logged
event has to be the specification action of the thread that logged it, with
the logged values.

A rejected trace is reported by the properties whose footprint contains the
kind of the first event that no specification action explains.
"""

import copy
import json
import os
import random
import shutil
import tempfile
from concurrent.futures import ThreadPoolExecutor

import pconf
import pipeline
import tlc

CFG = '''SPECIFICATION TSpec
CONSTANTS
  P = %(P)d
  R = %(R)d
  RQ = %(RQ)d
  MaxFaults = 100
  UserMayCancel = TRUE
  Kind = "%(Kind)s"
  NeedHead = %(Head)s
  Src = "%(Src)s"
  UW = %(UW)d
INVARIANT TClausesOK
INVARIANT C12_QueueSlotsConserved
INVARIANT C05_CleanupRegisteredBeforeRun
INVARIANT C17_LocksHeldByAnnouncers
CONSTRAINT Progress
CONSTRAINT NotYetAccepted
POSTCONDITION Final_
CHECK_DEADLOCK FALSE
'''

DL_CFG = '''SPECIFICATION TSpec
CONSTANTS
  N = %(N)d
  R = %(R)d
  RQ = %(RQ)d
  IOQ = %(IOQ)d
  A = %(A)d
  MaxFaults = 100
  UserMayCancel = TRUE
  NeedHead = %(head)s
  HasOld = %(old)s
  Dest = "%(dest)s"
  Single = %(single)s
  W = %(w)d
INVARIANT TClausesOK
INVARIANT C06_M_DestOnlyOldOrComplete
INVARIANT C06_M_NoTempAtDoneEvent
INVARIANT C06_M_RenameOnlyAfterAllWritten
INVARIANT C02_M_SuccessMeansComplete
INVARIANT C12_RequestSlotsConserved
INVARIANT C12_IoSlotsConserved
INVARIANT C11_M_IoQueueBounded
INVARIANT C17_LocksHeldByAnnouncers
INVARIANT C04_M_FinalSubmittedOnce
INVARIANT C16_M_QueuedInOrder
INVARIANT C11_M_WindowBounded
INVARIANT C17_M_DeferLockHeldByFlusher
CONSTRAINT Progress
CONSTRAINT NotYetAccepted
POSTCONDITION Final_
CHECK_DEADLOCK FALSE
'''

# property -> kinds of the first unexplained event it owns
FOOT = {
    'C02': {'BodyRead', 'FsWriteBegin', 'FsWriteEnd'},
    'C03': {'ResultEnd', 'SetExc', 'SetResult', 'BodyFault'},
    'C04': {'ResultEnd', 'ShutdownEnd', 'TaskEnd', 'SubTaskEnd', 'AnnEnd', 'Call', 'Ret',
            'IoTaskEnd'},
    'C05': {'S3Begin', 'S3End', 'AnnBegin'},
    'C06': {'FsOpen', 'FsClose', 'FsRenameBegin', 'FsRenameFault', 'FsRename', 'FsRemove',
            'AnnBegin'},
    'C07': {'UCancelCall', 'CancelBegin', 'CancelEnd', 'UCancelRet', 'S3Begin'},
    'C08': {'CbBegin', 'CbEnd', 'Status', 'AnnBegin', 'AnnEnd'},
    'C10': {'Submit', 'TaskBegin', 'USubmit', 'SubTake', 'IoSubmit', 'IoTaskBegin'},
    'C11': {'IoSubmit', 'IoTaskBegin'},
    'C17': {'Status', 'SetExc', 'SetResult', 'CancelEnd'},
    'C18': {'ShutdownEnd'},
}
# which model's traces a property validates
MODELS = {
    'C02': ('download',), 'C06': ('download',), 'C11': ('download',),
    'C05': ('pipeline',),
    'C03': ('pipeline', 'download'), 'C04': ('pipeline', 'download'),
    'C07': ('pipeline', 'download'), 'C08': ('pipeline', 'download'),
    'C10': ('pipeline', 'download'), 'C17': ('pipeline', 'download'),
    'C18': ('pipeline', 'download'),
}
DL_GEOS = [('dl-path-mp', {}), ('dl-path-mp', {'R': 1, 'IOQ': 1}),
           ('dl-path-mp', {'R': 3, 'RQ': 1, 'IOQ': 2}),
           ('dl-path-mp', {'R': 2, 'IOQ': 1, 'size': 7, 'provide': True}),
           ('dl-path-mp', {'R': 2, 'RQ': 2, 'IOQ': 2, 'size': 4, 'old': False}),
           ('dl-path-mp', {'R': 3, 'IOQ': 1, 'attempts': 2, 'size': 6}),
           ('dl-ns-mp', {}), ('dl-seek-mp', {}),
           ('dl-ns-mp', {'R': 3, 'down_chunks': 1, 'IOQ': 1}),
           ('dl-ns-mp', {'R': 3, 'down_chunks': 3, 'IOQ': 2, 'size': 9}),
           ('dl-seek-mp', {'R': 1, 'IOQ': 1, 'size': 6, 'provide': True}),
           # below the threshold: one GetObject, writes and final task inline
           ('dl-path-1', {'io_chunk': 4}), ('dl-ns-1', {'io_chunk': 4}),
           ('dl-seek-1', {'io_chunk': 4, 'R': 1}), ('dl-path-1', {'io_chunk': 4, 'provide': True, 'old': False})]

GEOS = [('up-path-mp', {}), ('up-path-1', {}), ('delete', {}),
        ('up-path-mp', {'R': 1}), ('up-path-mp', {'R': 3, 'RQ': 1}),
        ('up-path-mp', {'R': 2, 'RQ': 2}), ('up-path-1', {'R': 1, 'RQ': 1}),
        ('delete', {'R': 3, 'RQ': 1}),
        ('up-path-mp', {'R': 2, 'RQ': 1, 'size': 7}), ('up-path-mp', {'R': 3, 'size': 4}),
        ('up-path-mp', {'R': 1, 'RQ': 2, 'size': 9}),
        ('copy-mp', {}), ('copy-1', {}), ('copy-mp', {'R': 1, 'RQ': 1, 'provide': True}),
        ('copy-mp', {'R': 3, 'RQ': 2, 'size': 7}),
        ('up-ns-mp', {}), ('up-seek-mp', {}), ('up-ns-mp', {'R': 3, 'up_chunks': 1, 'size': 7}),
        ('up-seek-mp', {'R': 1, 'RQ': 1, 'up_chunks': 3, 'size': 9})]


def scenarios(name, over, rng, thorough):
    import scenarios as S
    over = dict(over)
    size = over.pop('size', None)
    provide = over.pop('provide', False)
    old = over.pop('old', None)
    sc0 = S.base(name, cfg=over) if over else S.base(name)
    t0 = sc0['transfers'][0]
    if size:
        t0['size'] = size
    if old is not None:
        t0['old'] = old
    if provide:
        t0['subs'] = [{'provide_size': t0['size']}]
    steps, ncalls = S.probe(sc0)
    nrand = 3 if thorough else 1
    jobs = S.det_schedules(sc0, 2 * nrand, rng)
    if t0['kind'] == 'upload' and t0['size'] >= (sc0.get('cfg') or {}).get('threshold', 4):
        for nth in range(1, 5):
            sc = copy.deepcopy(sc0)
            sc['faults'] = [{'on': 'src_read', 'nth': nth, 'x': 0}]
            jobs += S.det_schedules(sc, nrand, rng)
    if t0['kind'] == 'download':
        chunk = (sc0.get('cfg') or {}).get('chunk', 2)
        envf = (('fs_write', 3), ('fs_rename', 1)) if t0.get('dst', 'path') == 'path' \
            else (('dst_write', 3),)
        for on, upto in envf:
            for nth in range(1, upto + 1):
                sc = copy.deepcopy(sc0)
                sc['faults'] = [{'on': on, 'nth': nth, 'x': 0}]
                jobs += S.det_schedules(sc, nrand, rng)
        single = t0['size'] < (sc0.get('cfg') or {}).get('threshold', 4)
        for rs in ([0] if single else range(0, t0['size'], chunk)):
            # (the stream model has one position per part: a part is delivered
            #  whole or not at all, so faults fall before the data or at the EOF read)
            fas = (0, 1) if t0.get('dst', 'path') != 'nonseekable' and not single \
                else (0, t0['size'] if single else chunk)
            plans = [{'attempt': 1, 'fault_after': fa, 'fault': kind}
                     for kind in ('timeout', 'fatal', 'protocol') for fa in fas]
            plans.append({'fault_after': 0, 'fault': 'timeout'})       # every attempt fails
            plans.append({'attempt': 2, 'fault_after': fas[1], 'fault': 'socket'})
            for pl in plans:
                sc = copy.deepcopy(sc0)
                sc['streams'] = [dict(pl, x=0, range_start=rs)]
                if pl.get('attempt') == 2:
                    sc['streams'].insert(0, {'x': 0, 'range_start': rs, 'attempt': 1,
                                             'fault_after': 0, 'fault': 'timeout'})
                jobs += S.det_schedules(sc, 0 if not thorough else 1, rng)
    for q in range(1, ncalls + 2):
        for after in (False, True):
            sc = copy.deepcopy(sc0)
            sc['faults'] = [{'on': 's3', 'seq': q, 'after': after, 'x': 0}]
            jobs += S.det_schedules(sc, nrand, rng)
    sc = copy.deepcopy(sc0)
    sc['faults'] = [{'on': 'on_queued', 'nth': 1, 'x': 0}]
    jobs += S.det_schedules(sc, nrand, rng)
    for g in range(1, steps + 8, 2 if thorough else 4):
        sc = copy.deepcopy(sc0)
        sc['cancel'] = {'how': 'future', 'x': 0, 'gate': g}
        jobs += S.det_schedules(sc, nrand, rng)
    ops = ['DeleteObject'] if name == 'delete' else (
        ['PutObject'] if name == 'up-path-1' else
        ['HeadObject', 'CopyObject'] if name == 'copy-1' else
        ['HeadObject', 'CreateMultipartUpload', 'UploadPartCopy', 'CompleteMultipartUpload',
         'AbortMultipartUpload'] if name == 'copy-mp' else
        ['HeadObject', 'GetObject'] if t0['kind'] == 'download' else
        ['CreateMultipartUpload', 'UploadPart', 'CompleteMultipartUpload', 'AbortMultipartUpload'])
    for op in ops:
        for phase in ('begin', 'end'):
            la = [{'op': op, 'phase': phase, 'nth': 1, 'd': 1.0}]
            plans = [{}] + [{'faults': [{'on': 's3', 'seq': q, 'x': 0}]}
                            for q in range(1, ncalls + 1)]
            plans += [{'cancel': {'how': 'future', 'x': 0, 'gate': g}}
                      for g in range(2, steps + 4, 6)]
            for pl in plans:
                sc = copy.deepcopy(sc0)
                sc['latency'] = la
                sc.update(copy.deepcopy(pl))
                jobs += S.det_schedules(sc, 0, rng)
    # the LAST request fails while a cancel arrives around it (before, during - the
    # request is slow - or after): whichever of the two is recorded first stays
    if t0['kind'] == 'download':
        # (only a download to a path has a final task that can fail: the rename)
        last = [{'on': 'fs_rename', 'nth': 1, 'x': 0}] if t0.get('dst', 'path') == 'path' else None
        la = []
    else:
        last = [{'on': 's3', 'seq': ncalls, 'x': 0}]
        la = [{'op': [o for o in ops if o != 'AbortMultipartUpload'][-1], 'phase': 'begin',
               'nth': 1, 'd': 1.0}]
    for g in (range(2, steps + 6, 2 if thorough else 3) if last else ()):
        sc = copy.deepcopy(sc0)
        sc['faults'] = copy.deepcopy(last)
        sc['cancel'] = {'how': 'future', 'x': 0, 'gate': g}
        if la:
            sc['latency'] = copy.deepcopy(la)
        jobs += S.det_schedules(sc, 0, rng)
    return sc0, jobs


def _run(job):
    import runner
    import world
    sc, chs, jid = job
    try:
        res = runner.run_scenario(sc, pipeline.make_chooser(chs),
                                  max_steps=sc.get('max_steps', 6000))
    except Exception:
        import traceback
        return {'jid': jid, 'error': traceback.format_exc()[-1500:]}
    cfg = dict(world.DEFAULT_CFG)
    cfg.update(sc.get('cfg', {}))
    return {'jid': jid, 'ev': pconf.project(res['events'], cfg['chunk']),
            'failure': res['failure'], 'results': res['results'],
            'thread_errors': res['thread_errors']}


def _work(jobs):
    return [_run(j) for j in jobs]


def validate(traces, geo):
    d = tempfile.mkdtemp(prefix='verif-pconf-')
    try:
        path = os.path.join(d, 'traces.ndjson')
        with open(path, 'w') as f:
            for t in traces:
                f.write(json.dumps(t) + '\n')
        if len(geo) == 7:
            P, R, RQ, kind, head, src, uw = geo
            module, tag = 'Pipeline_Trace', 'PLTRACE '
            cfg = CFG % dict(P=P, R=R, RQ=RQ, Kind=kind, Head='TRUE' if head else 'FALSE',
                             Src=src, UW=uw)
        else:
            N, R, RQ, IOQ, A, head, old, dest, w, single = geo
            module, tag = 'Download_Trace', 'DLTRACE '
            cfg = DL_CFG % dict(N=N, R=R, RQ=RQ, IOQ=IOQ, A=A, head='TRUE' if head else 'FALSE',
                                old='TRUE' if old else 'FALSE', dest=dest, w=w,
                                single='TRUE' if single else 'FALSE')
        r = tlc.run_tlc(module, cfg, workers=1, env={'TRACE_FILE': path}, timeout=3000,
                        dfs_queue=True)
        reached = {}
        for p in r.json_prints(tag):
            j = json.loads(p)
            reached[j['id']] = (j['reached'], j['len'])
        return reached, r
    finally:
        shutil.rmtree(d, ignore_errors=True)


def run(ck, pid, tier, seed):
    if pid not in FOOT:
        return 0
    import world
    thorough = tier == 'thorough'
    rng = random.Random(seed * 7919 + int(pid[1:]) * 13 + 5)
    k = int(pid[1:])
    geos = []
    both = len(MODELS[pid]) == 2
    if 'pipeline' in MODELS[pid]:
        if thorough:
            geos += list(GEOS)
        else:
            # the multipart shape, one of the single-request shapes and a rotating geometry
            extra = GEOS[3:]
            geos += [GEOS[0], GEOS[1 + k % 2]] + ([] if both else [extra[k % len(extra)]])
    if 'download' in MODELS[pid]:
        if thorough:
            geos += DL_GEOS
        else:
            rest = [g for g in DL_GEOS if g not in (DL_GEOS[0], DL_GEOS[6])]
            geos += [DL_GEOS[0] if k % 2 else DL_GEOS[6], rest[k % len(rest)]] + (
                [] if both else [DL_GEOS[6] if k % 2 else DL_GEOS[0]])
    groups = []
    for name, over in geos:
        sc0, jobs = scenarios(name, over, rng, thorough)
        cfg = dict(world.DEFAULT_CFG)
        cfg.update(sc0.get('cfg', {}))
        geo = pconf.geometry(sc0, cfg) or pconf.dl_geometry(sc0, cfg)
        if geo is None:
            ck.machinery_errors.append(f'pipeline-conformance: {name} {over} outside the models')
            continue
        groups.append((geo, jobs))
    alljobs = [(sc, ch, (gi, i)) for gi, (_, jobs) in enumerate(groups)
               for i, (sc, ch) in enumerate(jobs)]
    chunks = [alljobs[i:i + 25] for i in range(0, len(alljobs), 25)]
    runs = []
    for part in pipeline.pool().imap(_work, chunks):
        runs.extend(part)
    errs = [r for r in runs if 'error' in r]
    if errs:
        ck.machinery_errors.append('pipeline-conformance run failed: ' + errs[0]['error'][-600:])
    terr = [r for r in runs if r.get('thread_errors')]
    if terr:
        ck.machinery_errors.append('pipeline-conformance thread error: '
                                   + str(terr[0]['thread_errors'][0][2])[-600:])
    bygroup = {}
    for r in runs:
        if 'ev' in r:
            bygroup.setdefault(r['jid'][0], []).append(r)

    def one(gi):
        geo = groups[gi][0]
        rs = bygroup.get(gi, [])
        return gi, validate([{'id': r['jid'][1], 'ev': r['ev']} for r in rs], geo)
    with ThreadPoolExecutor(max_workers=6) as ex:
        outs = list(ex.map(one, sorted(bygroup)))
    total = 0
    for gi, (reached, r) in outs:
        geo, jobs = groups[gi]
        rs = {x['jid'][1]: x for x in bygroup[gi]}
        if len(geo) == 7:
            label = (f'Pipeline_Trace P={geo[0]} R={geo[1]} RQ={geo[2]} {geo[3]}'
                     f'{"+head" if geo[4] else ""}{" stream UW=%d" % geo[6] if geo[5] == "stream" else ""} '
                     f'x{len(rs)}')
        else:
            label = (f'Download_Trace N={geo[0]} R={geo[1]} RQ={geo[2]} IOQ={geo[3]} A={geo[4]} '
                     f'head={geo[5]} old={geo[6]} dest={geo[7]} W={geo[8]} single={geo[9]} x{len(rs)}')
        ck.add_tlc(label, r, exhaustive=False)
        total += len(rs)
        if r.violated:
            import re
            cex = getattr(r, 'cex_full', r.cex)
            m = re.findall(r'tid = (\d+)', cex)
            fc = re.findall(r'"(C\d\d_\w+)"', cex)
            name = r.violated[0]
            mine = name.startswith(pid + '_') or name == 'TClausesOK' or (
                pid == 'C10' and name.startswith('C12_'))
            if mine:
                ck.violation(pid + '_PipelineStateInvariant:' + name, {
                    'family': 'pipeline-conformance', 'geometry': list(geo),
                    'cex_tail': cex[-2000:]})
            continue
        for i, rr in rs.items():
            rc = reached.get(i)
            if rc is None:
                ck.machinery_errors.append('pipeline-conformance: trace without verdict')
                break
            ck.distinct(['pconf', geo, rr['ev']])
            if rc[0] > rc[1]:
                continue
            ev = rr['ev']
            at = ev[rc[0] - 1] if 0 < rc[0] <= len(ev) else {}
            kind = at.get('k', '')
            owners = [p for p, ks in FOOT.items() if kind in ks] or ['C04']
            if pid not in owners:
                o = ck.coverage.setdefault('other_property_clauses_failed', {})
                key = owners[0] + '_PipelineConformance'
                o[key] = o.get(key, 0) + 1
                continue
            sc, ch = jobs[i]
            ck.violation(pid + '_PipelineConformance', {
                'family': 'pipeline-conformance', 'geometry': list(geo),
                'detail': f'event {rc[0]} of {rc[1]} is not a step of '
                          + ('Pipeline.tla' if len(geo) == 7 else 'Download.tla'),
                'at_event': {k: v for k, v in at.items() if v not in ('', 0)},
                'before': [{k: v for k, v in e.items() if v not in ('', 0, True)}
                           for e in ev[max(0, rc[0] - 7):rc[0] - 1]],
                'faults': sc.get('faults'), 'cancel': (sc.get('cancel') or {}).get('how'),
                'latency': sc.get('latency'), 'results': rr['results']},
                replay={'kind': 'pconf', 'scenario': sc, 'chooser': ch,
                        'geometry': list(geo)})
    ck.coverage['traces_validated_against_impl'] += total
    ck.coverage['evaluations'] += total
    ck.coverage.setdefault('families', {})['pipeline-conformance'] = total
    return total


def replay(rp):
    import runner
    sc, chs, geo = rp['scenario'], rp['chooser'], tuple(rp['geometry'])
    res = runner.run_scenario(sc, pipeline.make_chooser(tuple(chs)),
                              max_steps=sc.get('max_steps', 6000))
    import world
    cfg = dict(world.DEFAULT_CFG)
    cfg.update(sc.get('cfg', {}))
    ev = pconf.project(res['events'], cfg['chunk'])
    reached, r = validate([{'id': 0, 'ev': ev}], geo)
    rc = reached.get(0, (0, len(ev)))
    print('results:', res['results'], 'failure:', res['failure'])
    for i, e in enumerate(ev, 1):
        mark = '  <-- not a step of the specification' if i == rc[0] and rc[0] <= rc[1] else ''
        print(i, {k: v for k, v in e.items() if v not in ('', 0, True)}, mark)
    print('accepted' if rc[0] > rc[1] else f'rejected at event {rc[0]} of {rc[1]}',
          'invariants violated:' + str(r.violated) if r.violated else '')
    return 1 if (rc[0] <= rc[1] or r.violated) else 0
