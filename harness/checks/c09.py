"""C09 - decided by TLC on the end-to-end traces (ObsTrace/Props) and on the
Pipeline model; see checks/pipe.py for the scenario families.  The accounting
component itself (ReadFileChunk) has its own specification, ReadChunk.tla,
whose every transition is replayed into the real class (c09_chunk.py)."""
import json

from checks import pipe


def run(tier, seed):
    extra = None
    try:
        from checks import pipeline_mc
        from checks import c09_chunk

        def extra(ck, t, s):
            pipeline_mc.run(ck, 'C09', t, s)
            c09_chunk.run(ck, t, s)
    except ImportError:
        pass
    return pipe.run('C09', tier, seed, extra=extra)


def replay(path):
    with open(path) as f:
        rp = (json.load(f).get('replay') or {})
    if rp.get('kind') == 'c09-chunk':
        from checks import c09_chunk
        return c09_chunk.replay_file(rp)
    return pipe.replay(path)
