"""C12 at quiescence of end-to-end runs: every semaphore of the manager is
back at full capacity (clause C12_AllPermitsReturned of Props.tla)."""
from checks import pipe


def run(ck, tier, seed):
    pipe.run_e2e(ck, 'C12', tier, seed)
    import pipeline
    pipeline.close_pool()
