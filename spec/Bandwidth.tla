----------------------------- MODULE Bandwidth -----------------------------
(***************************************************************************)
(* s3transfer.bandwidth: LeakyBucket + ConsumptionScheduler +              *)
(* BandwidthRateTracker + BandwidthLimitedStream, in virtual time.         *)
(*                                                                         *)
(* Units.  Time is measured in "byte-times": W = max_rate * t, so that at  *)
(* the limit exactly one byte moves per unit and the time the limit needs  *)
(* for `amt` bytes is `amt`.  All quantities are integers.                 *)
(*                                                                         *)
(* The rate tracker is a float exponential moving average                  *)
(*      cur' = 0.8 * amt/dW + 0.2 * cur                                    *)
(* It is OVER-APPROXIMATED: the model keeps an integer upper bound `ub`    *)
(* of 1000*cur/max and allows every decision of consume() that is          *)
(* consistent with SOME value of cur in [0, ub]:                           *)
(*   admit  is possible only if  first \/ 4*amt <= 5*dW   (cur >= 0)       *)
(*   refuse is possible only if  ~first /\ 800*amt/dW + ub/5 > 1000        *)
(* A request of a token that is already scheduled is always granted.       *)
(* A consumption recorded with dW <= 0 makes the tracked rate infinite     *)
(* for ever (the code returns float('inf') and the average never leaves    *)
(* it): `ub` saturates at Inf.                                             *)
(*                                                                         *)
(* KF_D5 = TRUE models the code as found: a stream that is abandoned while *)
(* scheduled (its transfer failed) never de-registers, so its share stays  *)
(* in total_wait.  FALSE is the intended design.                           *)
(***************************************************************************)
EXTENDS Naturals, Integers, Sequences, FiniteSets, TLC

CONSTANTS Streams,     \* stream names
          Amts,        \* read sizes
          Thr,         \* bytes_threshold of a limited stream
          Late,        \* how late a sleeper may wake up (byte-times)
          MaxW,        \* clock bound (model bound)
          MaxHist,     \* history bound (model bound)
          KF_D5

Inf == 1000000

VARIABLES now,        \* virtual clock W
          lastW,      \* W of the last recorded consumption, -1 = none
          ub,         \* upper bound of 1000*cur/max
          totalWait,  \* ConsumptionScheduler._total_wait (byte-times)
          sched,      \* [stream -> amt] scheduled tokens
          pc,         \* [stream -> "idle" | "sleep" | "gone"]
          dead,       \* [stream -> its transfer failed] (it raises at its next check)
          failAt,     \* [stream -> time at which its transfer failed, -1 = alive]
          wake,       \* [stream -> W at which its sleep ends]
          seen,       \* [stream -> _bytes_seen]
          pend,       \* [stream -> size of the read that is blocked]
          hist,       \* sequence of [w, n, s, kind] : bytes handed to readers
          waits,      \* sequence of [s, w, retry, queued] : refusals (history)
          last

vars == <<now, lastW, ub, totalWait, sched, pc, dead, failAt, wake, seen, pend, hist, waits, last>>

Init ==
    /\ now = 0 /\ lastW = -1 /\ ub = 0 /\ totalWait = 0
    /\ sched = <<>>
    /\ pc = [s \in Streams |-> "idle"]
    /\ dead = [s \in Streams |-> FALSE]
    /\ failAt = [s \in Streams |-> -1]
    /\ wake = [s \in Streams |-> 0]
    /\ seen = [s \in Streams |-> 0]
    /\ pend = [s \in Streams |-> 0]
    /\ hist = <<>> /\ waits = <<>>
    /\ last = [op |-> "init", s |-> "", amt |-> 0, res |-> "", retry |-> 0]

Put(f, k, v) == [x \in DOMAIN f \cup {k} |-> IF x = k THEN v ELSE f[x]]
Drop(f, k) == [x \in DOMAIN f \ {k} |-> f[x]]
CeilDiv(a, b) == (a + b - 1) \div b
Min2(a, b) == IF a < b THEN a ELSE b

First == lastW = -1
Delta == now - lastW
CanAdmit(amt) == IF First THEN TRUE ELSE (Delta > 0 /\ 4 * amt <= 5 * Delta)
CanRefuse(amt) ==
    IF First THEN FALSE
    ELSE IF Delta <= 0 THEN TRUE
    ELSE IF ub >= Inf THEN TRUE
    ELSE CeilDiv(800 * amt, Delta) + CeilDiv(ub, 5) >= 1000   \* (>=: float rounding at the boundary)

Record(amt) ==      \* BandwidthRateTracker.record_consumption_rate
    /\ lastW' = now
    /\ ub' = IF First THEN 0
             ELSE IF Delta <= 0 \/ ub >= Inf THEN Inf
             ELSE Min2(Inf, CeilDiv(800 * amt, Delta) + CeilDiv(ub, 5))

Hist(s, n, kind) ==
    hist' = IF Len(hist) < MaxHist
            THEN Append(hist, [w |-> now, n |-> n, s |-> s, kind |-> kind,
                               c |-> n + (IF hist = <<>> THEN 0 ELSE hist[Len(hist)].c)])
            ELSE hist

\* read() below the threshold: passes without consulting the bucket
Pass(s, amt) ==        \* (also for a failed transfer: the error is only raised on the consume path)
    /\ pc[s] = "idle" /\ seen[s] + amt < Thr
    /\ seen' = [seen EXCEPT ![s] = @ + amt]
    /\ Hist(s, amt, "pass")
    /\ last' = [op |-> "read", s |-> s, amt |-> amt, res |-> "pass", retry |-> 0]
    /\ UNCHANGED <<now, lastW, ub, totalWait, sched, pc, dead, failAt, wake, pend, waits>>

\* read() that reaches the threshold: consume(bytes_seen) admitted
Admit(s, amt) ==
    /\ pc[s] = "idle" /\ seen[s] + amt >= Thr /\ s \notin DOMAIN sched
    /\ CanAdmit(seen[s] + amt)
    /\ Record(seen[s] + amt)
    /\ seen' = [seen EXCEPT ![s] = 0]
    /\ Hist(s, amt, "admit")
    /\ last' = [op |-> "read", s |-> s, amt |-> amt, res |-> "admit", retry |-> 0]
    /\ UNCHANGED <<now, totalWait, sched, pc, dead, failAt, wake, pend, waits>>

\* ... or refused: scheduled, the reader sleeps retry_time = total_wait
LiveQueued == LET RECURSIVE S(_) S(D) == IF D = {} THEN 0 ELSE
                      LET x == CHOOSE x \in D : TRUE IN sched[x] + S(D \ {x})
              IN S({x \in DOMAIN sched : pc[x] = "sleep"})

Refuse(s, amt) ==
    /\ pc[s] = "idle" /\ seen[s] + amt >= Thr /\ s \notin DOMAIN sched
    /\ CanRefuse(seen[s] + amt)
    /\ LET a == seen[s] + amt IN
       /\ totalWait' = totalWait + a
       /\ sched' = Put(sched, s, a)
       /\ pc' = [pc EXCEPT ![s] = "sleep"]
       /\ wake' = [wake EXCEPT ![s] = now + totalWait + a]
       /\ seen' = [seen EXCEPT ![s] = a]     \* bytes_seen is kept until granted
       /\ pend' = [pend EXCEPT ![s] = amt]
       /\ waits' = IF Len(waits) < MaxHist
                   THEN Append(waits, [s |-> s, w |-> now, retry |-> totalWait + a,
                                       queued |-> LiveQueued, own |-> a])
                   ELSE waits
       /\ last' = [op |-> "read", s |-> s, amt |-> amt, res |-> "refuse", retry |-> totalWait + a]
    /\ UNCHANGED <<now, lastW, ub, hist, dead, failAt>>

\* the sleeper wakes (not before its time, at most Late after it) and its
\* scheduled request is granted unconditionally
\* (a stream whose transfer failed is still granted once if the failure came
\*  after its sleep was over, i.e. after its last check of the error; a failure
\*  during the wait must make the read raise instead: C13 "a read of a failed
\*  or cancelled transfer raises that transfer's error instead of waiting on")
Wake(s) ==
    /\ pc[s] = "sleep" /\ now >= wake[s]
    /\ dead[s] => failAt[s] >= wake[s]
    /\ Record(sched[s])
    /\ totalWait' = IF totalWait - sched[s] > 0 THEN totalWait - sched[s] ELSE 0
    /\ sched' = Drop(sched, s)
    /\ pc' = [pc EXCEPT ![s] = "idle"]
    /\ seen' = [seen EXCEPT ![s] = 0]
    /\ Hist(s, pend[s], "granted")
    /\ pend' = [pend EXCEPT ![s] = 0]
    /\ last' = [op |-> "wake", s |-> s, amt |-> sched[s], res |-> "granted", retry |-> 0]
    /\ UNCHANGED <<now, wake, waits, dead, failAt>>

\* the transfer of a stream fails (any time); the stream notices at its next
\* check of the error, i.e. before its next consume attempt
Fail(s) ==
    /\ ~dead[s] /\ pc[s] # "gone"
    /\ dead' = [dead EXCEPT ![s] = TRUE]
    /\ failAt' = [failAt EXCEPT ![s] = now]
    /\ last' = [op |-> "fail", s |-> s, amt |-> 0, res |-> "abandon", retry |-> 0]
    /\ UNCHANGED <<now, lastW, ub, totalWait, sched, pc, wake, seen, pend, hist, waits>>

\* ... and raises instead of consuming / waiting on.  The code leaves a
\* scheduled token behind (KF_D5).
Raise(s) ==
    /\ dead[s] /\ pc[s] \in {"idle", "sleep"}
    /\ pc[s] = "sleep" => now >= wake[s]
    /\ pc' = [pc EXCEPT ![s] = "gone"]
    /\ IF KF_D5 \/ s \notin DOMAIN sched THEN UNCHANGED <<sched, totalWait>>
       ELSE /\ sched' = Drop(sched, s)
            /\ totalWait' = IF totalWait - sched[s] > 0 THEN totalWait - sched[s] ELSE 0
    /\ last' = [op |-> "raise", s |-> s, amt |-> 0, res |-> "raise", retry |-> 0]
    /\ UNCHANGED <<now, lastW, ub, wake, seen, pend, hist, waits, dead, failAt>>

\* time passes; a sleeper is never more than Late overdue
Tick ==
    /\ now < MaxW
    /\ \A s \in Streams : pc[s] = "sleep" => now + 1 <= wake[s] + Late
    /\ now' = now + 1
    /\ last' = [op |-> "tick", s |-> "", amt |-> 0, res |-> "", retry |-> 0]
    /\ UNCHANGED <<lastW, ub, totalWait, sched, pc, dead, failAt, wake, seen, pend, hist, waits>>

Next ==
    \/ Tick
    \/ \E s \in Streams, a \in Amts : Pass(s, a) \/ Admit(s, a) \/ Refuse(s, a)
    \/ \E s \in Streams : Wake(s) \/ Fail(s) \/ Raise(s)

Spec == Init /\ [][Next]_vars

\* ------------------------------------------------------------- properties
RECURSIVE SumN(_, _, _)
SumN(h, i, j) == IF i > j THEN 0 ELSE h[i].n + SumN(h, i + 1, j)
MaxAmt == CHOOSE a \in Amts : \A b \in Amts : a >= b
Burst == 3 * Cardinality(Streams) * (Thr + MaxAmt)

\* bytes moved in any interval (w_i, w_j] are at most 1.25 * max * T + burst
C13_WindowRate125 ==
    \A i, j \in 1..Len(hist) : i < j =>
        4 * (hist[j].c - hist[i].c) <= 5 * (hist[j].w - hist[i].w) + 4 * Burst

\* one wait, no longer than what is queued by live waiters plus the own read
C13_OneWaitBounded ==
    \A k \in 1..Len(waits) : waits[k].retry <= waits[k].queued + waits[k].own

\* the retry time is exactly the scheduler's total (code equation)
C13_RetryIsTotalWait ==
    [][(last'.res = "refuse") => last'.retry = totalWait']_vars

\* traffic below the limit is never delayed: a request whose own rate since
\* the last consumption is at most the limit, while the tracked rate is at
\* most the limit, cannot be refused.  ub is an upper bound of the tracked
\* rate rounded up to 1/1000 of the limit at every update, so the clause is
\* stated with the margin of the two roundings (ub <= 995): inside
\* (995, 1000] the envelope CanRefuse cannot tell the float result.
C13_BelowLimitNeverDelayed ==
    [][(last'.res = "refuse" /\ last' # last) =>
          ~(ub <= 995 /\ lastW >= 0 /\ now - lastW > 0
              /\ seen'[last'.s] <= now - lastW)]_vars

\* a scheduled request is granted at its first retry
C13_GrantedAfterOneWait ==
    [][\A s \in Streams : (pc[s] = "sleep" /\ pc'[s] = "idle") => last'.res = "granted"]_vars

\* the tracked rate never becomes (and then stays) infinite
C13_RateNeverSticksInfinite == ub < Inf

\* scheduler bookkeeping: total_wait is the sum of the scheduled shares
C13_TotalWaitIsSumScheduled ==
    LET RECURSIVE S(_) S(D) == IF D = {} THEN 0 ELSE
            LET x == CHOOSE x \in D : TRUE IN sched[x] + S(D \ {x})
    IN totalWait = S(DOMAIN sched)
=============================================================================
