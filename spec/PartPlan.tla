------------------------------ MODULE PartPlan ------------------------------
(***************************************************************************)
(* Part planning (property C14): the formulas of                           *)
(*   utils.calculate_num_parts, utils.calculate_range_parameter,           *)
(*   utils.ChunksizeAdjuster, upload._get_num_parts,                       *)
(*   copies.CopySubmissionTask (num_parts, _get_transfer_size),            *)
(*   the multipart decision  size >= multipart_threshold                   *)
(* as integer operators, and the theorems the property states about them.  *)
(* The module is parameterised by the S3 limits so that the same text is   *)
(* checked exhaustively on a scaled-down domain (MC_PartPlan) and          *)
(* symbolically at real scale (Apalache, MC_PartPlanApa).                  *)
(***************************************************************************)
EXTENDS Naturals, Integers

CONSTANTS MinPart, MaxPart, MaxParts   \* 5 MiB, 5 GiB, 10 000 (or scaled)

CeilDiv(a, b) == (a + b - 1) \div b

\* calculate_num_parts / _get_num_parts
NumParts(size, part) == CeilDiv(size, part)

\* calculate_range_parameter: byte range of part i (0-based) of n
RangeStart(i, part) == i * part
RangeEndMid(i, part) == i * part + part - 1     \* not the last part
\* the last part's end is open ('') for downloads and total_size - 1 for copies
RangeEndLast(size) == size - 1
\* CopySubmissionTask._get_transfer_size
PartLen(i, n, part, size) == IF i = n - 1 THEN size - i * part ELSE part

Multipart(size, threshold) == size >= threshold

\* ChunksizeAdjuster._adjust_for_max_parts: double until the part count fits
RECURSIVE Doubled(_, _)
Doubled(chunk, size) ==
    IF NumParts(size, chunk) > MaxParts THEN Doubled(2 * chunk, size) ELSE chunk

Clamp(c) == IF c > MaxPart THEN MaxPart ELSE IF c < MinPart THEN MinPart ELSE c

\* adjust_chunksize(current, file_size); size = -1 stands for None
Adjust(chunk, size) == Clamp(IF size >= 0 THEN Doubled(chunk, size) ELSE chunk)

\* ------------------------------------------------------------- theorems
\* the ranges of a ranged transfer are consecutive, start at 0, end at size-1
RangesTile(size, part) ==
    LET n == NumParts(size, part) IN
    /\ (size > 0) => (n >= 1 /\ RangeStart(0, part) = 0)
    /\ \A i \in 0..(n - 2) : RangeEndMid(i, part) + 1 = RangeStart(i + 1, part)
    /\ (n >= 1) => /\ RangeStart(n - 1, part) <= RangeEndLast(size)
                   /\ RangeEndLast(size) - RangeStart(n - 1, part) + 1 <= part
    /\ (size = 0) => n = 0

PartLensSum(size, part) ==
    LET n == NumParts(size, part)
        RECURSIVE S(_)
        S(i) == IF i >= n THEN 0 ELSE PartLen(i, n, part, size) + S(i + 1)
    IN S(0) = size

\* effective part size within the limits, at most MaxParts parts, and the
\* configured size is changed only when a limit requires it
AdjustedWithinLimits(chunk, size) ==
    LET a == Adjust(chunk, size) IN
    /\ MinPart <= a /\ a <= MaxPart
    /\ (size >= 0 /\ size <= MaxPart * MaxParts) => NumParts(size, a) <= MaxParts

ChangedOnlyIfRequired(chunk, size) ==
    (MinPart <= chunk /\ chunk <= MaxPart /\ (size < 0 \/ NumParts(size, chunk) <= MaxParts))
        => Adjust(chunk, size) = chunk
=============================================================================
