"""Shared plumbing of the per-property checks: evidence, findings, verdicts."""

import hashlib
import json
import os
import sys
import time

VERIF = os.path.dirname(os.path.dirname(os.path.abspath(__file__)))
# VERIF_SCRATCH redirects evidence/replays (used only by tools/mutant_matrix.py
# to run several seeded changes side by side; registered commands do not set it)
_OUT = os.environ.get('VERIF_SCRATCH') or VERIF
EVIDENCE = os.path.join(_OUT, 'evidence')
REPLAYS = os.path.join(_OUT, 'replays')
KNOWN = os.path.join(VERIF, 'known_findings.json')


def load_known():
    try:
        with open(KNOWN) as f:
            return json.load(f).get('findings', [])
    except FileNotFoundError:
        return []


def _matches(sig, report):
    """Every key of the finding's signature must equal the report's value
    (lists in the signature mean 'one of')."""
    for k, v in sig.items():
        rv = report.get(k)
        if isinstance(v, list):
            if rv not in v:
                return False
        elif rv != v:
            return False
    return True


class Check:
    def __init__(self, pid, tier, seed, level='model_checking'):
        self.pid = pid
        self.tier = tier
        self.seed = seed
        self.level = level
        self.t0 = time.time()
        self.violations = []      # (clause, report, replay path)
        self.known_hits = {}      # finding id -> count
        self.known_meta = {}
        self.coverage = {
            'states': 0, 'transitions': 0, 'traces_validated_against_impl': 0,
            'samples': [], 'evaluations': 0, 'distinct_nontrivial': 0,
            'rule': '', 'tlc_runs': [],
        }
        self.assumptions = []
        self._distinct = set()
        self.known = [k for k in load_known()
                      if k.get('property') == pid and k.get('status') == 'known']
        self.machinery_errors = []

    # -- bookkeeping ---------------------------------------------------------
    def add_tlc(self, name, r, exhaustive=True):
        self.coverage['states'] += r.distinct
        self.coverage['transitions'] += r.generated
        self.coverage['tlc_runs'].append({
            'model': name, 'distinct_states': r.distinct,
            'states_generated': r.generated, 'depth': r.depth,
            'wall_s': round(r.wall, 2), 'exhaustive': exhaustive,
            'coverage': {k: list(v) for k, v in r.coverage.items()} or None,
        })

    def sample(self, s, limit=6):
        if len(self.coverage['samples']) < limit:
            self.coverage['samples'].append(s)

    def distinct(self, key):
        h = hashlib.sha1(
            json.dumps(key, sort_keys=True, default=str).encode()).hexdigest()
        self._distinct.add(h)

    def require_nonvacuous(self, what, n, floor=1):
        if n < floor:
            self.machinery_errors.append(
                f'vacuous: {what} = {n} (floor {floor})')

    # -- verdicts ---------------------------------------------------------------
    def violation(self, clause, report, replay=None):
        """report: dict describing the failing case (used for matching known
        findings and written to the replay file)."""
        report = dict(report)
        report['clause'] = clause
        for k in self.known:
            if _matches(k.get('signature', {}), report):
                self.known_hits[k['id']] = self.known_hits.get(k['id'], 0) + 1
                self.known_meta[k['id']] = k
                return 'known'
        if len(self.violations) < 50:
            path = self._write_replay(clause, report, replay)
            self.violations.append((clause, report, path))
        else:
            self.violations.append((clause, None, self.violations[0][2]))
        return 'violation'

    def _write_replay(self, clause, report, replay):
        os.makedirs(REPLAYS, exist_ok=True)
        body = {'property': self.pid, 'clause': clause, 'report': report,
                'replay': replay, 'tier': self.tier, 'seed': self.seed}
        h = hashlib.sha1(json.dumps(body, sort_keys=True, default=str)
                         .encode()).hexdigest()[:12]
        path = os.path.join(REPLAYS, f'{self.pid}-{clause}-{h}.json')
        with open(path, 'w') as f:
            json.dump(body, f, indent=1, default=str)
        return path

    def finish(self):
        cov = self.coverage
        cov['distinct_nontrivial'] = max(cov['distinct_nontrivial'],
                                         len(self._distinct))
        wall = time.time() - self.t0
        ev = {
            'property_id': self.pid, 'tier': self.tier, 'seed': self.seed,
            'level': self.level, 'coverage': cov,
            'assumptions': self.assumptions, 'wall_s': round(wall, 2),
            'violations': len(self.violations),
            'known_findings_seen': self.known_hits,
        }
        if self.machinery_errors:
            ev['machinery_errors'] = self.machinery_errors
        os.makedirs(EVIDENCE, exist_ok=True)
        with open(os.path.join(EVIDENCE, f'{self.pid}.json'), 'w') as f:
            json.dump(ev, f, indent=1, default=str)
        for fid, n in sorted(self.known_hits.items()):
            k = self.known_meta[fid]
            print(f"KNOWN-FINDING: property={self.pid} {fid}: "
                  f"{k.get('what', '')} (seen {n}x)")
        if self.machinery_errors:
            for m in self.machinery_errors:
                print(f'MACHINERY-ERROR property={self.pid}: {m}',
                      file=sys.stderr)
            return 2
        if self.violations:
            seen = set()
            for clause, report, path in self.violations:
                if (clause, path) in seen:
                    continue
                seen.add((clause, path))
                print(f'VIOLATION property={self.pid} replay={path} '
                      f'clause={clause}')
                if len(seen) >= 10:
                    break
            return 1
        print(f'OK property={self.pid} tier={self.tier} '
              f'states={cov["states"]} traces={cov["traces_validated_against_impl"]} '
              f'wall={wall:.1f}s')
        return 0
