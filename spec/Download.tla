------------------------------ MODULE Download ------------------------------
(***************************************************************************)
(* The TransferManager's pipeline for ONE ranged download of N parts to a  *)
(* file path (download.py): DownloadSubmissionTask (optional HeadObject,   *)
(* temp file + failure cleanups, one GetObjectTask per range, the          *)
(* CountCallbackInvoker that submits the final IORenameFileTask),          *)
(* GetObjectTask (attempt loop over retryable stream errors, one IO write  *)
(* task per chunk, "stop queueing once the transfer is done"), the IO      *)
(* executor (one thread, queue semaphore IOQ) with IOWriteTask and the     *)
(* final IORenameFileTask, the coordinator with announce_done and its      *)
(* failure cleanups (close + remove the temp file), the user and a         *)
(* cancelling thread.                                                      *)
(*                                                                         *)
(* Same conventions as Pipeline.tla: one action per critical section /     *)
(* blocking point / logged event (event name in brackets), bound to the    *)
(* code by trace/Download_Trace.tla; every environment-visible step also   *)
(* feeds the observable state `o` of Obs.tla, so the clauses of Props.tla  *)
(* (C02, C03, C06, C07, C08, C10, C11 ...) are invariants of this model.   *)
(*                                                                         *)
(* Data: the object has N positions, part i is position i-1 (one chunk of  *)
(* io_chunksize per part: a GET's stream yields the data, then EOF).       *)
(* The file system is modelled (temp file, written positions, destination  *)
(* content), so "the destination is complete after the rename" is a        *)
(* consequence of the design here, not an assumption.                      *)
(***************************************************************************)
EXTENDS Props

CONSTANTS N,            \* number of ranges (>= 1)
          R, RQ,        \* max_request_concurrency, max_request_queue_size
          IOQ,          \* max_io_queue_size
          A,            \* num_download_attempts
          MaxFaults, UserMayCancel,
          NeedHead,     \* the size is not provided: HeadObject first
          HasOld,       \* the destination exists before the download (Dest = "path")
          Single,       \* TRUE: the object is below multipart_threshold (N = 1): one GetObject without
                        \*   Range whose task writes inline and runs the final task as its done callback
          Dest,         \* "path" (temp file + rename) | "seekable" | "nonseekable" (stream: DeferQueue,
                        \*   GetObject tasks throttled by the sliding window of W in-memory chunks)
          W             \* max_in_memory_download_chunks

Workers == {"request-w" \o ToString(i) : i \in 0..(R - 1)}
IOW == "io-w0"
Parts == 1..N
AllPos == 0..(N - 1)
RangeStart(i) == i - 1
FinalT == [k |-> "final", part |-> 0]
WriteT(i) == [k |-> "w", part |-> i]
MetaC == [ cfg |-> [R |-> R, S |-> 1, RQ |-> RQ, SQ |-> 1000, IOQ |-> IOQ, io_chunk |-> 1,
                    attempts |-> A, up_chunks |-> 10, down_chunks |-> W, chunk |-> 1, minp |-> 1, maxp |-> 1000000, maxn |-> 10000,
                    threshold |-> 1],
           xs |-> << [kind |-> "download", size |-> N, dstk |-> Dest, srck |-> "none",
                      hasOld |-> (HasOld /\ Dest = "path"), nsubs |-> 1, provide |-> ~NeedHead, faultFree |-> (MaxFaults = 0),
                      override |-> FALSE, shortsrc |-> FALSE] >> ]

VARIABLES
    status, exc, event,        \* coordinator
    cleanup,                   \* failure cleanups (close, remove temp): "none" | "registered" | "ran"
    cllock, cblock, cbrun,     \* announce_done's two locks, done callbacks taken
    temp, fopen, dest, wr,     \* file system: temp file exists / is open, destination content, positions written
    gst,                       \* [part -> unsub|queued|running|ended|done] state of its GetObjectTask
    rq, rsem,                  \* request executor FIFO and its queue semaphore
    ioq, iosem,                \* io executor FIFO (records) and its queue semaphore
    ioinfl, iofut,             \* io tasks submitted and not yet ended / whose future is not yet finished
    cnt, cntfin,               \* CountCallbackInvoker: count, finalized
    tnext, tlow, trel, gtok,   \* sliding window of the in-memory-download tag: next token, lowest
                               \*   unreleased token, released tokens above it, [part -> its token]
    dnext, dpend, dlock,       \* DeferQueue: next position to flush, positions held back; _io_submit_lock holder
    wpc, wcur, wat, wdel, wchk, wtag,   \* request workers: pc, part, attempt, data delivered, done-check clock, exception
    iopc, iocur, iochk, iotag, \* io worker
    spc, snext,                \* submission thread
    upc, cpc,                  \* user / canceller
    ann,                       \* [thread -> announce_done sub-step]
    faults, seq, clk,
    o

vars == <<status, exc, event, cleanup, cllock, cblock, cbrun, temp, fopen, dest, wr, gst, rq, rsem,
          ioq, iosem, ioinfl, iofut, cnt, cntfin, tnext, tlow, trel, gtok, dnext, dpend, dlock, wpc, wcur, wat, wdel, wchk, wtag,
          iopc, iocur, iochk, iotag, spc, snext, upc, cpc, ann, faults, seq, clk, o>>
coord == <<status, exc>>
locks == <<cllock, cblock, cbrun>>
fs == <<temp, fopen, dest, wr>>
rex == <<gst, rq, rsem>>
iox == <<ioq, iosem, ioinfl, iofut>>
cc == <<cnt, cntfin>>
win == <<tnext, tlow, trel, gtok>>
dq == <<dnext, dpend, dlock>>
NS == Dest = "nonseekable"
wk == <<wpc, wcur, wat, wdel, wchk, wtag>>
iow == <<iopc, iocur, iochk, iotag>>
sb == <<spc, snext>>
us == <<upc, cpc>>

Threads == Workers \cup {IOW, "sub", "user", "canceller"}
IsDoneS(s) == s \in {"success", "failed", "cancelled"}
ReqInFlight == Cardinality({i \in Parts : gst[i] \in {"queued", "running"}})

Init ==
    /\ status = "not-started" /\ exc = "none" /\ event = FALSE /\ cleanup = "none"
    /\ cllock = "" /\ cblock = "" /\ cbrun = FALSE
    /\ temp = FALSE /\ fopen = FALSE /\ wr = {}
    /\ dest = (IF HasOld /\ Dest = "path" THEN "old" ELSE "absent")
    /\ gst = [i \in Parts |-> "unsub"] /\ rq = <<>> /\ rsem = RQ
    /\ ioq = <<>> /\ iosem = IOQ /\ ioinfl = 0 /\ iofut = 0
    /\ cnt = 0 /\ cntfin = FALSE
    /\ tnext = 0 /\ tlow = 0 /\ trel = {} /\ gtok = [i \in Parts |-> -1]
    /\ dnext = 0 /\ dpend = {} /\ dlock = ""
    /\ wpc = [w \in Workers |-> "idle"] /\ wcur = [w \in Workers |-> 0]
    /\ wat = [w \in Workers |-> 0] /\ wdel = [w \in Workers |-> FALSE]
    /\ wchk = [w \in Workers |-> -1] /\ wtag = [w \in Workers |-> ""]
    /\ iopc = [a \in {IOW} \cup Workers |-> "idle"] /\ iocur = [a \in {IOW} \cup Workers |-> FinalT]
    /\ iochk = [a \in {IOW} \cup Workers |-> -1] /\ iotag = [a \in {IOW} \cup Workers |-> ""]
    /\ spc = "wait" /\ snext = 1
    /\ upc = "call" /\ cpc = "idle"
    /\ ann = [t \in Threads |-> ""]
    /\ faults = 0 /\ seq = 0 /\ clk = 0
    /\ o = InitObs(MetaC)

\* ---------------------------------------------------------------- events
\* (time is abstracted to what the properties compare: has the cancel been
\*  linearized yet?  0 = before, 1 = the linearization itself, 2 = after)
Now == IF cpc \in {"announce", "ret", "done"} THEN 2 ELSE 0
Emit(ev) == o' = Apply(o, ev) /\ UNCHANGED clk
Emit2(e1, e2) == o' = Apply(Apply(o, e1), e2) /\ UNCHANGED clk
Emit3(e1, e2, e3) == o' = Apply(Apply(Apply(o, e1), e2), e3) /\ UNCHANGED clk
Quiet == UNCHANGED <<o, clk>>
EvS3Begin(th, op, rs, chk) ==
    [e |-> "S3Begin", seq |-> seq + 1, x |-> 0, op |-> op, uid |-> 0, part |-> 0, rs |-> rs,
     xfer |-> (op = "GetObject"), th |-> th, chk |-> chk, t |-> Now, user |-> FALSE]
EvS3End(op, oc, rs) ==
    [e |-> "S3End", seq |-> seq, x |-> 0, op |-> op, uid |-> 0, oc |-> oc, xfer |-> (op = "GetObject"),
     bs |-> IF op = "GetObject" /\ oc = "ok" THEN rs ELSE -1,
     bl |-> IF op = "GetObject" /\ oc = "ok" THEN 1 ELSE -1,
     bsrc |-> IF op = "GetObject" /\ oc = "ok" THEN "own" ELSE "none", parts |-> <<>>, user |-> FALSE]
EvFault(tag) == [e |-> "Fault", x |-> 0, tag |-> tag, fatal |-> TRUE, user |-> FALSE]
EvCb(ph, cb, flag, st, byUser) ==
    IF ph = "b" THEN [e |-> "CbBegin", cb |-> cb, x |-> 0, sub |-> 1, n |-> 0, flag |-> flag,
                      st |-> st, user |-> byUser]
    ELSE [e |-> "CbEnd", cb |-> cb, x |-> 0, sub |-> 1, user |-> FALSE]
EvFs(kind, chk) == [e |-> "FsEvent", x |-> 0, kind |-> kind, chk |-> chk, user |-> FALSE]
EvSnap(d, t) == [e |-> "Fs", x |-> 0, dest |-> d, temps |-> IF t THEN 1 ELSE 0, user |-> FALSE]
EvSubmit(stage, n) == [e |-> "ExecSubmit", stage |-> stage, inflight |-> n, user |-> FALSE]

\* ---------------------------------------------------------------- coordinator
SetException(e) ==
    IF IsDoneS(status) THEN UNCHANGED <<status, exc>>
    ELSE status' = "failed" /\ exc' = e

Announcing(th) == ann[th] # ""
\* [AnnounceBegin]
AnnBegin(th) ==
    /\ ann[th] = "begin"
    /\ ann' = [ann EXCEPT ![th] = IF status # "success" THEN "cl" ELSE "event"]
    /\ Quiet
    /\ UNCHANGED <<coord, event, cleanup, locks, fs, rex, iox, cc, win, dq, wk, iow, sb, us, faults, seq>>
\* _run_failure_cleanups under _failure_cleanups_lock: close the temp file object, remove the temp file
AnnCleanups(th) ==
    /\ ann[th] = "cl" /\ cllock = ""
    /\ IF cleanup = "registered"
       THEN cleanup' = "ran" /\ cllock' = th /\ ann' = [ann EXCEPT ![th] = "clclose"]
       ELSE UNCHANGED <<cleanup, cllock>> /\ ann' = [ann EXCEPT ![th] = "event"]
    /\ Quiet
    /\ UNCHANGED <<coord, event, cblock, cbrun, fs, rex, iox, cc, win, dq, wk, iow, sb, us, faults, seq>>
\* [FsClose] (nothing happens, and nothing is logged, if the file was never opened)
AnnClose(th) ==
    /\ ann[th] = "clclose"
    /\ IF fopen THEN fopen' = FALSE /\ Emit(EvFs("close", -1)) ELSE UNCHANGED fopen /\ Quiet
    /\ ann' = [ann EXCEPT ![th] = "clremove"]
    /\ UNCHANGED <<coord, event, cleanup, locks, temp, dest, wr, rex, iox, cc, win, dq, wk, iow, sb, us, faults, seq>>
\* [FsRemove]
AnnRemove(th) ==
    /\ ann[th] = "clremove"
    /\ IF temp THEN Emit2(EvFs("remove", -1), EvSnap(dest, FALSE)) ELSE Quiet
    /\ temp' = FALSE /\ cllock' = ""
    /\ ann' = [ann EXCEPT ![th] = "event"]
    /\ UNCHANGED <<coord, event, cleanup, cblock, cbrun, fopen, dest, wr, rex, iox, cc, win, dq, wk, iow, sb, us, faults, seq>>
AnnEvent(th) ==
    /\ ann[th] = "event"
    /\ event' = TRUE
    /\ ann' = [ann EXCEPT ![th] = "cb"]
    /\ Quiet
    /\ UNCHANGED <<coord, cleanup, locks, fs, rex, iox, cc, win, dq, wk, iow, sb, us, faults, seq>>
AnnCbLock(th) ==
    /\ ann[th] = "cb" /\ cblock = ""
    /\ IF cbrun THEN ann' = [ann EXCEPT ![th] = "end"] /\ UNCHANGED <<cblock, cbrun>>
       ELSE cbrun' = TRUE /\ cblock' = th /\ ann' = [ann EXCEPT ![th] = "cbb"]
    /\ Quiet
    /\ UNCHANGED <<coord, event, cleanup, cllock, fs, rex, iox, cc, win, dq, wk, iow, sb, us, faults, seq>>
\* [CbBegin done]
AnnCbBegin(th) ==
    /\ ann[th] = "cbb"
    /\ Emit(EvCb("b", "done", IsDoneS(status), IF status = "success" THEN "success" ELSE "error",
                 th \in {"user", "canceller"}))
    /\ ann' = [ann EXCEPT ![th] = "cbe"]
    /\ UNCHANGED <<coord, event, cleanup, locks, fs, rex, iox, cc, win, dq, wk, iow, sb, us, faults, seq>>
\* [CbEnd done]
AnnCbEnd(th) ==
    /\ ann[th] = "cbe"
    /\ Emit(EvCb("e", "done", TRUE, "", FALSE))
    /\ cblock' = ""
    /\ ann' = [ann EXCEPT ![th] = "end"]
    /\ UNCHANGED <<coord, event, cleanup, cllock, cbrun, fs, rex, iox, cc, win, dq, wk, iow, sb, us, faults, seq>>
\* [AnnounceEnd]
AnnEnd(th) ==
    /\ ann[th] = "end"
    /\ ann' = [ann EXCEPT ![th] = ""]
    /\ Quiet
    /\ UNCHANGED <<coord, event, cleanup, locks, fs, rex, iox, cc, win, dq, wk, iow, sb, us, faults, seq>>

\* ---------------------------------------------------------------- user
\* [Call]
UserCall ==
    /\ upc = "call"
    /\ IF Dest = "path" THEN Emit2([e |-> "Call", x |-> 0, user |-> FALSE], EvSnap(dest, FALSE))
       ELSE Emit([e |-> "Call", x |-> 0, user |-> FALSE])
    /\ upc' = "submit"
    /\ UNCHANGED <<coord, event, cleanup, locks, fs, rex, iox, cc, win, dq, wk, iow, sb, cpc, ann, faults, seq>>
\* [ExecSubmit submission]
UserSubmit ==
    /\ upc = "submit"
    /\ Emit(EvSubmit("submission", 1))
    /\ upc' = "ret" /\ spc' = "start"
    /\ UNCHANGED <<coord, event, cleanup, locks, fs, rex, iox, cc, win, dq, wk, iow, snext, cpc, ann, faults, seq>>
\* [Ret]
UserRet ==
    /\ upc = "ret"
    /\ Emit([e |-> "Ret", x |-> 0, ok |-> TRUE, user |-> FALSE])
    /\ upc' = "result"
    /\ UNCHANGED <<coord, event, cleanup, locks, fs, rex, iox, cc, win, dq, wk, iow, sb, cpc, ann, faults, seq>>
ExcKind(e) == IF e = "none" THEN "" ELSE IF e = "cancel" THEN "cancel"
              ELSE IF e \in {"CBQ", "FSW", "FSR"} THEN "inj"
              ELSE IF e = "retries" THEN "retries" ELSE IF e = "streamfatal" THEN "stream-fatal" ELSE "s3"
ExcTag(e) == IF e \in {"cancel", "none"} THEN "" ELSE IF e = "retries" THEN "timeout"
             ELSE IF e = "streamfatal" THEN "stream-fatal" ELSE e
\* [ResultEnd]
UserResult ==
    /\ upc = "result" /\ event
    /\ Emit([e |-> "ResultEnd", x |-> 0, oc |-> IF exc = "none" THEN "ok" ELSE "raise",
             ek |-> ExcKind(exc), tag |-> ExcTag(exc),
             cls |-> IF exc = "cancel" THEN "CancelledError" ELSE IF exc = "retries" THEN "RetriesExceededError" ELSE "",
             msgok |-> TRUE, user |-> FALSE])
    /\ upc' = "shutdown"
    /\ UNCHANGED <<coord, event, cleanup, locks, fs, rex, iox, cc, win, dq, wk, iow, sb, cpc, ann, faults, seq>>
\* [ShutdownEnd]
UserShutdown ==
    /\ upc = "shutdown"
    /\ \A w \in Workers : wpc[w] = "idle"
    /\ \A a \in {IOW} \cup Workers : iopc[a] = "idle"
    /\ rq = <<>> /\ ioq = <<>> /\ spc = "end"
    /\ Emit2([e |-> "DoneFlip", x |-> 0, done |-> IsDoneS(status), user |-> FALSE],
             [e |-> "ShutdownEnd", user |-> FALSE])
    /\ upc' = "end"
    /\ UNCHANGED <<coord, event, cleanup, locks, fs, rex, iox, cc, win, dq, wk, iow, sb, cpc, ann, faults, seq>>

\* [CancelCall]
UCancelCall ==
    /\ UserMayCancel /\ cpc = "idle" /\ upc \in {"result", "shutdown", "end"}
    /\ Emit([e |-> "CancelCall", how |-> "future", x |-> 0, user |-> FALSE])
    /\ cpc' = "begin"
    /\ UNCHANGED <<coord, event, cleanup, locks, fs, rex, iox, cc, win, dq, wk, iow, sb, upc, ann, faults, seq>>
\* [CancelBegin]
CancelBegin ==
    /\ cpc = "begin"
    /\ Emit([e |-> "CancelCall", how |-> "future", x |-> 0, user |-> FALSE])
    /\ cpc' = "lin"
    /\ UNCHANGED <<coord, event, cleanup, locks, fs, rex, iox, cc, win, dq, wk, iow, sb, upc, ann, faults, seq>>
\* [CancelEnd]
CancelLin ==
    /\ cpc = "lin"
    /\ LET wasNS == status = "not-started" IN
       /\ IF IsDoneS(status) THEN UNCHANGED <<status, exc>>
          ELSE status' = "cancelled" /\ exc' = "cancel"
       /\ Emit([e |-> "CancelRet", how |-> "future", x |-> 0, ok |-> TRUE, t |-> 1, user |-> FALSE])
       /\ cpc' = IF wasNS THEN "announce" ELSE "ret"
       /\ ann' = IF wasNS THEN [ann EXCEPT !["canceller"] = "begin"] ELSE ann
    /\ UNCHANGED <<event, cleanup, locks, fs, rex, iox, cc, win, dq, wk, iow, sb, upc, faults, seq>>
\* [CancelRet]
UCancelRet ==
    /\ cpc \in {"announce", "ret"} /\ ~Announcing("canceller")
    /\ Emit([e |-> "CancelRet", how |-> "future", x |-> 0, ok |-> TRUE, t |-> 1, user |-> FALSE])
    /\ cpc' = "done"
    /\ UNCHANGED <<coord, event, cleanup, locks, fs, rex, iox, cc, win, dq, wk, iow, sb, upc, ann, faults, seq>>

\* ---------------------------------------------------------------- submission task
\* [TaskBegin submission]
SubTake ==
    /\ spc = "start" /\ spc' = "check" /\ Quiet
    /\ UNCHANGED <<coord, event, cleanup, locks, fs, rex, iox, cc, win, dq, wk, iow, snext, us, ann, faults, seq>>
SubCheck ==
    /\ spc = "check"
    /\ spc' = IF IsDoneS(status) THEN "tend" ELSE "queued"
    /\ Quiet
    /\ UNCHANGED <<coord, event, cleanup, locks, fs, rex, iox, cc, win, dq, wk, iow, snext, us, ann, faults, seq>>
\* [Status]
SubQueued ==
    /\ spc = "queued"
    /\ IF IsDoneS(status) THEN spc' = "fail" /\ UNCHANGED status
       ELSE status' = "queued" /\ spc' = "onqb"
    /\ Emit([e |-> "Status", x |-> 0, st |-> status', user |-> FALSE])
    /\ UNCHANGED <<exc, event, cleanup, locks, fs, rex, iox, cc, win, dq, wk, iow, snext, us, ann, faults, seq>>
\* [CbBegin queued]
SubOnQueuedBegin ==
    /\ spc = "onqb"
    /\ Emit(EvCb("b", "queued", TRUE, "", FALSE))
    /\ spc' = "onqe"
    /\ UNCHANGED <<coord, event, cleanup, locks, fs, rex, iox, cc, win, dq, wk, iow, snext, us, ann, faults, seq>>
\* [CbEnd queued]
SubOnQueuedEnd(ok) ==
    /\ spc = "onqe"
    /\ IF ok THEN /\ spc' = "running" /\ UNCHANGED faults
                  /\ Emit(EvCb("e", "queued", TRUE, "", FALSE))
       ELSE /\ faults < MaxFaults /\ faults' = faults + 1
            /\ Emit2(EvFault("CBQ"), EvCb("e", "queued", TRUE, "", FALSE))
            /\ spc' = "failtag"
    /\ UNCHANGED <<coord, event, cleanup, locks, fs, rex, iox, cc, win, dq, wk, iow, snext, us, ann, seq>>
\* [Status]
SubRunning ==
    /\ spc = "running"
    /\ IF IsDoneS(status) THEN spc' = "fail" /\ UNCHANGED status
       ELSE status' = "running" /\ spc' = IF NeedHead THEN "headB" ELSE "setup"
    /\ Emit([e |-> "Status", x |-> 0, st |-> status', user |-> FALSE])
    /\ UNCHANGED <<exc, event, cleanup, locks, fs, rex, iox, cc, win, dq, wk, iow, snext, us, ann, faults, seq>>
\* [S3Begin HeadObject]
SubHeadBegin ==
    /\ spc = "headB"
    /\ Emit(EvS3Begin("sub", "HeadObject", -1, -1))
    /\ seq' = seq + 1 /\ spc' = "headE"
    /\ UNCHANGED <<coord, event, cleanup, locks, fs, rex, iox, cc, win, dq, wk, iow, snext, us, ann, faults>>
\* [S3End HeadObject]
SubHeadEnd(oc) ==
    /\ spc = "headE"
    /\ (oc # "ok") => faults < MaxFaults
    /\ faults' = IF oc = "ok" THEN faults ELSE faults + 1
    /\ IF oc = "ok" THEN Emit(EvS3End("HeadObject", "ok", -1)) /\ spc' = "setup"
       ELSE Emit2(EvFault("F" \o ToString(seq)), EvS3End("HeadObject", oc, -1)) /\ spc' = "failhead"
    /\ UNCHANGED <<coord, event, cleanup, locks, fs, rex, iox, cc, win, dq, wk, iow, snext, us, ann, seq>>
\* get_fileobj_for_io_writes: the deferred temp file object and the two failure
\* cleanups (close it, remove the temp file) are registered before any request
SubSetup ==
    /\ spc = "setup" /\ cllock = ""
    /\ cleanup' = IF cleanup = "none" /\ Dest = "path" THEN "registered" ELSE cleanup
    /\ spc' = "submit" /\ Quiet
    /\ UNCHANGED <<coord, event, locks, fs, rex, iox, cc, win, dq, wk, iow, snext, us, ann, faults, seq>>
\* [ExecSubmit request] counter.increment(); BoundedExecutor.submit
\* (a stream destination: the tag's sliding-window semaphore takes the place of
\*  the queue semaphore - at most W parts beyond the lowest unfinished one)
SubSubmit ==
    /\ spc = "submit" /\ snext <= N
    /\ IF NS THEN /\ tnext - tlow < W
                  /\ tnext' = tnext + 1 /\ gtok' = [gtok EXCEPT ![snext] = tnext]
                  /\ UNCHANGED <<rsem, tlow, trel>>
       ELSE rsem > 0 /\ rsem' = rsem - 1 /\ UNCHANGED win
    /\ cnt' = (IF Single THEN cnt ELSE cnt + 1) /\ UNCHANGED cntfin
    /\ rq' = Append(rq, snext)
    /\ gst' = [gst EXCEPT ![snext] = "queued"]
    /\ snext' = snext + 1
    /\ Emit(EvSubmit("request", ReqInFlight + 1))
    /\ UNCHANGED <<coord, event, cleanup, locks, fs, iox, dq, wk, iow, spc, us, ann, faults, seq>>
\* counter.finalize(): the final task is submitted here if every range is already accounted for
SubFinalize ==
    /\ spc = "submit" /\ snext > N
    /\ cntfin' = ~Single /\ UNCHANGED cnt
    /\ spc' = IF cnt = 0 /\ ~Single THEN "subfinal" ELSE "tend"
    /\ Quiet
    /\ UNCHANGED <<coord, event, cleanup, locks, fs, rex, iox, win, dq, wk, iow, snext, us, ann, faults, seq>>
\* [ExecSubmit io IORenameFileTask / CompleteDownloadNOOPTask]
SubFinalSubmit ==
    /\ spc = "subfinal" /\ iosem > 0
    /\ iosem' = iosem - 1 /\ ioq' = Append(ioq, FinalT)
    /\ ioinfl' = ioinfl + 1 /\ iofut' = iofut + 1
    /\ Emit(EvSubmit("io", ioinfl + 1))
    /\ spc' = "tend"
    /\ UNCHANGED <<coord, event, cleanup, locks, fs, rex, cc, win, dq, wk, iow, snext, us, ann, faults, seq>>
\* [SetExc] exception path of _main
SubFail ==
    /\ spc \in {"fail", "failtag", "failhead"}
    /\ SetException(IF spc = "failtag" THEN "CBQ" ELSE IF spc = "failhead" THEN "F" \o ToString(seq) ELSE "RuntimeError")
    /\ spc' = "failwait" /\ Quiet
    /\ UNCHANGED <<event, cleanup, locks, fs, rex, iox, cc, win, dq, wk, iow, snext, us, ann, faults, seq>>
\* wait for every submitted future (request and io), then announce
SubFailWait ==
    /\ spc = "failwait"
    /\ \A i \in Parts : gst[i] \in {"unsub", "done"}
    /\ iofut = 0
    /\ spc' = "failann" /\ ann' = [ann EXCEPT !["sub"] = "begin"] /\ Quiet
    /\ UNCHANGED <<coord, event, cleanup, locks, fs, rex, iox, cc, win, dq, wk, iow, snext, us, faults, seq>>
SubFailDone ==
    /\ spc = "failann" /\ ~Announcing("sub")
    /\ spc' = "tend" /\ Quiet
    /\ UNCHANGED <<coord, event, cleanup, locks, fs, rex, iox, cc, win, dq, wk, iow, snext, us, ann, faults, seq>>
\* [TaskEnd submission]
SubTaskEnd ==
    /\ spc = "tend" /\ spc' = "end" /\ Quiet
    /\ UNCHANGED <<coord, event, cleanup, locks, fs, rex, iox, cc, win, dq, wk, iow, snext, us, ann, faults, seq>>

\* ---------------------------------------------------------------- request workers: GetObjectTask
\* [TaskBegin request]
WTake(w) ==
    /\ wpc[w] = "idle" /\ rq # <<>>
    /\ rq' = Tail(rq)
    /\ wcur' = [wcur EXCEPT ![w] = Head(rq)]
    /\ gst' = [gst EXCEPT ![Head(rq)] = "running"]
    /\ wpc' = [wpc EXCEPT ![w] = "check"]
    /\ wat' = [wat EXCEPT ![w] = 1] /\ wdel' = [wdel EXCEPT ![w] = FALSE]
    /\ Quiet
    /\ UNCHANGED <<coord, event, cleanup, locks, fs, rsem, iox, cc, win, dq, wchk, wtag, iow, sb, us, ann, faults, seq>>
\* Task.__call__: skip _main if the transfer is done
WCheck(w) ==
    /\ wpc[w] = "check"
    /\ wpc' = [wpc EXCEPT ![w] = IF IsDoneS(status) THEN "cb" ELSE "get"]
    /\ wchk' = [wchk EXCEPT ![w] = Now]
    /\ Quiet
    /\ UNCHANGED <<coord, event, cleanup, locks, fs, rex, iox, cc, win, dq, wcur, wat, wdel, wtag, iow, sb, us, ann, faults, seq>>
\* [S3Begin GetObject]
WGetBegin(w) ==
    /\ wpc[w] = "get"
    /\ Emit(EvS3Begin(w, "GetObject", RangeStart(wcur[w]), wchk[w]))
    /\ seq' = seq + 1
    /\ wpc' = [wpc EXCEPT ![w] = "inflight"] /\ wdel' = [wdel EXCEPT ![w] = FALSE]
    /\ UNCHANGED <<coord, event, cleanup, locks, fs, rex, iox, cc, win, dq, wcur, wat, wchk, wtag, iow, sb, us, ann, faults>>
\* [S3End GetObject]: a request-level failure is not retried by the task
WGetEnd(w, oc) ==
    /\ wpc[w] = "inflight"
    /\ (oc # "ok") => faults < MaxFaults
    /\ faults' = IF oc = "ok" THEN faults ELSE faults + 1
    /\ IF oc = "ok"
       THEN /\ Emit(EvS3End("GetObject", "ok", RangeStart(wcur[w])))
            /\ wpc' = [wpc EXCEPT ![w] = "read"] /\ UNCHANGED wtag
       ELSE /\ Emit2(EvFault("F" \o ToString(seq)), EvS3End("GetObject", oc, RangeStart(wcur[w])))
            /\ wpc' = [wpc EXCEPT ![w] = "exc"]
            /\ wtag' = [wtag EXCEPT ![w] = "F" \o ToString(seq)]
    /\ UNCHANGED <<coord, event, cleanup, locks, fs, rex, iox, cc, win, dq, wcur, wat, wdel, wchk, iow, sb, us, ann, seq>>
\* [BodyRead] the stream yields the part's data, or (after the data) EOF
WReadData(w) ==
    /\ wpc[w] = "read" /\ ~wdel[w]
    /\ Emit([e |-> "BodyRead", seq |-> seq, x |-> 0, rs |-> RangeStart(wcur[w]),
             off |-> RangeStart(wcur[w]), len |-> 1, user |-> FALSE])
    /\ wdel' = [wdel EXCEPT ![w] = TRUE]
    /\ wpc' = [wpc EXCEPT ![w] = "hand"]
    /\ UNCHANGED <<coord, event, cleanup, locks, fs, rex, iox, cc, win, dq, wcur, wat, wchk, wtag, iow, sb, us, ann, faults, seq>>
WReadEOF(w) ==
    /\ wpc[w] = "read" /\ wdel[w]
    /\ Emit([e |-> "BodyRead", seq |-> seq, x |-> 0, rs |-> RangeStart(wcur[w]),
             off |-> RangeStart(wcur[w]) + 1, len |-> 0, user |-> FALSE])
    /\ wpc' = [wpc EXCEPT ![w] = "cb"]
    /\ UNCHANGED <<coord, event, cleanup, locks, fs, rex, iox, cc, win, dq, wcur, wat, wdel, wchk, wtag, iow, sb, us, ann, faults, seq>>
\* [BodyFault] a read raises: retryable (next attempt, or RetriesExceededError) or not
WReadFault(w, retryable) ==
    /\ wpc[w] = "read" /\ faults < MaxFaults
    /\ faults' = faults + 1
    /\ Emit([e |-> "BodyFault", seq |-> seq, x |-> 0, rs |-> RangeStart(wcur[w]),
             kind |-> IF retryable THEN "timeout" ELSE "fatal", retryable |-> retryable, user |-> FALSE])
    /\ IF retryable /\ wat[w] < A
       THEN wpc' = [wpc EXCEPT ![w] = "get"] /\ wat' = [wat EXCEPT ![w] = @ + 1] /\ UNCHANGED wtag
       ELSE /\ wpc' = [wpc EXCEPT ![w] = "exc"] /\ UNCHANGED wat
            /\ wtag' = [wtag EXCEPT ![w] = IF retryable THEN "retries" ELSE "streamfatal"]
    /\ UNCHANGED <<coord, event, cleanup, locks, fs, rex, iox, cc, win, dq, wcur, wdel, wchk, iow, sb, us, ann, seq>>
\* "if not self._transfer_coordinator.done(): queue the write, else return"
WHand(w) ==
    /\ wpc[w] = "hand"
    /\ wpc' = [wpc EXCEPT ![w] = IF IsDoneS(status) THEN "cb" ELSE IF NS THEN "dlock"
                                  ELSE IF Single THEN "inline" ELSE "iosubmit"]
    /\ IF ~IsDoneS(status) /\ ~NS /\ Single
       THEN iocur' = [iocur EXCEPT ![w] = WriteT(wcur[w])] /\ iopc' = [iopc EXCEPT ![w] = "check"]
       ELSE UNCHANGED <<iocur, iopc>>
    /\ Quiet
    /\ UNCHANGED <<coord, event, cleanup, locks, fs, rex, iox, cc, win, dq, wcur, wat, wdel, wchk, wtag, iochk, iotag, sb, us, ann, faults, seq>>
\* [ExecSubmit io IOWriteTask] blocks while the io queue is full
WIoSubmit(w) ==
    /\ wpc[w] = "iosubmit" /\ iosem > 0
    /\ iosem' = iosem - 1 /\ ioq' = Append(ioq, WriteT(wcur[w]))
    /\ ioinfl' = ioinfl + 1 /\ iofut' = iofut + 1
    /\ Emit(EvSubmit("io", ioinfl + 1))
    /\ wpc' = [wpc EXCEPT ![w] = "read"]
    /\ UNCHANGED <<coord, event, cleanup, locks, fs, rex, cc, win, dq, wcur, wat, wdel, wchk, wtag, iow, sb, us, ann, faults, seq>>
\* DownloadNonSeekableOutputManager.queue_file_io_task: under _io_submit_lock the
\* DeferQueue takes the chunk (data already flushed or already held is dropped) ...
WDeferLock(w) ==
    /\ wpc[w] = "dlock" /\ dlock = ""
    /\ dlock' = w
    /\ LET p == RangeStart(wcur[w]) IN
       dpend' = IF p < dnext \/ p \in dpend THEN dpend ELSE dpend \cup {p}
    /\ UNCHANGED dnext
    /\ wpc' = [wpc EXCEPT ![w] = "flush"] /\ Quiet
    /\ UNCHANGED <<coord, event, cleanup, locks, fs, rex, iox, cc, win, wcur, wat, wdel, wchk, wtag, iow, sb, us, ann, faults, seq>>
\* ... [ExecSubmit io IOStreamingWriteTask] and every write that is now contiguous is
\* queued, in order, still under the lock (blocking while the io queue is full) ...
WDeferFlush(w) ==
    /\ ~Single /\ wpc[w] = "flush" /\ dnext \in dpend /\ iosem > 0
    /\ iosem' = iosem - 1 /\ ioq' = Append(ioq, WriteT(dnext + 1))
    /\ ioinfl' = ioinfl + 1 /\ iofut' = iofut + 1
    /\ dpend' = dpend \ {dnext} /\ dnext' = dnext + 1 /\ UNCHANGED dlock
    /\ Emit(EvSubmit("io", ioinfl + 1))
    /\ UNCHANGED <<coord, event, cleanup, locks, fs, rex, cc, win, wk, iow, sb, us, ann, faults, seq>>
\* ... then the lock is released
\* (single-request mode: get_io_write_tasks_for_immediate_write returns the write tasks,
\*  releases the lock, and the caller runs them inline)
WDeferTakeInline(w) ==
    /\ Single /\ wpc[w] = "flush" /\ dnext \in dpend
    /\ dpend' = dpend \ {dnext} /\ dnext' = dnext + 1 /\ dlock' = ""
    /\ iocur' = [iocur EXCEPT ![w] = WriteT(dnext + 1)] /\ iopc' = [iopc EXCEPT ![w] = "check"]
    /\ wpc' = [wpc EXCEPT ![w] = "inline"] /\ Quiet
    /\ UNCHANGED <<coord, event, cleanup, locks, fs, rex, iox, cc, win, wcur, wat, wdel, wchk, wtag, iochk, iotag, sb, us, ann, faults, seq>>
WDeferUnlock(w) ==
    /\ wpc[w] = "flush" /\ dnext \notin dpend
    /\ dlock' = "" /\ UNCHANGED <<dnext, dpend>>
    /\ wpc' = [wpc EXCEPT ![w] = "read"] /\ Quiet
    /\ UNCHANGED <<coord, event, cleanup, locks, fs, rex, iox, cc, win, wcur, wat, wdel, wchk, wtag, iow, sb, us, ann, faults, seq>>
\* [SetExc]
WExc(w) ==
    /\ wpc[w] = "exc"
    /\ SetException(wtag[w])
    /\ wpc' = [wpc EXCEPT ![w] = "cb"] /\ Quiet
    /\ UNCHANGED <<event, cleanup, locks, fs, rex, iox, cc, win, dq, wcur, wat, wdel, wchk, wtag, iow, sb, us, ann, faults, seq>>
\* finally: the task's done callback decrements the counter ...
WDecr(w) ==
    /\ ~Single /\ wpc[w] = "cb"
    /\ cnt' = cnt - 1 /\ UNCHANGED cntfin
    /\ wpc' = [wpc EXCEPT ![w] = IF cntfin /\ cnt = 1 THEN "subfinal" ELSE "tend"]
    /\ Quiet
    /\ UNCHANGED <<coord, event, cleanup, locks, fs, rex, iox, win, dq, wcur, wat, wdel, wchk, wtag, iow, sb, us, ann, faults, seq>>
\* (single-request mode: the done callback IS the final task; it runs inline)
WFinalInline(w) ==
    /\ Single /\ wpc[w] = "cb"
    /\ iocur' = [iocur EXCEPT ![w] = FinalT] /\ iopc' = [iopc EXCEPT ![w] = "check"]
    /\ wpc' = [wpc EXCEPT ![w] = "inline"] /\ Quiet
    /\ UNCHANGED <<coord, event, cleanup, locks, fs, rex, iox, cc, win, dq, wcur, wat, wdel, wchk, wtag, iochk, iotag, sb, us, ann, faults, seq>>
\* ... [ExecSubmit io IORenameFileTask / CompleteDownloadNOOPTask] and the last one submits the final task
WFinalSubmit(w) ==
    /\ wpc[w] = "subfinal" /\ iosem > 0
    /\ iosem' = iosem - 1 /\ ioq' = Append(ioq, FinalT)
    /\ ioinfl' = ioinfl + 1 /\ iofut' = iofut + 1
    /\ Emit(EvSubmit("io", ioinfl + 1))
    /\ wpc' = [wpc EXCEPT ![w] = "tend"]
    /\ UNCHANGED <<coord, event, cleanup, locks, fs, rex, cc, win, dq, wcur, wat, wdel, wchk, wtag, iow, sb, us, ann, faults, seq>>
\* [TaskEnd request]
WTaskEnd(w) ==
    /\ wpc[w] = "tend"
    /\ gst' = [gst EXCEPT ![wcur[w]] = "ended"]
    /\ wpc' = [wpc EXCEPT ![w] = "finish"] /\ Quiet
    /\ UNCHANGED <<coord, event, cleanup, locks, fs, rq, rsem, iox, cc, win, dq, wcur, wat, wdel, wchk, wtag, iow, sb, us, ann, faults, seq>>
WFinish(w) ==
    /\ wpc[w] = "finish"
    /\ gst' = [gst EXCEPT ![wcur[w]] = "done"]
    /\ wpc' = [wpc EXCEPT ![w] = "release"] /\ Quiet
    /\ UNCHANGED <<coord, event, cleanup, locks, fs, rq, rsem, iox, cc, win, dq, wcur, wat, wdel, wchk, wtag, iow, sb, us, ann, faults, seq>>
\* (sliding window: capacity comes back only when the lowest outstanding token is released)
RECURSIVE LowAfter(_, _)
LowAfter(low, rel) == IF low \in rel THEN LowAfter(low + 1, rel) ELSE low
WRelease(w) ==
    /\ wpc[w] = "release"
    /\ IF NS THEN LET rel == trel \cup {gtok[wcur[w]]} IN
                  /\ tlow' = LowAfter(tlow, rel)
                  /\ trel' = {t \in rel : t >= LowAfter(tlow, rel)}
                  /\ UNCHANGED <<rsem, tnext, gtok>>
       ELSE rsem' = rsem + 1 /\ UNCHANGED win
    /\ wpc' = [wpc EXCEPT ![w] = "idle"] /\ Quiet
    /\ UNCHANGED <<coord, event, cleanup, locks, fs, gst, rq, iox, cc, dq, wcur, wat, wdel, wchk, wtag, iow, sb, us, ann, faults, seq>>

\* ---------------------------------------------------------------- io tasks
\* An io task (IOWriteTask / IOStreamingWriteTask / the final IORenameFileTask or
\* CompleteDownloadNOOPTask) is run by an *actor*: the io worker thread for the
\* tasks queued on the io executor (ranged mode), or the request worker itself
\* for the tasks a single-request download runs inline
\* (ImmediatelyWriteIOGetObjectTask calls its write tasks, and the final task
\* is the GetObject task's done callback).
Actors == {IOW} \cup Workers
SetPc(a, v) == iopc' = [iopc EXCEPT ![a] = v]
\* [TaskBegin io]
IOTake ==
    /\ iopc[IOW] = "idle" /\ ioq # <<>>
    /\ ioq' = Tail(ioq) /\ iocur' = [iocur EXCEPT ![IOW] = Head(ioq)]
    /\ SetPc(IOW, "check")
    /\ Emit([e |-> "IoTask", ph |-> "b", user |-> FALSE])
    /\ UNCHANGED <<coord, event, cleanup, locks, fs, rex, iosem, ioinfl, iofut, cc, win, dq, wk, iochk, iotag, sb, us, ann, faults, seq>>
\* Task.__call__: skip _main if the transfer is done
IOCheck(a) ==
    /\ iopc[a] = "check"
    /\ SetPc(a, IF IsDoneS(status) THEN (IF iocur[a].k = "final" THEN "fin" ELSE "tend")
                ELSE IF iocur[a].k = "final" THEN (IF Dest = "path" THEN "close" ELSE "setres")
                ELSE IF fopen \/ Dest # "path" THEN "wb" ELSE "open")
    /\ iochk' = [iochk EXCEPT ![a] = Now]
    /\ Quiet
    /\ UNCHANGED <<coord, event, cleanup, locks, fs, rex, iox, cc, win, dq, wk, iocur, iotag, sb, us, ann, faults, seq>>
\* [FsOpen] the deferred file is opened by the first write
IOOpen(a) ==
    /\ iopc[a] = "open"
    /\ temp' = TRUE /\ fopen' = TRUE
    /\ Emit2(EvFs("open", iochk[a]), EvSnap(dest, TRUE))
    /\ SetPc(a, "wb")
    /\ UNCHANGED <<coord, event, cleanup, locks, dest, wr, rex, iox, cc, win, dq, wk, iocur, iochk, iotag, sb, us, ann, faults, seq>>
\* [FsWriteBegin]
IOWriteBegin(a) ==
    /\ iopc[a] = "wb"
    /\ Emit([e |-> "DstWriteBegin", x |-> 0, len |-> 1, user |-> FALSE])
    /\ SetPc(a, "we")
    /\ UNCHANGED <<coord, event, cleanup, locks, fs, rex, iox, cc, win, dq, wk, iocur, iochk, iotag, sb, us, ann, faults, seq>>
\* [FsWriteEnd]
IOWriteEnd(a, ok) ==
    /\ iopc[a] = "we"
    /\ LET p == RangeStart(iocur[a].part) IN
       IF ok THEN /\ wr' = wr \cup {p} /\ UNCHANGED <<faults, iotag>>
                  /\ Emit([e |-> "DstWrite", x |-> 0, ok |-> TRUE, off |-> p, len |-> 1, src |-> p, user |-> FALSE])
                  /\ SetPc(a, "tend")
       ELSE /\ faults < MaxFaults /\ faults' = faults + 1 /\ UNCHANGED wr
            /\ Emit2(EvFault("FSW"), [e |-> "DstWrite", x |-> 0, ok |-> FALSE, off |-> -1, len |-> 0, src |-> -1, user |-> FALSE])
            /\ SetPc(a, "exc") /\ iotag' = [iotag EXCEPT ![a] = "FSW"]
    /\ UNCHANGED <<coord, event, cleanup, locks, temp, fopen, dest, rex, iox, cc, win, dq, wk, iocur, iochk, sb, us, ann, seq>>
\* IORenameFileTask._main                                   [FsClose]
IOClose(a) ==
    /\ iopc[a] = "close"
    /\ IF fopen THEN fopen' = FALSE /\ Emit(EvFs("close", iochk[a])) ELSE UNCHANGED fopen /\ Quiet
    /\ SetPc(a, "renB")
    /\ UNCHANGED <<coord, event, cleanup, locks, temp, dest, wr, rex, iox, cc, win, dq, wk, iocur, iochk, iotag, sb, us, ann, faults, seq>>
\* [FsRenameBegin]
IORenameBegin(a) ==
    /\ iopc[a] = "renB"
    /\ Emit(EvFs("rename", iochk[a]))
    /\ SetPc(a, "renE")
    /\ UNCHANGED <<coord, event, cleanup, locks, fs, rex, iox, cc, win, dq, wk, iocur, iochk, iotag, sb, us, ann, faults, seq>>
\* the rename fails (nothing was renamed)                    [FaultInjected fs_rename]
IORenameFault(a) ==
    /\ iopc[a] = "renB" /\ faults < MaxFaults
    /\ faults' = faults + 1
    /\ Emit(EvFault("FSR")) /\ SetPc(a, "exc") /\ iotag' = [iotag EXCEPT ![a] = "FSR"]
    /\ UNCHANGED <<coord, event, cleanup, locks, fs, rex, iox, cc, win, dq, wk, iocur, iochk, sb, us, ann, seq>>
\* [FsRename] the temp file becomes the destination
IORenameEnd(a) ==
    /\ iopc[a] = "renE"
    /\ temp /\ temp' = FALSE
    /\ dest' = IF wr = AllPos THEN "complete" ELSE "partial"
    /\ Emit(EvSnap(dest', FALSE))
    /\ SetPc(a, "setres")
    /\ UNCHANGED <<coord, event, cleanup, locks, fopen, wr, rex, iox, cc, win, dq, wk, iocur, iochk, iotag, sb, us, ann, faults, seq>>
\* [SetResult] the final task sets the result (unconditionally)
IOSetResult(a) ==
    /\ iopc[a] = "setres"
    /\ status' = "success" /\ exc' = "none"
    /\ SetPc(a, "fin") /\ Quiet
    /\ UNCHANGED <<event, cleanup, locks, fs, rex, iox, cc, win, dq, wk, iocur, iochk, iotag, sb, us, ann, faults, seq>>
\* [SetExc]
IOExc(a) ==
    /\ iopc[a] = "exc"
    /\ SetException(iotag[a])
    /\ SetPc(a, IF iocur[a].k = "final" THEN "fin" ELSE "tend")
    /\ Quiet
    /\ UNCHANGED <<event, cleanup, locks, fs, rex, iox, cc, win, dq, wk, iocur, iochk, iotag, sb, us, ann, faults, seq>>
\* the final task announces done
IOFin(a) ==
    /\ iopc[a] = "fin"
    /\ SetPc(a, "announce") /\ ann' = [ann EXCEPT ![a] = "begin"] /\ Quiet
    /\ UNCHANGED <<coord, event, cleanup, locks, fs, rex, iox, cc, win, dq, wk, iocur, iochk, iotag, sb, us, faults, seq>>
IOAnnounced(a) ==
    /\ iopc[a] = "announce" /\ ~Announcing(a)
    /\ SetPc(a, "tend") /\ Quiet
    /\ UNCHANGED <<coord, event, cleanup, locks, fs, rex, iox, cc, win, dq, wk, iocur, iochk, iotag, sb, us, ann, faults, seq>>
\* [TaskEnd io]
IOTaskEnd ==
    /\ iopc[IOW] = "tend"
    /\ ioinfl' = ioinfl - 1
    /\ SetPc(IOW, "finish")
    /\ Emit([e |-> "IoTask", ph |-> "e", user |-> FALSE])
    /\ UNCHANGED <<coord, event, cleanup, locks, fs, rex, ioq, iosem, iofut, cc, win, dq, wk, iocur, iochk, iotag, sb, us, ann, faults, seq>>
IOFinish ==
    /\ iopc[IOW] = "finish"
    /\ iofut' = iofut - 1
    /\ SetPc(IOW, "release") /\ Quiet
    /\ UNCHANGED <<coord, event, cleanup, locks, fs, rex, ioq, iosem, ioinfl, cc, win, dq, wk, iocur, iochk, iotag, sb, us, ann, faults, seq>>
IORelease ==
    /\ iopc[IOW] = "release"
    /\ iosem' = iosem + 1
    /\ SetPc(IOW, "idle") /\ Quiet
    /\ UNCHANGED <<coord, event, cleanup, locks, fs, rex, ioq, ioinfl, iofut, cc, win, dq, wk, iocur, iochk, iotag, sb, us, ann, faults, seq>>
\* an inline task returns to the request worker that called it
IOInlineReturn(w) ==
    /\ w \in Workers /\ iopc[w] = "tend" /\ wpc[w] = "inline"
    /\ SetPc(w, "idle")
    /\ wpc' = [wpc EXCEPT ![w] = IF iocur[w].k = "final" THEN "tend" ELSE "read"]
    /\ Quiet
    /\ UNCHANGED <<coord, event, cleanup, locks, fs, rex, iox, cc, win, dq, wcur, wat, wdel, wchk, wtag, iocur, iochk, iotag, sb, us, ann, faults, seq>>

AnnNext(th) ==
    \/ AnnBegin(th) \/ AnnCleanups(th) \/ AnnClose(th) \/ AnnRemove(th)
    \/ AnnEvent(th) \/ AnnCbLock(th) \/ AnnCbBegin(th) \/ AnnCbEnd(th) \/ AnnEnd(th)
UserNext == UserCall \/ UserSubmit \/ UserRet \/ UserResult \/ UserShutdown
CancelNext == UCancelCall \/ CancelBegin \/ CancelLin \/ UCancelRet
SubNext ==
    \/ SubTake \/ SubCheck \/ SubQueued \/ SubOnQueuedBegin \/ SubOnQueuedEnd(TRUE) \/ SubOnQueuedEnd(FALSE)
    \/ SubRunning \/ SubHeadBegin \/ SubHeadEnd("ok") \/ SubHeadEnd("fault") \/ SubSetup
    \/ SubSubmit \/ SubFinalize \/ SubFinalSubmit \/ SubFail \/ SubFailWait \/ SubFailDone \/ SubTaskEnd
WNext(w) ==
    \/ WTake(w) \/ WCheck(w) \/ WGetBegin(w) \/ WGetEnd(w, "ok") \/ WGetEnd(w, "fault")
    \/ WReadData(w) \/ WReadEOF(w) \/ WReadFault(w, TRUE) \/ WReadFault(w, FALSE)
    \/ WHand(w) \/ WIoSubmit(w) \/ WDeferLock(w) \/ WDeferFlush(w) \/ WDeferUnlock(w)
    \/ WDeferTakeInline(w) \/ WFinalInline(w) \/ IOInlineReturn(w)
    \/ WExc(w) \/ WDecr(w) \/ WFinalSubmit(w)
    \/ WTaskEnd(w) \/ WFinish(w) \/ WRelease(w)
IONext ==
    \/ IOTake \/ IOTaskEnd \/ IOFinish \/ IORelease
    \/ \E a \in Actors :
          \/ IOCheck(a) \/ IOOpen(a) \/ IOWriteBegin(a) \/ IOWriteEnd(a, TRUE) \/ IOWriteEnd(a, FALSE)
          \/ IOClose(a) \/ IORenameBegin(a) \/ IORenameFault(a) \/ IORenameEnd(a) \/ IOSetResult(a) \/ IOExc(a)
          \/ IOFin(a) \/ IOAnnounced(a)
Next ==
    \/ UserNext \/ CancelNext \/ SubNext \/ IONext
    \/ \E w \in Workers : WNext(w)
    \/ \E th \in Threads : AnnNext(th)

Spec == Init /\ [][Next]_vars
FairSpec == Spec /\ WF_vars(Next)

\* ---------------------------------------------------------------- properties
DownloadClauses ==
    { "C02_DestEqualsObject", "C02_NoWrongBytes",
      "C03_NoSuccessAfterFatalFault", "C03_RaisedIsOccurredFailureOrCancel", "C03_AttemptsBounded",
      "C03_NonRetryableNotRetried",
      "C06_DestNeverPartial", "C06_NoTempWhenDone", "C06_SuccessPublishesComplete",
      "C06_FailureLeavesOld",
      "C07_NoRequestIfNotStarted", "C07_CancelledOutcome", "C07_CancelErrorTruthful",
      "C08_QueuedAtMostOnce", "C08_QueuedBeforeAnyRequest", "C08_NoQueuedIfCancelledBeforeStart",
      "C08_DoneAtMostOnce", "C08_DoneAfterFinalAndQuiet", "C08_OutcomeFinalAtDone",
      "C10_RequestsInFlightLeR", "C10_StageOccupancy", "C10_RequestThreadsLeR",
      "C11_IoQueue", "C11_DownloadWindow", "C16_StreamInOrderExactlyOnce", "C10_OneWriterPerDest",
      "C17_DoneNeverReverts", "C18_NothingAfterShutdownReturns", "C18_AllDoneAtShutdownReturn" }
ASSUME DownloadClauses \subseteq Clauses      \* (Holds is TRUE for an unknown name)
FailingClauses == {c \in DownloadClauses : ~Holds(c, o)}
ClausesOK == FailingClauses = {}

\* design-level facts about the modelled file system
C06_M_DestOnlyOldOrComplete == dest \in {"old", "absent", "complete"}
C06_M_NoTempAtDoneEvent == event => ~temp
C06_M_RenameOnlyAfterAllWritten == \A a \in Actors : (iopc[a] = "renE") => (wr = AllPos)
C17_M_DeferLockHeldByFlusher == (dlock # "") => (dlock \in Workers /\ wpc[dlock] = "flush")
ASSUME Single => N = 1
C02_M_SuccessMeansComplete == (status = "success") => (IF Dest = "path" THEN dest = "complete" ELSE wr = AllPos)
\* a stream destination receives its writes in position order, each position queued once
C16_M_QueuedInOrder ==
    NS => /\ \A i, j \in 1..Len(ioq) : (i < j /\ ioq[i].k = "w" /\ ioq[j].k = "w") => ioq[i].part < ioq[j].part
          /\ \A i \in 1..Len(ioq) : ioq[i].k = "w" => ioq[i].part <= dnext
          /\ \A p \in dpend : p >= dnext
\* the sliding window: at most W GetObject tasks beyond the lowest unfinished one
C11_M_WindowBounded == NS => (tnext - tlow <= W /\ \A t \in trel : t > tlow /\ t < tnext)
\* semaphores are conserved
C12_RequestSlotsConserved ==
    IF NS THEN rsem = RQ
    ELSE rsem = RQ - Cardinality({i \in Parts : gst[i] \in {"queued", "running", "ended"}})
                   - Cardinality({w \in Workers : wpc[w] = "release"})
C12_IoSlotsConserved ==
    iosem = IOQ - Len(ioq) - (IF iopc[IOW] \in {"idle"} THEN 0 ELSE 1)
C11_M_IoQueueBounded == Len(ioq) <= IOQ
C17_LocksHeldByAnnouncers ==
    /\ (cllock # "") => ann[cllock] \in {"clclose", "clremove"}
    /\ (cblock # "") => ann[cblock] \in {"cbb", "cbe"}
\* the counter never goes negative and the final task is submitted at most once
C04_M_FinalSubmittedOnce ==
    Cardinality({i \in 1..Len(ioq) : ioq[i].k = "final"})
        + Cardinality({a \in Actors : iopc[a] # "idle" /\ iocur[a].k = "final"}) <= 1
\* termination (C04)
C04_ResultReturns == (upc = "result") ~> (upc # "result")
C04_ShutdownReturns == (upc = "shutdown") ~> (upc = "end")
=============================================================================
