----------------------------- MODULE Coordinator -----------------------------
(***************************************************************************)
(* s3transfer.futures.TransferCoordinator / TransferFuture.                *)
(*                                                                         *)
(* One action per critical section.  Everything done while holding         *)
(* coordinator._lock is one atomic step (set_result, set_exception,        *)
(* status transitions, cancel's state change).  announce_done is NOT       *)
(* atomic in the code and is modelled as four steps per announcing thread: *)
(*   AnnStatus  (unsynchronised read of status)                            *)
(*   AnnCleanup (under _failure_cleanups_lock: run + empty the list)       *)
(*   AnnEvent   (_done_event.set())                                        *)
(*   AnnDoneCbs (under _done_callbacks_lock: run + empty the list)         *)
(* result() is two steps: wait for the event, then read exception/result.  *)
(*                                                                         *)
(* cancel() of a not-started transfer announces done.  Constant            *)
(* AnnounceUnderLock = TRUE models the original code (announce_done called *)
(* while still holding the non-reentrant _lock: defect D2); FALSE models   *)
(* the repaired code (announce after the lock is released).                *)
(*                                                                         *)
(* Done callbacks are opaque ("plain") or re-enter the coordinator's       *)
(* public API from inside the callback: "done", "setexc" (future.          *)
(* set_exception), "cancel", "result".                                     *)
(***************************************************************************)
EXTENDS Naturals, Sequences, FiniteSets, TLC

CONSTANTS Threads,            \* thread names
          MaxOps,             \* bound on operations started (model bound)
          AnnounceUnderLock,  \* see above
          CbKinds,            \* kinds of done callbacks that may be registered
          MaxCbs              \* bound on registered callbacks / cleanups (model bound)

VARIABLES status, exc, result, event,
          cleanups,    \* registered failure cleanups not yet run (seq of ids)
          doneCbs,     \* registered done callbacks not yet run (seq of kinds)
          ranCleanups, \* number of cleanup executions (history)
          ranCbs,      \* sequence of callback kinds executed (history)
          lock,        \* holder of _lock ("" = free)
          clLock,      \* holder of _failure_cleanups_lock
          cbLock,      \* holder of _done_callbacks_lock
          pc,          \* per thread: what it is in the middle of
          tmp,         \* per thread scratch: [st |-> status read, unlock |-> BOOLEAN, cbs |-> remaining cbs]
          nops,        \* operations started so far
          last         \* last completed public operation and what it returned

vars == <<status, exc, result, event, cleanups, doneCbs, ranCleanups, ranCbs,
          lock, clLock, cbLock, pc, tmp, nops, last>>

DoneStates == {"success", "failed", "cancelled"}
IsDone(s) == s \in DoneStates
Excs == {"E1", "E2"}

NoTmp == [st |-> "", unlock |-> FALSE, cbs |-> <<>>, from |-> "announce_done"]

Init ==
    /\ status = "not-started" /\ exc = "none" /\ result = "none"
    /\ event = FALSE
    /\ cleanups = <<>> /\ doneCbs = <<>>
    /\ ranCleanups = 0 /\ ranCbs = <<>>
    /\ lock = "" /\ clLock = "" /\ cbLock = ""
    /\ pc = [t \in Threads |-> "idle"]
    /\ tmp = [t \in Threads |-> NoTmp]
    /\ nops = 0
    /\ last = [op |-> "init", th |-> "", arg |-> "", ret |-> "", st |-> "not-started",
               ex |-> "none", n |-> 0]

Idle(t) == pc[t] = "idle"
Start(t) == Idle(t) /\ nops < MaxOps /\ nops' = nops + 1
Ret(t, op, arg, ret, st, ex) ==
    last' = [op |-> op, th |-> t, arg |-> arg, ret |-> ret, st |-> st, ex |-> ex,
             n |-> last.n + 1]

\* ------------------------------------------------- atomic (locked) operations
SetStatus(t, s) ==       \* set_status_to_queued / set_status_to_running
    /\ Start(t) /\ lock = ""
    /\ IF IsDone(status)
       THEN /\ UNCHANGED <<status>> /\ Ret(t, "set_status_" \o s, "", "RuntimeError", status, exc)
       ELSE /\ status' = s /\ Ret(t, "set_status_" \o s, "", "ok", s, exc)
    /\ UNCHANGED <<exc, result, event, cleanups, doneCbs, ranCleanups, ranCbs,
                   lock, clLock, cbLock, pc, tmp>>

SetResult(t) ==
    /\ Start(t) /\ lock = ""
    /\ exc' = "none" /\ result' = "R" /\ status' = "success"
    /\ Ret(t, "set_result", "R", "ok", "success", "none")
    /\ UNCHANGED <<event, cleanups, doneCbs, ranCleanups, ranCbs, lock, clLock,
                   cbLock, pc, tmp>>

SetException(t, e, override) ==
    /\ Start(t) /\ lock = ""
    /\ IF ~IsDone(status) \/ override
       THEN /\ exc' = e /\ status' = "failed"
            /\ Ret(t, IF override THEN "set_exception_override" ELSE "set_exception", e, "ok", "failed", e)
       ELSE /\ UNCHANGED <<exc, status>>
            /\ Ret(t, IF override THEN "set_exception_override" ELSE "set_exception", e, "ok", status, exc)
    /\ UNCHANGED <<result, event, cleanups, doneCbs, ranCleanups, ranCbs, lock,
                   clLock, cbLock, pc, tmp>>

\* TransferFuture.set_exception: only on a finished future
FutureSetException(t) ==
    /\ Start(t)
    /\ IF ~IsDone(status)
       THEN /\ Ret(t, "future_set_exception", "U", "TransferNotDoneError", status, exc)
            /\ UNCHANGED <<exc, status>>
       ELSE /\ lock = ""
            /\ exc' = "U" /\ status' = "failed"
            /\ Ret(t, "future_set_exception", "U", "ok", "failed", "U")
    /\ UNCHANGED <<result, event, cleanups, doneCbs, ranCleanups, ranCbs, lock,
                   clLock, cbLock, pc, tmp>>

ReadDone(t) ==
    /\ Start(t)
    /\ Ret(t, "done", "", IF IsDone(status) THEN "True" ELSE "False", status, exc)
    /\ UNCHANGED <<status, exc, result, event, cleanups, doneCbs, ranCleanups,
                   ranCbs, lock, clLock, cbLock, pc, tmp>>

AddDoneCallback(t, k) ==
    /\ Start(t) /\ cbLock = ""
    /\ (k = "cancel") => \A u \in Threads : pc[u] \notin {"ann_status", "ann_cleanup", "ann_event", "ann_cbs"} \/ IsDone(status)
    /\ Len(doneCbs) + Len(ranCbs) < MaxCbs
    /\ doneCbs' = Append(doneCbs, k)
    /\ Ret(t, "add_done_callback", k, "ok", status, exc)
    /\ UNCHANGED <<status, exc, result, event, cleanups, ranCleanups, ranCbs,
                   lock, clLock, cbLock, pc, tmp>>

AddFailureCleanup(t) ==
    /\ Start(t) /\ clLock = ""
    /\ Len(cleanups) + ranCleanups < MaxCbs
    /\ cleanups' = Append(cleanups, "c")
    /\ Ret(t, "add_failure_cleanup", "", "ok", status, exc)
    /\ UNCHANGED <<status, exc, result, event, doneCbs, ranCleanups, ranCbs,
                   lock, clLock, cbLock, pc, tmp>>

\* ---------------------------------------------------------------- cancel
Cancel(t) ==
    /\ Start(t) /\ lock = ""
    /\ IF IsDone(status)
       THEN /\ Ret(t, "cancel", "", "noop", status, exc)
            /\ UNCHANGED <<status, exc, lock, pc, tmp>>
       ELSE /\ exc' = "C" /\ status' = "cancelled"
            /\ IF status = "not-started"
               THEN /\ pc' = [pc EXCEPT ![t] = "ann_status"]
                    /\ lock' = IF AnnounceUnderLock THEN t ELSE ""
                    /\ tmp' = [tmp EXCEPT ![t] = [NoTmp EXCEPT !.unlock = AnnounceUnderLock, !.from = "cancel"]]
                    /\ UNCHANGED last
               ELSE /\ Ret(t, "cancel", "", "ok", "cancelled", "C")
                    /\ UNCHANGED <<lock, pc, tmp>>
    /\ UNCHANGED <<result, event, cleanups, doneCbs, ranCleanups, ranCbs,
                   clLock, cbLock>>

\* ---------------------------------------------------------------- announce_done
\* No caller in the package announces an unfinished transfer, and on_done
\* subscribers (the re-entrant callbacks) only ever run for finished ones.  A
\* callback that cancels its own *unfinished* transfer from inside
\* announce_done would re-enter announce_done under _done_callbacks_lock; that
\* combination is outside the system's behaviour and is not generated.
AnnounceStart(t) ==
    /\ Start(t)
    /\ (~IsDone(status)) => \A i \in 1..Len(doneCbs) : doneCbs[i] # "cancel"
    /\ pc' = [pc EXCEPT ![t] = "ann_status"]
    /\ tmp' = [tmp EXCEPT ![t] = NoTmp]
    /\ UNCHANGED <<status, exc, result, event, cleanups, doneCbs, ranCleanups,
                   ranCbs, lock, clLock, cbLock, last>>

AnnStatus(t) ==
    /\ pc[t] = "ann_status"
    /\ tmp' = [tmp EXCEPT ![t].st = status]
    /\ pc' = [pc EXCEPT ![t] = IF status # "success" THEN "ann_cleanup" ELSE "ann_event"]
    /\ UNCHANGED <<status, exc, result, event, cleanups, doneCbs, ranCleanups,
                   ranCbs, lock, clLock, cbLock, nops, last>>

AnnCleanup(t) ==
    /\ pc[t] = "ann_cleanup" /\ clLock = ""
    /\ ranCleanups' = ranCleanups + Len(cleanups)
    /\ cleanups' = <<>>
    /\ pc' = [pc EXCEPT ![t] = "ann_event"]
    /\ UNCHANGED <<status, exc, result, event, doneCbs, ranCbs, lock, clLock,
                   cbLock, tmp, nops, last>>

AnnEvent(t) ==
    /\ pc[t] = "ann_event"
    /\ event' = TRUE
    /\ pc' = [pc EXCEPT ![t] = "ann_cbs"]
    /\ UNCHANGED <<status, exc, result, cleanups, doneCbs, ranCleanups, ranCbs,
                   lock, clLock, cbLock, tmp, nops, last>>

\* take _done_callbacks_lock; the callbacks to run are those registered now
AnnTakeCbs(t) ==
    /\ pc[t] = "ann_cbs" /\ cbLock = ""
    /\ cbLock' = t
    /\ tmp' = [tmp EXCEPT ![t].cbs = doneCbs]
    /\ pc' = [pc EXCEPT ![t] = "ann_run"]
    /\ UNCHANGED <<status, exc, result, event, cleanups, doneCbs, ranCleanups,
                   ranCbs, lock, clLock, nops, last>>

\* run the next callback (inside the callbacks lock)
AnnRunCb(t) ==
    /\ pc[t] = "ann_run" /\ tmp[t].cbs # <<>>
    /\ LET k == Head(tmp[t].cbs) IN
       /\ CASE k = "plain" -> UNCHANGED <<status, exc>>
            [] k = "done" -> UNCHANGED <<status, exc>>
            [] k = "result" -> event /\ UNCHANGED <<status, exc>>
            [] k = "setexc" ->   \* future.set_exception(U) from inside on_done
                 IF IsDone(status) THEN lock = "" /\ exc' = "U" /\ status' = "failed"
                 ELSE UNCHANGED <<status, exc>>     \* TransferNotDoneError, swallowed
            [] k = "cancel" ->   \* future.cancel() from inside on_done
                 /\ lock = ""
                 /\ IF IsDone(status) THEN UNCHANGED <<status, exc>>
                    ELSE exc' = "C" /\ status' = "cancelled"
       /\ ranCbs' = Append(ranCbs, k)
       /\ tmp' = [tmp EXCEPT ![t].cbs = Tail(@)]
    /\ UNCHANGED <<result, event, cleanups, doneCbs, ranCleanups, lock, clLock,
                   cbLock, pc, nops, last>>

AnnFinish(t) ==
    /\ pc[t] = "ann_run" /\ tmp[t].cbs = <<>>
    /\ doneCbs' = <<>>
    /\ cbLock' = ""
    /\ lock' = IF tmp[t].unlock THEN "" ELSE lock
    /\ pc' = [pc EXCEPT ![t] = "idle"]
    /\ tmp' = [tmp EXCEPT ![t] = NoTmp]
    /\ status' = status /\ exc' = exc
    /\ Ret(t, tmp[t].from, "", "ok", status, exc)
    /\ UNCHANGED <<result, event, cleanups, ranCleanups, ranCbs, clLock, nops>>

\* ---------------------------------------------------------------- result()
ResultStart(t) ==
    /\ Start(t)
    /\ pc' = [pc EXCEPT ![t] = "res_wait"]
    /\ UNCHANGED <<status, exc, result, event, cleanups, doneCbs, ranCleanups,
                   ranCbs, lock, clLock, cbLock, tmp, last>>

ResultReturn(t) ==
    /\ pc[t] = "res_wait" /\ event
    /\ pc' = [pc EXCEPT ![t] = "idle"]
    /\ status' = status /\ exc' = exc
    /\ Ret(t, "result", "", IF exc # "none" THEN "raise:" \o exc ELSE "return:" \o result, status, exc)
    /\ UNCHANGED <<result, event, cleanups, doneCbs, ranCleanups, ranCbs, lock,
                   clLock, cbLock, tmp, nops>>

\* ---------------------------------------------------------------- spec
Op(t) ==
    \/ SetStatus(t, "queued") \/ SetStatus(t, "running")
    \/ SetResult(t)
    \/ \E e \in Excs : SetException(t, e, FALSE) \/ SetException(t, e, TRUE)
    \/ FutureSetException(t)
    \/ ReadDone(t)
    \/ \E k \in CbKinds : AddDoneCallback(t, k)
    \/ AddFailureCleanup(t)
    \/ Cancel(t)
    \/ AnnounceStart(t)
    \/ ResultStart(t)

Step(t) ==
    \/ AnnStatus(t) \/ AnnCleanup(t) \/ AnnEvent(t) \/ AnnTakeCbs(t)
    \/ AnnRunCb(t) \/ AnnFinish(t) \/ ResultReturn(t)

Next == \E t \in Threads : Op(t) \/ Step(t)

Spec == Init /\ [][Next]_vars
FairSpec == Spec /\ \A t \in Threads : WF_vars(Step(t))

\* ---------------------------------------------------------------- properties
\* done() never goes back to False; a finished transfer cannot be restarted
C17_DoneAbsorbing == [][IsDone(status) => IsDone(status')]_vars

C17_NoRestart ==
    [][(IsDone(status) /\ last' # last /\ last'.op \in {"set_status_queued", "set_status_running"})
          => (last'.ret = "RuntimeError" /\ status' = status)]_vars

\* the first failure or cancellation recorded is the one reported: the stored
\* exception of a finished transfer changes only through set_result (final
\* step succeeded) or an explicit override (user set_exception on a finished
\* future / override=True)
Overrider(op) == op \in {"set_result", "set_exception_override", "future_set_exception"}
C17_FirstFailureKept ==
    [][(IsDone(status) /\ (exc' # exc \/ status' # status)) =>
          \/ (last' # last /\ Overrider(last'.op))
          \/ (\E t \in Threads : pc[t] = "ann_run" /\ tmp[t].cbs # <<>>
                                     /\ Head(tmp[t].cbs) = "setexc")]_vars

\* status, stored exception and result agree
C17_StateAgrees ==
    /\ (exc # "none") <=> (status \in {"failed", "cancelled"})
    /\ (status = "success") => result = "R"

\* result() returns only after done was announced and reports exactly the
\* stored state
C17_ResultTruthful ==
    [][(last' # last /\ last'.op = "result") =>
          /\ event
          /\ last'.ret = (IF exc # "none" THEN "raise:" \o exc ELSE "return:" \o result)]_vars

\* callbacks and cleanups run at most once each (lists are emptied)
C17_CallbacksAtMostOnce == Len(ranCbs) <= MaxCbs /\ ranCleanups <= MaxCbs

\* cleanups never run for a transfer that is (and stays) successful when the
\* announcing thread looked
C17_NoCleanupOnSuccess ==
    [][ranCleanups' # ranCleanups => \E t \in Threads : pc[t] = "ann_cleanup" /\ tmp[t].st # "success"]_vars

TypeOK ==
    /\ status \in {"not-started", "queued", "running"} \cup DoneStates
    /\ exc \in {"none", "C", "U"} \cup Excs
    /\ lock \in Threads \cup {""}

\* liveness: every started operation finishes (no self-deadlock)
C17_OpsTerminate == \A t \in Threads : (pc[t] # "idle") ~> (pc[t] = "idle")
NoResultWaiters == \A t \in Threads : pc[t] # "res_wait"
\* result() may legitimately wait forever if nobody announces; restrict to
\* announce/cancel operations:
C17_AnnounceTerminates ==
    \A t \in Threads : (pc[t] \in {"ann_status", "ann_cleanup", "ann_event", "ann_cbs", "ann_run"})
                          ~> (pc[t] = "idle")
=============================================================================
