--------------------------- MODULE Invoker_Trace ---------------------------
(***************************************************************************)
(* code -> spec for CountCallbackInvoker under free interleavings: real    *)
(* threads call increment / decrement / finalize on one real object while  *)
(* the scheduler switches at every lock operation.  Logged: the start and  *)
(* the end of each call (ICall / IRet with the result) and every           *)
(* invocation of the callback (ICb, logged by the callback itself, i.e.    *)
(* inside the critical section).  The method's effect is an internal step  *)
(* of Invoker.tla between its ICall and IRet (linearizability); a step     *)
(* that fires the callback must be followed by that thread's ICb before    *)
(* anything else of that thread, and an ICb without such a step is         *)
(* rejected.                                                               *)
(***************************************************************************)
EXTENDS Invoker, IOUtils, TLCExt

Traces == ndJsonDeserialize(IOEnv.TRACE_FILE)
VARIABLES tid, l,
          pend,     \* [thread -> op it is inside of, or ""]
          got,      \* [thread -> result of its linearized step, or ""]
          owe       \* [thread -> callback invocations its step fired and not yet seen]
tvars == <<vars, tid, l, pend, got, owe>>
Ev == Traces[tid].ev[l]
More == l <= Len(Traces[tid].ev)

TInit == /\ Init /\ tid \in 1..Len(Traces) /\ l = 1 /\ TLCSet(tid, 0)
         /\ pend = [t \in Threads |-> ""] /\ got = [t \in Threads |-> ""]
         /\ owe = [t \in Threads |-> 0]

CallEv ==
    /\ Ev.k = "ICall" /\ pend[Ev.th] = "" /\ got[Ev.th] = ""
    /\ pend' = [pend EXCEPT ![Ev.th] = Ev.op]
    /\ UNCHANGED <<vars, got, owe>>
RetEv ==
    /\ Ev.k = "IRet" /\ got[Ev.th] # "" /\ got[Ev.th] = Ev.res /\ owe[Ev.th] = 0
    /\ got' = [got EXCEPT ![Ev.th] = ""] /\ pend' = [pend EXCEPT ![Ev.th] = ""]
    /\ UNCHANGED <<vars, owe>>
CbEv ==
    /\ Ev.k = "ICb" /\ owe[Ev.th] > 0
    /\ owe' = [owe EXCEPT ![Ev.th] = @ - 1]
    /\ UNCHANGED <<vars, pend, got>>

Lin(t) ==
    /\ pend[t] # "" /\ got[t] = ""
    \* the lock: nobody else is between its step and its callback
    /\ \A u \in Threads : owe[u] = 0
    /\ CASE pend[t] = "increment" -> Increment(t)
         [] pend[t] = "decrement" -> Decrement(t)
         [] pend[t] = "finalize" -> Finalize(t)
         [] OTHER -> FALSE
    /\ got' = [got EXCEPT ![t] = last'.res]
    /\ owe' = [owe EXCEPT ![t] = last'.cb]
    /\ UNCHANGED pend

TNext ==
    /\ UNCHANGED tid
    /\ \/ More /\ (CallEv \/ RetEv \/ CbEv) /\ l' = l + 1
       \/ More /\ (\E t \in Threads : Lin(t)) /\ UNCHANGED l
TSpec == TInit /\ [][TNext]_tvars

Progress == TLCSet(tid, IF TLCGet(tid) < l THEN l ELSE TLCGet(tid))
NotYetAccepted == TLCGet(tid) <= Len(Traces[tid].ev)
Final_ ==
    \A i \in 1..Len(Traces) :
        PrintT("INVTRACE " \o ToJson([id |-> Traces[i].id, reached |-> TLCGet(i), len |-> Len(Traces[i].ev)]))
=============================================================================
