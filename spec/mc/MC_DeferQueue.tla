--------------------------- MODULE MC_DeferQueue ---------------------------
EXTENDS DeferQueue, Json, TLCExt

SetToSeq(S) == IF S = {} THEN <<>> ELSE
    LET RECURSIVE R(_) R(T) == IF T = {} THEN <<>> ELSE
        LET m == CHOOSE x \in T : \A y \in T : x[1] <= y[1] IN <<m>> \o R(T \ {m})
    IN R(S)
StateRec == [nextOffset |-> nextOffset, queued |-> SetToSeq(queued),
             nwritten |-> Len(written), cursor |-> cursor, attempt |-> attempt,
             complete |-> complete]
DumpEdge ==
    PrintT("EDGE " \o ToJson([from |-> StateRec, to |-> StateRec', op |-> last',
                               isreq |-> (cursor' # cursor \/ last' # last)]))
=============================================================================
