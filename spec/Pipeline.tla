------------------------------ MODULE Pipeline ------------------------------
(***************************************************************************)
(* The TransferManager's task pipeline for ONE transfer, with a modelled   *)
(* S3 service and the user:                                                *)
(*   manager._submit_transfer, tasks.SubmissionTask._main, tasks.Task      *)
(*   .__call__, futures.TransferCoordinator (set_result / set_exception /  *)
(*   cancel / announce_done), futures.BoundedExecutor (request stage with  *)
(*   R worker threads and a queue semaphore of RQ slots), and the          *)
(*   multipart upload/copy shape of upload.py / copies.py:                 *)
(*       Create -> Part 1..P (need the id) -> Complete (needs all, final)  *)
(*   or, for P = 0, a single final request (put / copy / delete).          *)
(*                                                                         *)
(* One action per critical section / blocking point of the code.  Every    *)
(* environment-visible step also produces the event the harness records    *)
(* from the real code and applies it to the observable state `o` of        *)
(* Obs.tla, so the clauses of Props.tla are invariants of this model.      *)
(*                                                                         *)
(* Faults: any S3 call may fail before or after its effect (budget         *)
(* MaxFaults); on_queued may raise.  The user may cancel at any time.      *)
(***************************************************************************)
EXTENDS Props

CONSTANTS P,            \* number of parts (0 = single request transfer)
          R,            \* max_request_concurrency
          RQ,           \* max_request_queue_size
          MaxFaults, UserMayCancel

Workers == {"request-w" \o ToString(i) : i \in 1..R}
Create == 100
Final == 200
PartT(i) == i
Tasks == IF P = 0 THEN {Final} ELSE {Create, Final} \cup {PartT(i) : i \in 1..P}
Deps(k) == IF P = 0 THEN {}
           ELSE IF k = Create THEN {}
           ELSE IF k = Final THEN Tasks \ {Final}
           ELSE {Create}
\* order in which the submission task submits them
SubOrder == IF P = 0 THEN <<Final>>
            ELSE <<Create>> \o [i \in 1..P |-> PartT(i)] \o <<Final>>
OpOf(k) == IF P = 0 THEN "PutObject"
           ELSE IF k = Create THEN "CreateMultipartUpload"
           ELSE IF k = Final THEN "CompleteMultipartUpload" ELSE "UploadPart"
Size == IF P = 0 THEN 1 ELSE P
MetaC == [ cfg |-> [R |-> R, S |-> 1, RQ |-> RQ, SQ |-> 1000, IOQ |-> 1000, io_chunk |-> 1,
                    attempts |-> 3, up_chunks |-> 10, down_chunks |-> 10, chunk |-> 1,
                    threshold |-> IF P = 0 THEN 2 ELSE 1],
           xs |-> << [kind |-> "upload", size |-> Size, dstk |-> "none", srck |-> "path",
                      hasOld |-> FALSE, nsubs |-> 1, provide |-> FALSE, faultFree |-> (MaxFaults = 0),
                      override |-> FALSE, shortsrc |-> FALSE] >> ]

VARIABLES
    status, exc, event,        \* coordinator
    cleanup,                   \* "none" | "registered" | "ran"
    task,                      \* [k -> [st, res]] st: unsub|queued|running|done, res: none|ok|exc
    rq,                        \* request executor FIFO
    rsem,                      \* free slots of the request queue semaphore
    wpc, wcur, wchk, wtag,     \* per request worker: pc, task, clock of its done-check, fault tag
    spc, snext,                \* submission thread: pc, index into SubOrder
    upc, cpc,                  \* user / canceller program counters
    ann,                       \* [thread -> announce sub-step] ("" = not announcing)
    faults, seq, clk, uidKnown,
    o                          \* observable state (Obs.tla)

vars == <<status, exc, event, cleanup, task, rq, rsem, wpc, wcur, wchk, wtag, spc, snext,
          upc, cpc, ann, faults, seq, clk, uidKnown, o>>

Threads == Workers \cup {"sub", "user", "canceller"}
IsDoneS(s) == s \in {"success", "failed", "cancelled"}

Init ==
    /\ status = "not-started" /\ exc = "none" /\ event = FALSE /\ cleanup = "none"
    /\ task = [k \in Tasks |-> [st |-> "unsub", res |-> "none"]]
    /\ rq = <<>> /\ rsem = RQ
    /\ wpc = [w \in Workers |-> "idle"] /\ wcur = [w \in Workers |-> 0]
    /\ wchk = [w \in Workers |-> -1]
    /\ wtag = [w \in Workers |-> ""]
    /\ spc = "wait" /\ snext = 1
    /\ upc = "call" /\ cpc = "idle"
    /\ ann = [t \in Threads |-> ""]
    /\ faults = 0 /\ seq = 0 /\ clk = 0 /\ uidKnown = FALSE
    /\ o = InitObs(MetaC)

\* ---------------------------------------------------------------- events
Emit(ev) == o' = Apply(o, ev) /\ clk' = clk + 1
Emit2(e1, e2) == o' = Apply(Apply(o, e1), e2) /\ clk' = clk + 1
Quiet == UNCHANGED <<o, clk>>
EvS3Begin(th, op, part) ==
    [e |-> "S3Begin", seq |-> seq + 1, x |-> 0, op |-> op,
     uid |-> IF op = "CreateMultipartUpload" \/ P = 0 THEN 0 ELSE 1, part |-> part, rs |-> -1,
     xfer |-> (op # "AbortMultipartUpload"), th |-> th, chk |-> IF th \in Workers THEN wchk[th] ELSE -1,
     t |-> clk, user |-> FALSE]
PartsListed == [i \in 1..P |-> [n |-> i, s |-> i - 1, l |-> 1, etag |-> TRUE, crc |-> TRUE]]
EvS3End(op, oc) ==
    [e |-> "S3End", seq |-> seq, x |-> 0, op |-> op,
     uid |-> IF P = 0 THEN 0 ELSE 1, oc |-> oc, xfer |-> (op # "AbortMultipartUpload"),
     bs |-> 0, bl |-> IF op = "PutObject" THEN Size ELSE IF op = "UploadPart" THEN 1 ELSE -1,
     bsrc |-> IF op \in {"PutObject", "UploadPart"} THEN "own" ELSE "none",
     parts |-> IF op = "CompleteMultipartUpload" THEN PartsListed ELSE <<>>, user |-> FALSE]

\* ---------------------------------------------------------------- coordinator
SetException(e) ==          \* set_exception without override
    IF IsDoneS(status) THEN UNCHANGED <<status, exc>>
    ELSE status' = "failed" /\ exc' = e

\* announce_done is run by `th` in steps: ann[th] =
\*   "status" -> "abortB" -> "abortE" -> "event" -> "cbs" -> ""
AnnStart(th) == ann' = [ann EXCEPT ![th] = "status"]
AnnStatus(th) ==
    /\ ann[th] = "status"
    /\ ann' = [ann EXCEPT ![th] = IF status # "success" /\ cleanup = "registered" THEN "abortB" ELSE "event"]
    /\ cleanup' = IF status # "success" /\ cleanup = "registered" THEN "ran" ELSE cleanup
    /\ Quiet
    /\ UNCHANGED <<status, exc, event, task, rq, rsem, wpc, wcur, wchk, wtag, spc, snext, upc, cpc, faults, seq, uidKnown>>
AnnAbortBegin(th) ==
    /\ ann[th] = "abortB"
    /\ Emit(EvS3Begin(th, "AbortMultipartUpload", 0))
    /\ seq' = seq + 1
    /\ ann' = [ann EXCEPT ![th] = "abortE"]
    /\ UNCHANGED <<status, exc, event, cleanup, task, rq, rsem, wpc, wcur, wchk, wtag, spc, snext, upc, cpc, faults, uidKnown>>
AnnAbortEnd(th) ==
    /\ ann[th] = "abortE"
    /\ Emit(EvS3End("AbortMultipartUpload", "ok"))
    /\ ann' = [ann EXCEPT ![th] = "event"]
    /\ UNCHANGED <<status, exc, event, cleanup, task, rq, rsem, wpc, wcur, wchk, wtag, spc, snext, upc, cpc, faults, seq, uidKnown>>
AnnEvent(th) ==
    /\ ann[th] = "event"
    /\ event' = TRUE
    /\ ann' = [ann EXCEPT ![th] = "cbs"]
    /\ Quiet
    /\ UNCHANGED <<status, exc, cleanup, task, rq, rsem, wpc, wcur, wchk, wtag, spc, snext, upc, cpc, faults, seq, uidKnown>>
\* done callbacks run once (the list is emptied under its lock)
AnnCbs(th) ==
    /\ ann[th] = "cbs"
    /\ IF o.x[1].d[1] = 0
       THEN Emit2([e |-> "CbBegin", cb |-> "done", x |-> 0, sub |-> 1, n |-> 0, flag |-> IsDoneS(status),
                   st |-> IF status = "success" THEN "success" ELSE "error", user |-> (th \in {"user", "canceller"})],
                  [e |-> "CbEnd", cb |-> "done", x |-> 0, sub |-> 1, user |-> FALSE])
       ELSE Quiet
    /\ ann' = [ann EXCEPT ![th] = ""]
    /\ UNCHANGED <<status, exc, event, cleanup, task, rq, rsem, wpc, wcur, wchk, wtag, spc, snext, upc, cpc, faults, seq, uidKnown>>
Announcing(th) == ann[th] # ""

\* ---------------------------------------------------------------- user
UserCall ==
    /\ upc = "call"
    /\ Emit2([e |-> "Call", x |-> 0, user |-> FALSE], [e |-> "Ret", x |-> 0, ok |-> TRUE, user |-> FALSE])
    /\ upc' = "result" /\ spc' = "start"
    /\ UNCHANGED <<status, exc, event, cleanup, task, rq, rsem, wpc, wcur, wtag, wchk, snext, cpc, ann, faults, seq, uidKnown>>
\* result(): blocks until the done event is set
UserResult ==
    /\ upc = "result" /\ event
    /\ Emit([e |-> "ResultEnd", x |-> 0, oc |-> IF exc = "none" THEN "ok" ELSE "raise",
             ek |-> IF exc = "none" THEN "" ELSE IF exc = "cancel" THEN "cancel" ELSE IF exc = "CBQ" THEN "inj" ELSE "s3",
             tag |-> IF exc = "cancel" THEN "" ELSE IF exc = "none" THEN "" ELSE exc,
             cls |-> IF exc = "cancel" THEN "CancelledError" ELSE "", msgok |-> TRUE, user |-> FALSE])
    /\ upc' = "shutdown"
    /\ UNCHANGED <<status, exc, event, cleanup, task, rq, rsem, wpc, wcur, wchk, wtag, spc, snext, cpc, ann, faults, seq, uidKnown>>
\* shutdown(): all workers idle and queues empty, every announcement over
UserShutdown ==
    /\ upc = "shutdown"
    /\ \A w \in Workers : wpc[w] = "idle"
    /\ rq = <<>> /\ spc = "end" /\ \A t \in Threads : ~Announcing(t)
    /\ cpc \in {"idle", "done"}
    /\ Emit2([e |-> "DoneFlip", x |-> 0, done |-> IsDoneS(status), user |-> FALSE],
             [e |-> "ShutdownEnd", user |-> FALSE])
    /\ upc' = "end"
    /\ UNCHANGED <<status, exc, event, cleanup, task, rq, rsem, wpc, wcur, wchk, wtag, spc, snext, cpc, ann, faults, seq, uidKnown>>

\* future.cancel() from another user thread, any time after the call
CancelStart ==
    /\ UserMayCancel /\ cpc = "idle" /\ upc \in {"result"}
    /\ LET wasNS == status = "not-started" IN
       /\ IF IsDoneS(status) THEN UNCHANGED <<status, exc>>
          ELSE status' = "cancelled" /\ exc' = "cancel"
       /\ Emit2([e |-> "CancelCall", how |-> "future", x |-> 0, user |-> FALSE],
                [e |-> "CancelRet", how |-> "future", x |-> 0, ok |-> TRUE, t |-> clk, user |-> FALSE])
       /\ cpc' = IF wasNS THEN "announce" ELSE "done"
       /\ ann' = IF wasNS THEN [ann EXCEPT !["canceller"] = "status"] ELSE ann
    /\ UNCHANGED <<event, cleanup, task, rq, rsem, wpc, wcur, wchk, wtag, spc, snext, upc, faults, seq, uidKnown>>
CancelFinish ==
    /\ cpc = "announce" /\ ~Announcing("canceller")
    /\ cpc' = "done" /\ Quiet
    /\ UNCHANGED <<status, exc, event, cleanup, task, rq, rsem, wpc, wcur, wchk, wtag, spc, snext, upc, ann, faults, seq, uidKnown>>

\* ---------------------------------------------------------------- submission task
\* Task.__call__ of the SubmissionTask: skip _main if the transfer is done
SubStart ==
    /\ spc = "start"
    /\ spc' = IF IsDoneS(status) THEN "end" ELSE "queued"
    /\ Quiet
    /\ UNCHANGED <<status, exc, event, cleanup, task, rq, rsem, wpc, wcur, wtag, wchk, snext, upc, cpc, ann, faults, seq, uidKnown>>
\* set_status_to_queued: RuntimeError if done
SubQueued ==
    /\ spc = "queued"
    /\ IF IsDoneS(status)
       THEN spc' = "fail" /\ UNCHANGED status /\ Quiet
       ELSE status' = "queued" /\ spc' = "onqueued"
            /\ Emit([e |-> "Status", x |-> 0, st |-> "queued", user |-> FALSE])
    /\ UNCHANGED <<exc, event, cleanup, task, rq, rsem, wpc, wcur, wtag, wchk, snext, upc, cpc, ann, faults, seq, uidKnown>>
SubOnQueued(ok) ==
    /\ spc = "onqueued"
    /\ IF ok THEN /\ spc' = "running" /\ UNCHANGED <<faults, status, exc>>
                  /\ Emit2([e |-> "CbBegin", cb |-> "queued", x |-> 0, sub |-> 1, n |-> 0, flag |-> TRUE, st |-> "", user |-> FALSE],
                           [e |-> "CbEnd", cb |-> "queued", x |-> 0, sub |-> 1, user |-> FALSE])
       ELSE /\ faults < MaxFaults /\ faults' = faults + 1
            /\ Emit2([e |-> "CbBegin", cb |-> "queued", x |-> 0, sub |-> 1, n |-> 0, flag |-> TRUE, st |-> "", user |-> FALSE],
                     [e |-> "Fault", x |-> 0, tag |-> "CBQ", fatal |-> TRUE, user |-> FALSE])
            /\ SetException("CBQ") /\ spc' = "failwait"
    /\ UNCHANGED <<event, cleanup, task, rq, rsem, wpc, wcur, wtag, wchk, snext, upc, cpc, ann, seq, uidKnown>>
SubRunning ==
    /\ spc = "running"
    /\ IF IsDoneS(status) THEN spc' = "fail" /\ UNCHANGED status
       ELSE status' = "running" /\ spc' = "submit"
    /\ Quiet
    /\ UNCHANGED <<exc, event, cleanup, task, rq, rsem, wpc, wcur, wtag, wchk, snext, upc, cpc, ann, faults, seq, uidKnown>>
\* BoundedExecutor.submit: acquire a queue slot (blocks while none), enqueue
SubSubmit ==
    /\ spc = "submit" /\ snext <= Len(SubOrder) /\ rsem > 0
    /\ rsem' = rsem - 1
    /\ rq' = Append(rq, SubOrder[snext])
    /\ task' = [task EXCEPT ![SubOrder[snext]].st = "queued"]
    /\ snext' = snext + 1
    /\ Emit([e |-> "ExecSubmit", stage |-> "request", inflight |-> RQ - rsem + 1, user |-> FALSE])
    /\ UNCHANGED <<status, exc, event, cleanup, wpc, wcur, wchk, wtag, spc, upc, cpc, ann, faults, seq, uidKnown>>
SubEnd ==
    /\ spc = "submit" /\ snext > Len(SubOrder)
    /\ spc' = "end" /\ Quiet
    /\ UNCHANGED <<status, exc, event, cleanup, task, rq, rsem, wpc, wcur, wtag, wchk, snext, upc, cpc, ann, faults, seq, uidKnown>>
\* exception path of _main: set_exception, wait for every submitted future,
\* announce done
SubFail ==
    /\ spc = "fail"
    /\ SetException("RuntimeError") /\ spc' = "failwait" /\ Quiet
    /\ UNCHANGED <<event, cleanup, task, rq, rsem, wpc, wcur, wtag, wchk, snext, upc, cpc, ann, faults, seq, uidKnown>>
SubFailWait ==
    /\ spc = "failwait"
    /\ \A k \in Tasks : task[k].st \in {"unsub", "done"}
    /\ spc' = "failann" /\ AnnStart("sub") /\ Quiet
    /\ UNCHANGED <<status, exc, event, cleanup, task, rq, rsem, wpc, wcur, wtag, wchk, snext, upc, cpc, faults, seq, uidKnown>>
SubFailDone ==
    /\ spc = "failann" /\ ~Announcing("sub")
    /\ spc' = "end" /\ Quiet
    /\ UNCHANGED <<status, exc, event, cleanup, task, rq, rsem, wpc, wcur, wtag, wchk, snext, upc, cpc, ann, faults, seq, uidKnown>>

\* ---------------------------------------------------------------- request workers (Task.__call__)
WTake(w) ==
    /\ wpc[w] = "idle" /\ rq # <<>>
    /\ rq' = Tail(rq)
    /\ wcur' = [wcur EXCEPT ![w] = Head(rq)]
    /\ task' = [task EXCEPT ![Head(rq)].st = "running"]
    /\ wpc' = [wpc EXCEPT ![w] = "deps"]
    /\ Quiet
    /\ UNCHANGED <<status, exc, event, cleanup, rsem, wchk, wtag, spc, snext, upc, cpc, ann, faults, seq, uidKnown>>
\* _wait_on_dependent_futures, then gather their results (a failed
\* dependency re-raises its exception) and test done()
WDeps(w) ==
    /\ wpc[w] = "deps"
    /\ \A d \in Deps(wcur[w]) : task[d].st = "done"
    \* (Task.__call__ never raises: a failed dependency shows up as done())
    /\ wpc' = [wpc EXCEPT ![w] = IF IsDoneS(status) THEN "fin" ELSE "main"]
    /\ wchk' = [wchk EXCEPT ![w] = clk]
    /\ UNCHANGED o /\ clk' = clk + 1     \* the check is a step of its own on the clock
    /\ UNCHANGED <<status, exc, event, cleanup, task, rq, rsem, wcur, wtag, spc, snext, upc, cpc, ann, faults, seq, uidKnown>>
WMainBegin(w) ==
    /\ wpc[w] = "main"
    /\ LET k == wcur[w] IN
       Emit(EvS3Begin(w, OpOf(k), IF k \in 1..P THEN k ELSE 0))
    /\ seq' = seq + 1
    /\ wpc' = [wpc EXCEPT ![w] = "inflight"]
    /\ UNCHANGED <<status, exc, event, cleanup, task, rq, rsem, wcur, wchk, wtag, spc, snext, upc, cpc, ann, faults, uidKnown>>
\* the S3 call returns: ok, or fails before / after its effect
WMainEnd(w, oc) ==
    /\ wpc[w] = "inflight"
    /\ LET k == wcur[w] IN
       /\ (oc # "ok") => faults < MaxFaults
       /\ faults' = IF oc = "ok" THEN faults ELSE faults + 1
       /\ IF oc = "ok"
          THEN /\ Emit(EvS3End(OpOf(k), "ok"))
               /\ wpc' = [wpc EXCEPT ![w] = "ok"]
               \* CreateMultipartUploadTask registers the abort cleanup
               /\ cleanup' = IF k = Create /\ P > 0 THEN "registered" ELSE cleanup
               /\ uidKnown' = (uidKnown \/ (k = Create /\ P > 0))
               /\ UNCHANGED wtag
          ELSE /\ Emit2(EvS3End(OpOf(k), oc),
                        [e |-> "Fault", x |-> 0, tag |-> "F" \o ToString(seq), fatal |-> TRUE, user |-> FALSE])
               /\ wpc' = [wpc EXCEPT ![w] = "exc"]
               /\ wtag' = [wtag EXCEPT ![w] = "F" \o ToString(seq)]
               /\ UNCHANGED <<cleanup, uidKnown>>
    /\ UNCHANGED <<status, exc, event, task, rq, rsem, wcur, wtag, wchk, spc, snext, upc, cpc, ann, seq>>
\* _execute_main returned: the final task sets the result (unconditionally)
WOk(w) ==
    /\ wpc[w] = "ok"
    /\ IF wcur[w] = Final
       THEN status' = "success" /\ exc' = "none"
       ELSE UNCHANGED <<status, exc>>
    /\ task' = [task EXCEPT ![wcur[w]].res = "ok"]
    /\ wpc' = [wpc EXCEPT ![w] = "fin"] /\ Quiet
    /\ UNCHANGED <<event, cleanup, rq, rsem, wcur, wchk, wtag, spc, snext, upc, cpc, ann, faults, seq, uidKnown>>
WExc(w) ==
    /\ wpc[w] = "exc"
    /\ SetException(wtag[w])
    /\ task' = [task EXCEPT ![wcur[w]].res = "exc"]
    /\ wpc' = [wpc EXCEPT ![w] = "fin"] /\ Quiet
    /\ UNCHANGED <<event, cleanup, rq, rsem, wcur, wchk, wtag, spc, snext, upc, cpc, ann, faults, seq, uidKnown>>
\* finally: the final task announces done; then the executor future completes
\* (dependents wake up) and the queue slot is released
WFin(w) ==
    /\ wpc[w] = "fin"
    /\ IF wcur[w] = Final
       THEN wpc' = [wpc EXCEPT ![w] = "announce"] /\ AnnStart(w) /\ UNCHANGED <<task, rsem>>
       ELSE /\ wpc' = [wpc EXCEPT ![w] = "idle"] /\ UNCHANGED ann
            /\ task' = [task EXCEPT ![wcur[w]].st = "done",
                                    ![wcur[w]].res = IF @ = "none" THEN "skipped" ELSE @]
            /\ rsem' = rsem + 1
    /\ Quiet
    /\ UNCHANGED <<status, exc, event, cleanup, rq, wcur, wchk, wtag, spc, snext, upc, cpc, faults, seq, uidKnown>>
WAnnounced(w) ==
    /\ wpc[w] = "announce" /\ ~Announcing(w)
    /\ wpc' = [wpc EXCEPT ![w] = "idle"]
    /\ task' = [task EXCEPT ![wcur[w]].st = "done", ![wcur[w]].res = IF @ = "none" THEN "skipped" ELSE @]
    /\ rsem' = rsem + 1 /\ Quiet
    /\ UNCHANGED <<status, exc, event, cleanup, rq, wcur, wchk, wtag, spc, snext, upc, cpc, ann, faults, seq, uidKnown>>

Next ==
    \/ UserCall \/ UserResult \/ UserShutdown \/ CancelStart \/ CancelFinish
    \/ SubStart \/ SubQueued \/ SubOnQueued(TRUE) \/ SubOnQueued(FALSE) \/ SubRunning
    \/ SubSubmit \/ SubEnd \/ SubFail \/ SubFailWait \/ SubFailDone
    \/ \E w \in Workers : WTake(w) \/ WDeps(w) \/ WMainBegin(w)
                          \/ WMainEnd(w, "ok") \/ WMainEnd(w, "fault") \/ WMainEnd(w, "fault-after")
                          \/ WOk(w) \/ WExc(w) \/ WFin(w) \/ WAnnounced(w)
    \/ \E th \in Threads : AnnStatus(th) \/ AnnAbortBegin(th) \/ AnnAbortEnd(th) \/ AnnEvent(th) \/ AnnCbs(th)

Spec == Init /\ [][Next]_vars
FairSpec == Spec /\ WF_vars(Next)

\* ---------------------------------------------------------------- properties
PipelineClauses ==
    { "C01_ObjectEqualsSource", "C01_PartsAscending1toN", "C01_PartsTileSource", "C01_CompletedOnce",
      "C03_NoSuccessAfterFatalFault", "C03_RaisedIsOccurredFailureOrCancel",
      "C05_ExactlyOneEnd", "C05_NeverCompletedTwice", "C05_NoPartOrCompleteAfterAbort",
      "C05_AbortAfterAllReturned",
      "C07_NoRequestIfNotStarted", "C07_CancelledOutcome", "C07_CancelErrorTruthful",
      "C08_QueuedAtMostOnce", "C08_QueuedBeforeAnyRequest", "C08_NoQueuedIfCancelledBeforeStart",
      "C08_DoneAtMostOnce", "C08_DoneAfterFinalAndQuiet", "C08_OutcomeFinalAtDone",
      "C10_RequestsInFlightLeR", "C10_StageOccupancy", "C10_RequestThreadsLeR",
      "C17_DoneNeverReverts", "C18_NothingAfterShutdownReturns", "C18_AllDoneAtShutdownReturn" }
AllClausesHold == \A c \in PipelineClauses : Holds(c, o)
FailingClauses == {c \in PipelineClauses : ~Holds(c, o)}
ClausesOK == FailingClauses = {}

\* the request-queue semaphore is conserved
C12_QueueSlotsConserved ==
    rsem = RQ - Cardinality({k \in Tasks : task[k].st \in {"queued", "running"}})
\* termination (C04): the user's result() and shutdown() return
C04_ResultReturns == (upc = "result") ~> (upc # "result")
C04_ShutdownReturns == (upc = "shutdown") ~> (upc = "end")
=============================================================================
