#!/usr/bin/env python3
"""Run every stored seeded change (seeded/<id>/patch.diff) through the quick
check of its property, each in its own scratch worktree of /repo (removed
afterwards), and record the outcome in seeded/<id>/meta.json ('detection')
and seeded/MATRIX.md.   usage: mutant_matrix.py [-j N] [id-prefix ...]"""
import json, os, subprocess, sys, shutil, re
from concurrent.futures import ThreadPoolExecutor

V = os.path.dirname(os.path.dirname(os.path.abspath(__file__)))


def one(mid):
    d = os.path.join(V, 'seeded', mid)
    pid = mid.split('-')[0]
    wt = f'/tmp/mm-{mid}'
    out = f'/tmp/mm-out-{mid}'
    subprocess.run(['git', '-C', '/repo', 'worktree', 'remove', '--force', wt], capture_output=True)
    r = subprocess.run(['git', '-C', '/repo', 'worktree', 'add', '--detach', wt, 'HEAD', '-q'], capture_output=True, text=True)
    res = {'check': f'./check {pid} --tier quick', 'repo_commit': subprocess.run(
        ['git', '-C', '/repo', 'rev-parse', '--short', 'HEAD'], capture_output=True, text=True).stdout.strip()}
    try:
        a = subprocess.run(['git', '-C', wt, 'apply', os.path.join(d, 'patch.diff')], capture_output=True, text=True)
        if a.returncode:
            res.update(caught=None, note='patch does not apply: ' + a.stderr[-200:])
        else:
            env = dict(os.environ, VERIF_REPO=wt, VERIF_SCRATCH=out)
            p = subprocess.run([os.path.join(V, 'check'), pid, '--tier', 'quick'], capture_output=True, text=True, env=env)
            lines = (p.stdout + p.stderr).splitlines()
            clauses = sorted({m.group(1) for l in lines for m in [re.search(r'clause=(\S+)', l)] if m and l.startswith('VIOLATION')})
            res.update(caught=(p.returncode == 1), rc=p.returncode, clauses=clauses[:8],
                       machinery=[l[:200] for l in lines if l.startswith('MACHINERY')][:2])
    finally:
        subprocess.run(['git', '-C', '/repo', 'worktree', 'remove', '--force', wt], capture_output=True)
        shutil.rmtree(out, ignore_errors=True)
    mp = os.path.join(d, 'meta.json')
    meta = json.load(open(mp))
    meta['detection'] = res
    json.dump(meta, open(mp, 'w'), indent=1)
    print(mid, res.get('caught'), res.get('clauses'), res.get('note', ''), flush=True)
    return mid, res


def main():
    args = sys.argv[1:]
    j = 3
    if args[:1] == ['-j']:
        j = int(args[1]); args = args[2:]
    ids = sorted(x for x in os.listdir(os.path.join(V, 'seeded'))
                 if os.path.isfile(os.path.join(V, 'seeded', x, 'patch.diff')))
    if args:
        ids = [i for i in ids if i.startswith(tuple(args))]
    with ThreadPoolExecutor(j) as ex:
        rows = list(ex.map(one, ids))
    # rewrite the matrix from all meta files
    out = ['# Seeded changes and the check that catches them', '',
           '| id | file | what | caught by (quick check of its property) |', '|---|---|---|---|']
    for x in sorted(os.listdir(os.path.join(V, 'seeded'))):
        mp = os.path.join(V, 'seeded', x, 'meta.json')
        if not os.path.isfile(mp):
            continue
        m = json.load(open(mp))
        det = m.get('detection') or {}
        files = sorted(set(re.findall(r'^\+\+\+ b/(\S+)', open(os.path.join(V, 'seeded', x, 'patch.diff')).read(), re.M)))
        what = (m.get('summary') or m.get('what') or '').replace('|', '/').replace('\n', ' ')[:160]
        c = (('outside the property: ' + m['scope_note']) if det.get('caught') is False and m.get('scope_note') else
             '**missed**' if det.get('caught') is False else
             ('n/a: ' + det.get('note', '') if det.get('caught') is None else ', '.join(det.get('clauses', [])[:3])))
        out.append(f"| {x} | {', '.join(f.replace('s3transfer/', '') for f in files)} | {what} | {c} |")
    open(os.path.join(V, 'seeded', 'MATRIX.md'), 'w').write('\n'.join(out) + '\n')
    missed = [m for m, r in rows if r.get('caught') is not True]
    print('missed/na:', missed)


main()
