"""Deterministic execution of s3transfer.crt.CRTTransferManager against a stub
CRT client (the real awscrt is not installed)."""

import os
import shutil
import sys
import tempfile

HERE = os.path.dirname(os.path.abspath(__file__))
sys.path.insert(0, HERE)

# botocore must be imported BEFORE the stub awscrt becomes importable, so that
# botocore itself keeps running without CRT (botocore.compat.HAS_CRT False)
import botocore.session  # noqa: E402,F401
import botocore.compat  # noqa: E402,F401

STUBS = os.path.join(HERE, 'stubs')
if STUBS not in sys.path:
    sys.path.insert(0, STUBS)

import coop  # noqa: E402
import fakes3  # noqa: E402


class ConstructionError(Exception):
    pass


class CrtError(Exception):
    pass


def run(sc, chooser, max_steps=20000):
    """sc: {cap, transfers:[{kind, fail, outcome, size}], cancel:{t, gate},
    shutdown_cancel: bool, exit_exc: bool, future_first: bool}"""
    import awscrt.s3
    import s3transfer.crt as C
    import s3transfer.utils as U
    events = []
    s = coop.Scheduler(chooser, tracer=events.append, max_steps=max_steps)
    tmp = tempfile.mkdtemp(prefix='verif-crt-')
    transfers = sc['transfers']
    n = len(transfers)
    cap = sc.get('cap', 128)
    cur = {'t': -1}           # transfer being submitted by the user thread
    datas = {t: fakes3.pattern(tr.get('size', 5)) for t, tr in enumerate(transfers)}
    paths = {t: os.path.join(tmp, f'dst{t}') for t in range(n)}
    future_first = sc.get('future_first', True)

    def tcur():
        """transfer whose callbacks run on the calling thread"""
        name = s.current or ''
        if name.startswith('crt-r'):
            return int(name[5:])
        return cur['t']

    class Sem(coop.Semaphore):
        def __init__(self, value=1):
            super().__init__(min(value, cap))

        def acquire(self, blocking=True, timeout=None):
            r = super().acquire(blocking, timeout)
            s.emit('SemAcq', x=tcur(), value=self._value)
            return r

        def release(self, n_=1):
            self._value += n_
            s.emit('SemRel', x=tcur(), value=self._value)
            s.point('sem-release')

    evcount = [0]

    class Ev(coop.Event):
        def __init__(self):
            super().__init__()
            self.idx = evcount[0]
            evcount[0] += 1

        def set(self):
            self._flag = True
            s.emit('EvSet', x=self.idx)
            s.point('event-set')

    class _Thr:
        Lock = coop.Lock
        Event = Ev
        Semaphore = Sem

        def __getattr__(self, nme):
            import threading
            return getattr(threading, nme)

    def path2t(p):
        b = os.path.basename(p)
        num = ''
        for ch in b[3:]:
            if ch.isdigit():
                num += ch
            else:
                break
        return int(num) if b.startswith('dst') and num else -1

    class OSU(U.OSUtils):
        def rename_file(self, a, b):
            t = path2t(b)
            s.point('rename')
            if transfers[t].get('rename_fails'):
                s.emit('Rename', x=t, ok=False)
                raise OSError('injected rename failure')
            super().rename_file(a, b)
            s.emit('Rename', x=t, ok=True)

        def remove_file(self, f):
            t = path2t(f)
            s.point('remove')
            existed = os.path.exists(f)
            super().remove_file(f)
            s.emit('Remove', x=t, existed=existed)

    class Serializer(C.BaseCRTRequestSerializer):
        def serialize_http_request(self, transfer_type, future):
            t = cur['t']
            if transfers[t].get('fail') == 'serialize':
                s.emit('Construct', x=t, ok=False, where='serialize')
                raise ConstructionError('serialize')
            return ('REQ', transfer_type, t)

        def translate_crt_exception(self, exception):
            return None

    class Request:
        def __init__(self, t, kwargs):
            self.t = t
            self.kw = kwargs
            self.finished_future = coop.CoopFuture()
            self.cancelled = False

        def cancel(self):
            self.cancelled = True
            s.emit('CrtCancel', x=self.t)

    requests = {}

    class Client:
        def make_request(self, **kwargs):
            t = cur['t']
            if transfers[t].get('fail') == 'make_request':
                s.emit('Construct', x=t, ok=False, where='make_request')
                raise ConstructionError('make_request')
            r = Request(t, kwargs)
            requests[t] = r
            s.emit('Construct', x=t, ok=True, where='')
            s.spawn(f'crt-r{t}', run_request, r)
            return r

    def run_request(r):
        t = r.t
        tr = transfers[t]
        s.point('crt-start')
        want = tr.get('outcome', 'ok')
        s.point('crt-work')
        if r.cancelled:
            outcome = 'cancelled'
        else:
            outcome = want
        data = datas[t]
        if tr['kind'] == 'download_path':
            with open(r.kw['recv_filepath'], 'wb') as f:
                f.write(data if outcome == 'ok' else data[:2])
        elif tr['kind'] == 'download_stream' and r.kw.get('on_body'):
            r.kw['on_body'](chunk=data, offset=0)
        err = None
        if outcome == 'err':
            err = awscrt.s3.S3ResponseError(code=1, name='X', message='injected',
                                            status_code=500)
        elif outcome == 'cancelled':
            err = CrtError('AWS_ERROR_S3_CANCELED')
        s.emit('Finish', x=t, outcome=outcome)

        def fut():
            if err is None:
                r.finished_future._finish(result=None)
            else:
                r.finished_future._finish(exception=err)
        if future_first:
            fut()
            r.kw['on_done'](error=err)
        else:
            r.kw['on_done'](error=err)
            fut()

    class Sub:
        def __init__(self, t, idx):
            self.t, self.idx = t, idx

        def on_queued(self, future, **kw):
            if transfers[self.t].get('fail') == 'on_queued':
                s.emit('Construct', x=self.t, ok=False, where='on_queued')
                raise ConstructionError('on_queued')

        def on_done(self, future, **kw):
            s.emit('SubDone', x=self.t, sub=self.idx)
            s.point('cb')

    results = {}
    fs_state = [None]

    def snapshot(sched):
        out = []
        try:
            listing = sorted(os.listdir(tmp))
        except OSError:
            listing = []
        for t, tr in enumerate(transfers):
            if tr['kind'] != 'download_path':
                continue
            base = f'dst{t}'
            st, temps = 'absent', 0
            for nme in listing:
                if nme == base:
                    try:
                        with open(os.path.join(tmp, nme), 'rb') as f:
                            c = f.read()
                    except OSError:
                        c = None
                    st = 'complete' if c == datas[t] else 'partial'
                elif nme.startswith(base + os.extsep):
                    temps += 1
            out.append({'t': t, 'dest': st, 'temps': temps})
        if out != fs_state[0]:
            fs_state[0] = out
            sched.emit('FsSnap', files=out)
    s.point_hooks.append(snapshot)
    cancel = sc.get('cancel')

    def user():
        mgr = C.CRTTransferManager(Client(), Serializer())
        futs = {}

        def canceller():
            t = cancel['t']
            s.block(lambda: t in futs, 'future-exists', idle_ok=True)
            s.emit('Cancel', x=t, inflight=t in requests and not requests[t].finished_future.done())
            futs[t].cancel()
        if cancel:
            s.spawn('canceller', canceller, gate_step=cancel.get('gate', 0))

        def body():
            for t, tr in enumerate(transfers):
                cur['t'] = t
                subs = [Sub(t, 0)]
                if tr['kind'] == 'upload':
                    src = os.path.join(tmp, f'src{t}')
                    with open(src, 'wb') as f:
                        f.write(datas[t])
                    fut = mgr.upload(src, 'bkt', f'k{t}', subscribers=subs)
                elif tr['kind'] == 'download_path':
                    fut = mgr.download('bkt', f'k{t}', paths[t], subscribers=subs)
                elif tr['kind'] == 'download_stream':
                    import io
                    fut = mgr.download('bkt', f'k{t}', io.BytesIO(), subscribers=subs)
                else:
                    fut = mgr.delete('bkt', f'k{t}', subscribers=subs)
                futs[t] = fut
                if tr.get('fail'):
                    s.emit('InlineDone', x=t)
                cur['t'] = t + 1
            if sc.get('exit_exc'):
                raise ValueError('boom')
        try:
            if sc.get('exit_exc') is not None:
                s_cancel = bool(sc.get('exit_exc'))
                try:
                    with mgr:
                        body()
                        s.emit('ShutdownStart', cancel=s_cancel)
                except ValueError:
                    pass
            else:
                body()
                s.emit('ShutdownStart', cancel=bool(sc.get('shutdown_cancel')))
                mgr.shutdown(cancel=bool(sc.get('shutdown_cancel')))
        finally:
            snapshot(s)
            s.emit('ShutdownEnd')
        for t, f in futs.items():
            try:
                f.result()
                results[t] = 'ok'
            except BaseException as e:  # noqa
                results[t] = 'raise:' + type(e).__name__

    extra = [(C, 'threading', _Thr()), (C, 'OSUtils', OSU)]
    try:
        with coop.installed(s, threading_modules=(), time_modules=(), extra=extra):
            s.run(user, name='user')
    finally:
        shutil.rmtree(tmp, ignore_errors=True)
    return {'events': events, 'results': results, 'failure': s.failure,
            'failure_info': s.failure_info, 'thread_errors': [
                (nme, repr(e), tb[-1500:]) for nme, e, tb in s.thread_errors],
            'steps': s.step}


def normalize(res, sc, tid):
    ev = []
    renamed_fail = set()
    subs_seen = set()
    finished = set()
    for e in res['events']:
        k = e['e']
        if k == 'SemAcq':
            ev.append({'k': 'acquire', 't': e['x'], 'value': e['value']})
        elif k == 'SemRel':
            ev.append({'k': 'release', 't': e['x'], 'value': e['value']})
        elif k == 'Construct':
            ev.append({'k': 'construct', 't': e['x'], 'ok': bool(e['ok'])})
        elif k == 'InlineDone':
            ev.append({'k': 'inline_done', 't': e['x']})
        elif k == 'Cancel':
            if e.get('inflight') and e['x'] not in finished:
                ev.append({'k': 'cancel', 't': e['x']})
        elif k == 'ShutdownStart':
            ev.append({'k': 'shutdown_start'})
        elif k == 'ShutdownEnd':
            ev.append({'k': 'shutdown_end'})
        elif k == 'Finish':
            finished.add(e['x'])
            ev.append({'k': 'finish', 't': e['x'], 'outcome': e['outcome']})
        elif k == 'Rename':
            if not e['ok']:
                renamed_fail.add(e['x'])
            ev.append({'k': 'before', 't': e['x'], 'ok': bool(e['ok'])})
        elif k == 'Remove':
            if e['x'] in renamed_fail:
                continue       # part of the failed-rename handling
            ev.append({'k': 'before', 't': e['x'], 'ok': True})
        elif k == 'SubDone':
            if e['x'] not in subs_seen:
                subs_seen.add(e['x'])
                ev.append({'k': 'subs', 't': e['x']})
        elif k == 'EvSet':
            ev.append({'k': 'complete', 't': e['x']})
        elif k == 'FsSnap':
            for f in e['files']:
                ev.append({'k': 'snap', 't': f['t'], 'dest': f['dest'],
                           'temps': f['temps']})
    for e in ev:
        for f, d in (('t', -1), ('ok', True), ('value', 0), ('outcome', ''),
                     ('dest', ''), ('temps', 0)):
            e.setdefault(f, d)
    return {'id': tid, 'ev': ev}
