"""Running TLC and reading what it says."""

import json
import os
import re
import shutil
import subprocess
import tempfile
import time

VERIF = os.path.dirname(os.path.dirname(os.path.abspath(__file__)))
SPEC = os.path.join(VERIF, 'spec')
JAR = '/opt/veriftools/tla/tla2tools.jar'
DEPS = '/opt/veriftools/tla/CommunityModules-deps.jar'


class TLCError(Exception):
    """Machinery failure (parse error, crash, timeout) - never a verdict."""


class TLCResult:
    def __init__(self):
        self.generated = 0
        self.distinct = 0
        self.depth = 0
        self.ok = False            # "No error has been found"
        self.violated = []         # names of violated invariants/properties
        self.deadlock = False
        self.prints = []           # raw PrintT payloads (strings)
        self.coverage = {}         # action name -> (distinct, total)
        self.out = ''
        self.wall = 0.0
        self.cex = ''              # text of the first counterexample
        self.postcondition_failed = False

    def json_prints(self, prefix):
        """PrintT(<<"prefix", jsonstring>>)-style payloads."""
        out = []
        for p in self.prints:
            if p.startswith(prefix):
                out.append(p[len(prefix):])
        return out


def scratch_dir(prefix='verif-tlc-'):
    return tempfile.mkdtemp(prefix=prefix)


def run_tlc(module, cfg, workdir=None, workers=1, env=None, timeout=1800,
            extra=(), spec_dirs=(SPEC, os.path.join(SPEC, 'mc'),
                                 os.path.join(SPEC, 'trace')),
            coverage=False, deadlock=None, dfs_queue=False, simulate=None,
            depth=None, seed=None, java_opts=(), keep=False, files=None):
    """Run TLC on ``module`` (a .tla name found in spec_dirs) with config
    ``cfg`` (a file name found in spec_dirs, or literal cfg text).

    files: optional {name: text} extra files written into the work dir
    (generated modules, generated cfg).
    """
    own = workdir is None
    if own:
        workdir = scratch_dir()
    try:
        for d in spec_dirs:
            if not os.path.isdir(d):
                continue
            for fn in os.listdir(d):
                if fn.endswith('.tla') or fn.endswith('.cfg'):
                    shutil.copy(os.path.join(d, fn), os.path.join(workdir, fn))
        for name, text in (files or {}).items():
            with open(os.path.join(workdir, name), 'w') as f:
                f.write(text)
        if '\n' in cfg or cfg.strip().startswith(('SPECIFICATION', 'INIT')):
            cfgname = module + '_gen.cfg'
            with open(os.path.join(workdir, cfgname), 'w') as f:
                f.write(cfg)
        else:
            cfgname = cfg
        # (TLC unpacks its standard modules into java.io.tmpdir on every run: keep
        #  that inside the work directory, which is removed afterwards)
        jopts = ['-XX:+UseParallelGC', '-XX:ParallelGCThreads=4', '-Xmx6g',
                 '-Xss16m', f'-Djava.io.tmpdir={workdir}']
        if dfs_queue:
            jopts.append('-Dtlc2.tool.queue.IStateQueue=StateDeque')
        jopts.extend(java_opts)
        cmd = ['java'] + jopts + [
            '-cp', f'{JAR}:{DEPS}', 'tlc2.TLC', '-workers', str(workers),
            '-metadir', os.path.join(workdir, 'states'), '-noGenerateSpecTE',
            '-config', cfgname,
        ]
        if coverage:
            cmd += ['-coverage', '1']
        if deadlock is False:
            cmd += ['-deadlock']
        if simulate:
            cmd += ['-simulate', simulate]
        if depth:
            cmd += ['-depth', str(depth)]
        if seed is not None:
            cmd += ['-seed', str(seed)]
        cmd += list(extra)
        cmd += [module]
        e = dict(os.environ)
        if env:
            e.update({k: str(v) for k, v in env.items()})
        t0 = time.time()
        try:
            p = subprocess.run(cmd, cwd=workdir, env=e, capture_output=True,
                               text=True, timeout=timeout)
        except subprocess.TimeoutExpired as ex:
            raise TLCError(f'TLC timeout after {timeout}s on {module}') from ex
        r = parse_output(p.stdout + '\n' + p.stderr)
        r.wall = time.time() - t0
        r.returncode = p.returncode
        if not r.ok and not r.violated and not r.deadlock \
                and not r.postcondition_failed:
            raise TLCError(
                f'TLC failed on {module}/{cfgname} (rc={p.returncode}):\n'
                + (p.stdout + p.stderr)[-4000:])
        return r
    finally:
        if own and not keep:
            shutil.rmtree(workdir, ignore_errors=True)


_RE_STATES = re.compile(
    r'(\d+) states generated, (\d+) distinct states found')
_RE_DEPTH = re.compile(r'The depth of the complete state graph search is (\d+)')
_RE_INV = re.compile(r'Error: Invariant (\S+) is violated')
_RE_PROP = re.compile(r'Error: (?:Action|Temporal) propert(?:y|ies) (\S+)? ?(?:is|were) violated')
_RE_COV = re.compile(r'^<(\w+) line .*>: (\d+):(\d+)', re.M)


def parse_output(out):
    r = TLCResult()
    r.out = out
    m = None
    for m in _RE_STATES.finditer(out):
        pass
    if m:
        r.generated = int(m.group(1))
        r.distinct = int(m.group(2))
    else:
        ms = re.search(r'The number of states generated: (\d+)', out)
        if ms:      # simulation mode
            r.generated = int(ms.group(1))
            r.distinct = int(ms.group(1))
    m = _RE_DEPTH.search(out)
    if m:
        r.depth = int(m.group(1))
    r.ok = 'Model checking completed. No error has been found.' in out \
        or 'No error has been found' in out \
        or ('Simulation using seed' in out and 'Error:' not in out
            and 'The number of states generated' in out)
    r.violated = _RE_INV.findall(out)
    if 'Action property' in out and 'violated' in out:
        mm = re.search(r'Action property (\S+) is violated', out)
        r.violated.append(mm.group(1) if mm else 'ActionProperty')
    if 'Temporal properties were violated' in out:
        r.violated.append('TemporalProperty')
    for mm in re.finditer(r'Temporal property (\S+) was violated', out):
        r.violated.append(mm.group(1))
    if 'Deadlock reached' in out:
        r.deadlock = True
    if 'Error: The postcondition' in out or 'POSTCONDITION' in out and \
            'violated' in out:
        r.postcondition_failed = True
    i = out.find('Error: ')
    if i >= 0:
        r.cex = out[i:i + 6000]
        r.cex_full = out[i:]
    # PrintT payloads: lines that are TLA+ strings or tuples
    for line in out.splitlines():
        if line.startswith('"') and line.endswith('"'):
            try:
                r.prints.append(_unquote(line))
            except Exception:
                pass
    for m in _RE_COV.finditer(out):
        r.coverage[m.group(1)] = (int(m.group(2)), int(m.group(3)))
    return r


def _unquote(s):
    # TLC prints strings with TLA+ escapes, which are JSON compatible
    return json.loads(s)


def sany(module_path):
    p = subprocess.run(
        ['java', '-cp', f'{JAR}:{DEPS}', 'tla2sany.SANY', module_path],
        capture_output=True, text=True)
    return p.returncode == 0 and 'error' not in p.stdout.lower(), p.stdout
