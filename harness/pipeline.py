"""Batch execution of scenarios against the real TransferManager and batch
validation of the recorded traces by TLC (ObsTrace.tla)."""

import hashlib
import json
import multiprocessing as mp
import os
import random
import sys
import time
from concurrent.futures import ThreadPoolExecutor

sys.path.insert(0, os.path.dirname(os.path.abspath(__file__)))

import coop  # noqa: E402
import monitor  # noqa: E402

NPROC = int(os.environ.get('VERIF_NPROC', '14'))


def make_chooser(spec):
    kind = spec[0]
    if kind == 'random':
        return coop.RandomChooser(spec[1], stay=spec[2] if len(spec) > 2 else 0.5)
    if kind == 'pct':
        return coop.PCTChooser(spec[1], spec[2] if len(spec) > 2 else 3,
                               spec[3] if len(spec) > 3 else 300)
    if kind == 'fifo':
        return coop.FifoChooser()
    if kind == 'lifo':
        return coop.LifoChooser()
    if kind == 'rr':
        return coop.RoundRobinChooser()
    if kind == 'replay':
        return coop.ReplayChooser(spec[1])
    if kind == 'dfs':
        return coop.DFSChooser(spec[1], spec[2] if len(spec) > 2 else 1)
    raise ValueError(spec)


def _run_job(job):
    import runner
    sc, chooser_spec, jid = job
    ch = make_chooser(chooser_spec)
    t0 = time.time()
    try:
        res = runner.run_scenario(sc, ch, max_steps=sc.get('max_steps', 6000))
    except Exception as e:  # machinery failure of this run
        import traceback
        return {'jid': jid, 'error': traceback.format_exc()[-2000:]}
    tr = monitor.normalize(res, sc, jid)
    h = hashlib.sha1(json.dumps(tr['ev'], sort_keys=True).encode()).hexdigest()
    out = {
        'jid': jid, 'trace': tr, 'hash': h, 'steps': res['steps'],
        'failure': res['failure'], 'failure_info': res.get('failure_info'),
        'results': res['results'], 'thread_errors': res['thread_errors'],
        's3calls': sum(1 for e in tr['ev'] if e['e'] == 'S3Begin'),
        'wall': time.time() - t0,
    }
    if isinstance(ch, coop.DFSChooser):
        out['dfs_log'] = ch.log
    if res['failure'] or res['thread_errors']:
        out['choices'] = res['choices']
    return out


def _work(jobs):
    return [_run_job(j) for j in jobs]


_POOL = None


def pool():
    global _POOL
    if _POOL is None:
        ctx = mp.get_context('fork')
        _POOL = ctx.Pool(processes=NPROC)
    return _POOL


def close_pool():
    global _POOL
    if _POOL is not None:
        _POOL.close()
        _POOL.join()
        _POOL = None


def record(jobs, chunk=25):
    """jobs: list of (scenario, chooser_spec).  Returns list of run dicts in
    job order."""
    jobs = [(sc, ch, i) for i, (sc, ch) in enumerate(jobs)]
    chunks = [jobs[i:i + chunk] for i in range(0, len(jobs), chunk)]
    out = []
    if len(jobs) <= 4:
        for c in chunks:
            out.extend(_work(c))
    else:
        for part in pool().imap(_work, chunks):
            out.extend(part)
    out.sort(key=lambda r: r['jid'])
    return out


def validate_runs(runs, per_jvm=400, jvms=8):
    """TLC-validate the traces of ``runs``; returns ({jid: {clause: idx}},
    [TLCResult])."""
    traces = [r['trace'] for r in runs if 'trace' in r]
    groups = [traces[i:i + per_jvm] for i in range(0, len(traces), per_jvm)]
    verdicts = {}
    results = []
    if not groups:
        return verdicts, results
    with ThreadPoolExecutor(max_workers=jvms) as ex:
        for v, r in ex.map(monitor.validate, groups):
            verdicts.update(v)
            results.append(r)
    return verdicts, results


def run_and_check(ck, jobs, clauses, label, known_attr=None, keep_pool=True):
    """Record + validate ``jobs``; report violations of ``clauses`` (a set of
    clause names, or a prefix string such as 'C05_') to check ``ck``.
    Returns the list of runs (with 'verdict')."""
    runs = record(jobs)
    errs = [r for r in runs if 'error' in r]
    if errs:
        ck.machinery_errors.append(f'{label}: {len(errs)} runs failed: '
                                   + errs[0]['error'][-600:])
    terr = [r for r in runs if r.get('thread_errors')]
    if terr:
        ck.machinery_errors.append(
            f'{label}: harness thread error: {terr[0]["thread_errors"][0][2][-800:]}')
    verdicts, tlcs = validate_runs(runs)
    for r in tlcs:
        ck.add_tlc(f'ObsTrace[{label}]', r, exhaustive=False)
    good = [r for r in runs if 'trace' in r]
    missing = [r for r in good if r['jid'] not in verdicts]
    if missing:
        ck.machinery_errors.append(
            f'{label}: {len(missing)} traces without verdict')
    ck.coverage['traces_validated_against_impl'] += len(good)
    ck.coverage['evaluations'] += len(good)
    others = {}
    for r in good:
        ck.distinct(r['hash'])
        v = verdicts.get(r['jid'], {})
        r['verdict'] = v
        sc, chs, _ = jobs_lookup(jobs, r['jid'])
        for c, idx in v.items():
            if isinstance(clauses, str):
                mine = c.startswith(clauses)
            elif isinstance(clauses, tuple):
                mine = c.startswith(clauses)
            else:
                mine = c in clauses
            if not mine:
                others[c] = others.get(c, 0) + 1
                continue
            ev = r['trace']['ev']
            at = ev[idx - 1] if 0 < idx <= len(ev) else None
            report = {
                'family': label, 'at_event': at, 'index': idx,
                'transfers': [t.get('kind') + ':' + str(t.get('src') or t.get('dst') or '')
                              + ':' + str(t.get('size')) for t in sc['transfers']],
                'cancel': (sc.get('cancel') or {}).get('how'),
                'faults': sc.get('faults'), 'streams': sc.get('streams'),
                'results': r['results'],
            }
            if known_attr:
                report.update(known_attr(sc, r, c))
            ck.violation(c, report, replay={
                'kind': 'pipeline', 'scenario': sc, 'chooser': chs,
                'clause': c})
    if others:
        o = ck.coverage.setdefault('other_property_clauses_failed', {})
        for c, n in others.items():
            o[c] = o.get(c, 0) + n
    if good:
        r0 = good[0]
        ck.sample({'kind': 'pipeline trace', 'family': label,
                   'scenario': jobs[r0['jid']][0],
                   'events_head': r0['trace']['ev'][:12],
                   'n_events': len(r0['trace']['ev'])})
    return runs


def jobs_lookup(jobs, jid):
    sc, ch = jobs[jid]
    return sc, ch, jid


def replay_pipeline(rp):
    """Re-run one stored (scenario, chooser) and print its verdict."""
    import runner
    sc, chs = rp['scenario'], rp['chooser']
    res = runner.run_scenario(sc, make_chooser(tuple(chs)),
                              max_steps=sc.get('max_steps', 6000))
    tr = monitor.normalize(res, sc, 0)
    v, r = monitor.validate([tr])
    print('results:', res['results'], 'failure:', res['failure'])
    print('verdict:', v.get(0))
    for i, e in enumerate(tr['ev'], 1):
        print(i, json.dumps(e))
    return 1 if v.get(0) else 0
