"""C04 - decided by TLC on the end-to-end traces (ObsTrace/Props) and on the
Pipeline model; see checks/pipe.py for the scenario families.  The barrier
that releases a download's final task (CountCallbackInvoker) has its own
specification, Invoker.tla (c04_invoker.py)."""
import json

from checks import pipe


def run(tier, seed):
    extra = None
    try:
        from checks import pipeline_mc
        from checks import c04_invoker

        def extra(ck, t, s):
            pipeline_mc.run(ck, 'C04', t, s)
            c04_invoker.run(ck, t, s)
    except ImportError:
        pass
    return pipe.run('C04', tier, seed, extra=extra)


def replay(path):
    with open(path) as f:
        rp = (json.load(f).get('replay') or {})
    if str(rp.get('kind', '')).startswith('c04-invoker'):
        from checks import c04_invoker
        return c04_invoker.replay_file(rp)
    return pipe.replay(path)
