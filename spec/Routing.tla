------------------------------ MODULE Routing ------------------------------
(***************************************************************************)
(* Extra-argument routing (property C15).                                  *)
(*                                                                         *)
(* RoutingConsts.tla is generated on every run: Accepts[op] = the input    *)
(* members of operation `op` in the installed botocore S3 model.           *)
(* The REQUIRED routing is stated here independently of the library's      *)
(* own filter lists: an accepted extra argument goes to exactly the        *)
(* operations of the transfer whose API has a member of that name, with    *)
(* the exceptions the property lists (copy-source conditions map to        *)
(* HeadObject members, a full-object checksum goes to the whole-object or  *)
(* complete request only and determines checksum type/algorithm, CRC32 is  *)
(* the default algorithm when the client computes checksums).              *)
(*                                                                         *)
(* A row of the trace file is one execution of a real front-end with a     *)
(* given set of extra arguments; it lists every API call observed (op,     *)
(* argument names, and the values of the checksum-steering arguments).     *)
(***************************************************************************)
EXTENDS Naturals, Sequences, FiniteSets, TLC, RoutingConsts

FullObj == {"ChecksumCRC32", "ChecksumCRC32C", "ChecksumCRC64NVME", "ChecksumSHA1", "ChecksumSHA256"}
AlgoOf(c) == CASE c = "ChecksumCRC32" -> "CRC32" [] c = "ChecksumCRC32C" -> "CRC32C"
               [] c = "ChecksumCRC64NVME" -> "CRC64NVME" [] c = "ChecksumSHA1" -> "SHA1"
               [] c = "ChecksumSHA256" -> "SHA256" [] OTHER -> ""

HeadMap == [ CopySourceIfMatch |-> "IfMatch", CopySourceIfModifiedSince |-> "IfModifiedSince",
             CopySourceIfNoneMatch |-> "IfNoneMatch", CopySourceIfUnmodifiedSince |-> "IfUnmodifiedSince",
             CopySourceSSECustomerKey |-> "SSECustomerKey",
             CopySourceSSECustomerAlgorithm |-> "SSECustomerAlgorithm",
             CopySourceSSECustomerKeyMD5 |-> "SSECustomerKeyMD5",
             RequestPayer |-> "RequestPayer", ExpectedBucketOwner |-> "ExpectedBucketOwner" ]

\* parameters the library supplies itself (not extra arguments)
Structural == {"Bucket", "Key", "Body", "UploadId", "PartNumber", "MultipartUpload",
               "CopySource", "CopySourceRange", "Range"}

WholeOp(method, mode) ==      \* the request that carries the whole object / completes it
    IF mode = "single" THEN (IF method = "upload" THEN "PutObject" ELSE "CopyObject")
    ELSE "CompleteMultipartUpload"

\* names the library must add because of a user supplied full-object checksum
Derived(row) ==
    LET fo == row.given \cap FullObj IN
    IF row.method = "upload" /\ row.mode = "multipart" /\ fo # {} THEN {"ChecksumType", "ChecksumAlgorithm"}
    ELSE IF row.method = "upload" /\ row.defaults /\ fo = {} /\ "ChecksumAlgorithm" \notin row.given
         THEN {"ChecksumAlgorithm"}
    ELSE {}

\* must argument `a` (given by the user or derived) appear in a call of `op`?
Required(row, op, a) ==
    IF row.method = "copy" /\ op = "HeadObject"
    THEN \E g \in row.given \cap DOMAIN HeadMap : HeadMap[g] = a
    ELSE IF a \in FullObj
    THEN op = WholeOp(row.method, row.mode)
    ELSE a \in Accepts[op]

\* the user-level universe of this row: what was given, what is derived and,
\* for the copy's HeadObject, the mapped names
Universe(row, op) ==
    IF row.method = "copy" /\ op = "HeadObject"
    THEN {HeadMap[g] : g \in row.given \cap DOMAIN HeadMap} \cup row.given
    ELSE row.given \cup Derived(row)

CallOK(row, call) ==
    LET extras == call.args \ Structural IN
    /\ \A a \in Universe(row, call.op) : (a \in extras) <=> Required(row, call.op, a)
    /\ extras \subseteq Universe(row, call.op)          \* nothing invented
    /\ extras \subseteq Accepts[call.op]                 \* nothing unknown to the operation
    /\ call.changed = {}                                 \* forwarded values are unmodified
    \* checksum steering values
    /\ LET fo == row.given \cap FullObj IN
       /\ (fo # {} /\ "ChecksumAlgorithm" \in extras) =>
              \E c \in fo : call.algo = AlgoOf(c)
       /\ ("ChecksumType" \in extras /\ fo # {}) => call.ctype = "FULL_OBJECT"
       /\ (fo = {} /\ "ChecksumAlgorithm" \notin row.given /\ "ChecksumAlgorithm" \in extras)
              => call.algo = "CRC32"

RowOK(row) ==
    IF row.expect = "rejected"
    THEN row.rejected /\ Len(row.calls) = 0
    ELSE /\ ~row.rejected
         /\ row.completed
         /\ \A i \in 1..Len(row.calls) : CallOK(row, row.calls[i])
         /\ row.ops \subseteq {row.calls[i].op : i \in 1..Len(row.calls)}
=============================================================================
