"""TLC on Manager.tla: the design argument for the shutdown barrier (C18) and
for its termination (C04).  The order in which shutdown() shuts the executors
down is a constant of the model: the order the code uses must satisfy the
properties, and - as a check that the model can tell the difference - every
other order must be refuted by TLC."""

import itertools

import tlc

MOD = '''---- MODULE MC_Manager ----
EXTENDS Manager
MCKinds == %s
MCOrder == %s
====
'''
CFG = '''SPECIFICATION FairSpec
CONSTANTS
  Kinds <- MCKinds
  Order <- MCOrder
  MaxFaults = %d
INVARIANT C18_AllDoneAtShutdownReturn
INVARIANT C18_NothingAfterShutdownReturns
INVARIANT C04_NoTransferLost
PROPERTY C04_ShutdownReturns
CHECK_DEADLOCK FALSE
'''
CODE_ORDER = ('sub', 'req', 'io')      # submission, request, io: manager._shutdown


def seq(xs):
    return '<<' + ', '.join(f'"{x}"' for x in xs) + '>>'


def run(ck, pid, tier, seed):
    if pid not in ('C18', 'C04'):
        return
    kinds_list = [('dl', 'up'), ('dl', 'dl'), ('up', 'dl', 'dl')]
    if tier == 'thorough':
        kinds_list += [('dl', 'up', 'dl', 'up'), ('dl', 'dl', 'dl')]
    for kinds in kinds_list:
        r = tlc.run_tlc('MC_Manager', CFG % (2 if len(kinds) < 4 else 1), workers=8, timeout=1500,
                        files={'MC_Manager.tla': MOD % (seq(kinds), seq(CODE_ORDER))})
        ck.add_tlc(f'Manager kinds={kinds} order={CODE_ORDER}', r)
        for v in r.violated:
            mine = v.startswith(pid + '_')
            rep = {'component': 'model', 'model': 'Manager', 'kinds': kinds,
                   'order': CODE_ORDER, 'cex': getattr(r, 'cex_full', r.cex)[-2500:]}
            if mine:
                ck.violation(v, rep)
            else:
                ck.coverage.setdefault('other_property_clauses_failed', {})[v] = 1
    # sensitivity: an order that shuts the io executor down before the request executor must be
    # refuted (a request task still running then submits to a dead executor and its transfer is
    # never announced); otherwise the model says nothing about the order
    refuted = 0
    others = [o for o in itertools.permutations(CODE_ORDER) if o.index('io') < o.index('req')]
    for order in others:
        r = tlc.run_tlc('MC_Manager', CFG % 1, workers=8, timeout=1500,
                        files={'MC_Manager.tla': MOD % (seq(('up', 'dl')), seq(order))})
        ck.add_tlc(f'Manager order={order} (expected to be refuted)', r, exhaustive=False)
        if r.violated:
            refuted += 1
    ck.coverage['manager_orders_refuted'] = f'{refuted} of {len(others)}'
    if refuted != len(others):
        ck.machinery_errors.append(
            f'Manager.tla does not distinguish the shutdown orders ({refuted}/{len(others)} refuted)')
