#!/usr/bin/env python3
"""Self-test of the binding between Pipeline.tla and the code (not a registered
check): take accepted traces of the real TransferManager, corrupt each in one
place (drop an event, swap two adjacent events of one thread, change one logged
field) and require Pipeline_Trace.tla to reject the result.

run:  cd /verif && PYTHONPATH=/repo:harness /venv/bin/python selftest/corrupt_pipeline_traces.py
Corruptions that are accepted are listed; the expected ones are explained at
the end of DESIGN.md section 11.6 (a dropped trailing event leaves a prefix of
a behaviour; a dropped no-op SetExc is explained by the worker skipping its
task; a swallowed abort failure looks like a successful abort)."""
import copy
import os
import sys

HERE = os.path.dirname(os.path.abspath(__file__))
sys.path.insert(0, os.path.join(HERE, '..', 'harness'))
sys.path.insert(0, os.path.join(HERE, '..', 'harness', 'checks'))
import pconf  # noqa: E402
import pipeline  # noqa: E402
import runner  # noqa: E402
import scenarios as S  # noqa: E402
from checks import pconf_e2e  # noqa: E402


def variants(ev):
    out = []
    for d in range(len(ev)):
        t = copy.deepcopy(ev)
        del t[d]
        out.append((f'drop {d + 1} {ev[d]["k"]}', t))
    for d in range(len(ev) - 1):
        if ev[d]['th'] == ev[d + 1]['th']:
            t = copy.deepcopy(ev)
            t[d], t[d + 1] = t[d + 1], t[d]
            out.append((f'swap {d + 1} {ev[d]["k"]}<->{ev[d + 1]["k"]}', t))
    for d, e in enumerate(ev):
        cands = []
        if e['k'] in ('Status', 'SetExc', 'SetResult', 'AnnBegin', 'CancelEnd'):
            cands.append(('st', 'cancelled' if e['st'] != 'cancelled' else 'failed'))
        if e['k'] == 'S3End' and e['oc'] == 'ok':
            cands.append(('oc', 'fault'))
        if e['k'] in ('TaskBegin', 'TaskEnd', 'Submit') and e['task'] != 'UploadPartTask':
            cands.append(('task', 'UploadPartTask'))
        if e['k'] in ('S3Begin', 'S3End') and e['op'] != 'UploadPart':
            cands.append(('op', 'UploadPart'))
        if e['k'] == 'Submit':
            cands.append(('inflight', e['inflight'] + 1))
        if e['k'] == 'S3Begin' and e['op'] == 'UploadPart':
            cands.append(('part', e['part'] + 1))
        if e['th'].startswith('request-w'):
            cands.append(('th', 'request-w1' if e['th'] != 'request-w1' else 'request-w0'))
        for f, v in cands:
            t = copy.deepcopy(ev)
            t[d][f] = v
            out.append((f'flip {d + 1} {e["k"]}.{f}', t))
    return out


def main():
    total = acc = 0
    base = [({'faults': [{'on': 's3', 'seq': 3, 'after': True, 'x': 0}]}, ('random', 11, 0.5)),
            ({'cancel': {'how': 'future', 'x': 0, 'gate': 40}}, ('random', 7, 0.5)),
            ({}, ('rr',)),
            ({'faults': [{'on': 'on_queued', 'nth': 1, 'x': 0}]}, ('fifo',))]
    for over, ch in base:
        sc = S.base('up-path-mp')
        sc.update(copy.deepcopy(over))
        res = runner.run_scenario(sc, pipeline.make_chooser(ch))
        ev = pconf.project(res['events'])
        vs = [('original', ev)] + variants(ev)
        reached, r = pconf_e2e.validate(
            [{'id': i, 'ev': t} for i, (_, t) in enumerate(vs)], (3, 2, 1000, 'upload'))
        ok0 = reached[0][0] > reached[0][1]
        print(f'scenario {over or "fault-free"}: original accepted={ok0}, '
              f'{len(vs) - 1} corruptions')
        for i, (name, _) in enumerate(vs[1:], 1):
            total += 1
            if reached[i][0] > reached[i][1]:
                acc += 1
                print('   accepted:', name)
        if not ok0:
            return 2
    print(f'{total - acc} of {total} corruptions rejected')
    return 0


if __name__ == '__main__':
    sys.exit(main())
