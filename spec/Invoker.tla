------------------------------ MODULE Invoker ------------------------------
(***************************************************************************)
(* s3transfer.utils.CountCallbackInvoker: the barrier that releases the    *)
(* FINAL task of a ranged download (and of the CRT / process-pool style    *)
(* fan-outs): the submission task increments once per part request,        *)
(* finalizes when all are submitted, every request's done callback         *)
(* decrements, and whoever brings the finalized count to zero invokes the  *)
(* callback (which submits the final task).                                *)
(*                                                                         *)
(*   - the callback is invoked only when finalized and the count is zero   *)
(*     (never early: the final task would rename a partial file, C02/C06), *)
(*   - with one finalize it is invoked exactly once (never twice: C08's    *)
(*     exactly-once on_done; never zero times: the transfer would hang,    *)
(*     C04),                                                               *)
(*   - an increment after finalize and a decrement at zero are refused     *)
(*     (RuntimeError) and change nothing.                                  *)
(*                                                                         *)
(* Every method body is one critical section of the object's lock, so one  *)
(* action per method; the callback runs inside the section.  Bound to the  *)
(* code twice: every explored transition is replayed into the real class,  *)
(* and free interleavings of real threads (switching at every lock         *)
(* operation) are validated as linearizable by Invoker_Trace.tla.          *)
(***************************************************************************)
EXTENDS Naturals, Sequences, TLC, Json

CONSTANTS Threads, MaxCount

VARIABLES count,     \* _count
          fin,       \* _is_finalized
          calls,     \* how often the callback was invoked
          nfin,      \* how often finalize() was called (ghost)
          last       \* [th, op, res, cb]: the step just taken
vars == <<count, fin, calls, nfin, last>>
view == <<count, fin, calls, nfin>>

R(t, op, res, cb) == [th |-> t, op |-> op, res |-> res, cb |-> cb]

Init == count = 0 /\ fin = FALSE /\ calls = 0 /\ nfin = 0
        /\ last = R("", "init", "", 0)

Increment(t) ==
    IF fin
    THEN /\ last' = R(t, "increment", "RuntimeError", 0)
         /\ UNCHANGED <<count, fin, calls, nfin>>
    ELSE /\ count' = count + 1
         /\ last' = R(t, "increment", "ok", 0)
         /\ UNCHANGED <<fin, calls, nfin>>

Decrement(t) ==
    IF count = 0
    THEN /\ last' = R(t, "decrement", "RuntimeError", 0)
         /\ UNCHANGED <<count, fin, calls, nfin>>
    ELSE LET fire == fin /\ count = 1 IN
         /\ count' = count - 1
         /\ calls' = IF fire THEN calls + 1 ELSE calls
         /\ last' = R(t, "decrement", "ok", IF fire THEN 1 ELSE 0)
         /\ UNCHANGED <<fin, nfin>>

Finalize(t) ==
    LET fire == count = 0 IN
    /\ fin' = TRUE /\ nfin' = nfin + 1
    /\ calls' = IF fire THEN calls + 1 ELSE calls
    /\ last' = R(t, "finalize", "ok", IF fire THEN 1 ELSE 0)
    /\ UNCHANGED count

Next == \E t \in Threads : Increment(t) \/ Decrement(t) \/ Finalize(t)
Spec == Init /\ [][Next]_vars

Bound == count <= MaxCount /\ nfin <= 2 /\ calls <= 3

\* ------------------------------------------------------------- properties
\* never early
C04_I_CallbackOnlyWhenDrained == [][(calls' > calls) => (fin' /\ count' = 0)]_vars
\* with the one finalize of the real callers: at most once, and exactly once
\* as soon as it is finalized and drained
C04_I_ExactlyOnce ==
    (nfin <= 1) => /\ calls <= 1
                   /\ (calls = 1) <=> (fin /\ count = 0)
\* refused calls change nothing
C04_I_RefusedUnchanged ==
    [][(last'.res = "RuntimeError") => UNCHANGED <<count, fin, calls>>]_vars
\* once finalized the count only falls
C04_I_NoGrowthAfterFinalize == [][fin => count' <= count]_vars

St(c, f, k) == [count |-> c, fin |-> f, calls |-> k]
DumpEdge ==
    PrintT("EDGE " \o ToJson([from |-> St(count, fin, calls), to |-> St(count', fin', calls'),
                              op |-> last']))
=============================================================================
