"""C14 - part planning tiles the object and respects S3 limits.

1. TLC checks the theorems of PartPlan.tla exhaustively on a scaled domain
   (sizes -1..40, chunk 1..12, limits min 3 / max 9 / 4 parts).
2. Apalache checks the same theorems symbolically at real scale
   (size <= 5 TiB, chunk <= 6 GiB, real limits)   [thorough tier].
3. conformance: every planning function of the package is evaluated over the
   whole scaled domain and at real-scale boundaries; each evaluation is one
   trace line and TLC (PartPlan_Trace / PartPlanBig_Trace) compares the
   result with the specification.
4. end-to-end: Range / CopySourceRange / part bodies of real transfers
   (clauses C14_* and C01_PartsTileSource of Props.tla).
"""

import json
import os
import random
import re
import shutil
import subprocess
import tempfile

import checklib
import tlc

MC_CFG = '''SPECIFICATION Spec
CONSTANTS
  MinPart = 3
  MaxPart = 9
  MaxParts = 4
  MaxSize = %(maxsize)d
  MaxChunk = %(maxchunk)d
INVARIANT C14_RangesTile
INVARIANT C14_PartLensSum
INVARIANT C14_PartNumbers1toN
INVARIANT C14_AdjustedWithinLimits
INVARIANT C14_ChangedOnlyIfRequired
INVARIANT C14_AdjustIsDoublingClamped
CHECK_DEADLOCK FALSE
'''

TRACE_CFG = '''SPECIFICATION Spec
CONSTANTS
  MinPart = %(minp)d
  MaxPart = %(maxp)d
  MaxParts = %(maxn)d
CONSTRAINT Report
CHECK_DEADLOCK FALSE
'''


class _Meta:
    def __init__(self, size):
        self.size = size


class _Fut:
    def __init__(self, size):
        self.meta = _Meta(size)


def _parse_range(s):
    m = re.match(r'bytes=(\d+)-(\d*)$', s)
    if not m:
        return None
    return int(m.group(1)), (int(m.group(2)) if m.group(2) else -1)


def real_cases(sizes, chunks, limits, legacy=True):
    """Evaluate the real planning functions; yields case dicts."""
    import s3transfer.utils as U
    import s3transfer.copies as C
    import s3transfer.upload as UP
    import s3transfer.download as D
    import s3transfer as LEG
    minp, maxp, maxn = limits
    adj = U.ChunksizeAdjuster(max_size=maxp, min_size=minp, max_parts=maxn)
    up = UP.UploadFilenameInputManager.__new__(UP.UploadFilenameInputManager)
    dl = D.DownloadSubmissionTask.__new__(D.DownloadSubmissionTask)
    legd = LEG.MultipartDownloader.__new__(LEG.MultipartDownloader) if legacy else None
    for size in sizes:
        for part in chunks:
            yield {'fn': 'adjust', 'part': part, 'size': size,
                   'res': adj.adjust_chunksize(part, None if size < 0 else size),
                   'who': 'ChunksizeAdjuster.adjust_chunksize'}
            if size < 0:
                continue
            n = U.calculate_num_parts(size, part)
            yield {'fn': 'num_parts', 'size': size, 'part': part, 'res': n,
                   'who': 'utils.calculate_num_parts'}
            yield {'fn': 'num_parts', 'size': size, 'part': part,
                   'res': up._get_num_parts(_Fut(size), part),
                   'who': 'upload._get_num_parts'}
            idxs = sorted(x for x in {0, 1, n // 2, n - 2, n - 1} if 0 <= x < n) \
                if n > 6 else list(range(n))
            for i in idxs:
                for total in (-1, size):
                    r = _parse_range(U.calculate_range_parameter(
                        part, i, n, None if total < 0 else total))
                    yield {'fn': 'range_start', 'idx': i, 'part': part,
                           'res': r[0], 'who': 'utils.calculate_range_parameter'}
                    yield {'fn': 'range_end', 'idx': i, 'part': part, 'n': n,
                           'total': total, 'res': r[1],
                           'who': 'utils.calculate_range_parameter'}
                r = _parse_range(dl._calculate_range_param(part, i, n))
                yield {'fn': 'range_start', 'idx': i, 'part': part, 'res': r[0],
                       'who': 'download._calculate_range_param'}
                yield {'fn': 'range_end', 'idx': i, 'part': part, 'n': n,
                       'total': -1, 'res': r[1],
                       'who': 'download._calculate_range_param'}
                if legd is not None:
                    r = _parse_range(legd._calculate_range_param(part, i, n))
                    yield {'fn': 'range_start', 'idx': i, 'part': part,
                           'res': r[0], 'who': 'legacy._calculate_range_param'}
                    yield {'fn': 'range_end', 'idx': i, 'part': part, 'n': n,
                           'total': -1, 'res': r[1],
                           'who': 'legacy._calculate_range_param'}
                yield {'fn': 'part_len', 'idx': i, 'n': n, 'part': part,
                       'size': size,
                       'res': C.CopySubmissionTask._get_transfer_size(
                           None, part, i, n, size),
                       'who': 'copies._get_transfer_size'}


def validate_cases(ck, cases, limits, label):
    d = tempfile.mkdtemp(prefix='verif-c14-')
    try:
        path = os.path.join(d, 'cases.ndjson')
        norm = []
        with open(path, 'w') as f:
            for c in cases:
                c2 = {'fn': c['fn'], 'size': c.get('size', 0), 'part': c.get('part', 1),
                      'idx': c.get('idx', 0), 'n': c.get('n', 0),
                      'total': c.get('total', -1), 'thr': c.get('thr', 0),
                      'res': c['res'], 'who': c.get('who', '')}
                norm.append(c2)
                f.write(json.dumps(c2) + '\n')
        cfg = TRACE_CFG % dict(minp=limits[0], maxp=limits[1], maxn=limits[2])
        r = tlc.run_tlc('PartPlan_Trace', cfg, workers=1,
                        env={'TRACE_FILE': path}, timeout=3000)
        ck.add_tlc(f'PartPlan_Trace[{label}]', r, exhaustive=False)
        out = r.json_prints('PLAN ')
        if not out:
            ck.machinery_errors.append(f'{label}: no PLAN verdict from TLC')
            return
        j = json.loads(out[-1])
        if j['n'] != len(norm):
            ck.machinery_errors.append(
                f'{label}: TLC saw {j["n"]} of {len(norm)} cases')
        ck.coverage['traces_validated_against_impl'] += j['n']
        ck.coverage['evaluations'] += j['n']
        for b in j['bad']:
            c = b['case']
            clause = {'num_parts': 'C14_PartNumbers1toN',
                      'range_start': 'C14_RangesTile',
                      'range_end': 'C14_RangesTile',
                      'part_len': 'C14_RangesTile',
                      'adjust': 'C14_AdjustedWithinLimits',
                      'multipart': 'C14_MultipartIffGeThreshold'}[c['fn']]
            ck.violation(clause, {
                'component': c['who'], 'fn': c['fn'], 'case': c,
                'want': b['want'], 'scale': label}, replay={'kind': 'c14', 'case': c})
    finally:
        shutil.rmtree(d, ignore_errors=True)


def run(tier, seed):
    ck = checklib.Check('C14', tier, seed)
    thorough = tier == 'thorough'
    rng = random.Random(seed)
    ck.coverage['rule'] = (
        'one case per evaluation of a real planning function (arguments, '
        'result); scaled domain is enumerated completely, real scale at '
        'boundaries; distinct = distinct (function, arguments); non-trivial '
        '= all')
    r = tlc.run_tlc('MC_PartPlan', MC_CFG % dict(
        maxsize=60 if thorough else 40, maxchunk=14 if thorough else 12),
        workers=4)
    ck.add_tlc('PartPlan scaled (min 3, max 9, 4 parts)', r)
    if r.violated:
        ck.violation(r.violated[0], {'component': 'model', 'cex': r.cex[:2000]})
    cases = list(real_cases(range(-1, 41), range(1, 13), (3, 9, 4)))
    for c in cases:
        ck.distinct([c['who'], c['fn'], c.get('size'), c.get('part'),
                     c.get('idx'), c.get('total')])
    ck.sample({'kind': 'planning evaluations', 'cases': cases[:6]})
    ck.require_nonvacuous('scaled cases', len(cases), 3000)
    validate_cases(ck, cases, (3, 9, 4), 'scaled')
    ck.coverage['exhaustive'] = True
    try:
        from checks import c14_big
        c14_big.run(ck, tier, seed)
    except ImportError:
        pass
    try:
        from checks import pipe
        import pipeline
        pipe.run_e2e(ck, 'C14', tier, seed)
        pipeline.close_pool()
    except ImportError:
        pass
    ck.assumptions += [
        'scaled limits (3, 9, 4) exercise the same code paths as the real '
        'limits because ChunksizeAdjuster takes them as parameters',
    ]
    return ck.finish()


def replay(path):
    with open(path) as f:
        body = json.load(f)
    print(json.dumps(body['report'], indent=1)[:2000])
    return 1
