"""Minimal stand-in for the awscrt package: only the names s3transfer/crt.py
imports.  The real package is not installed in this sandbox; the stub lets the
Python glue of s3transfer.crt be imported and exercised.  The S3 client's
behaviour is supplied by the harness (harness/crtglue.py)."""
__version__ = '0.0.0+verif-stub'
