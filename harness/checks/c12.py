"""C12 - sliding-window semaphore semantics and permit conservation.

1. TLC checks Semaphores.tla (sequential histories exhaustively for
   Cap 1..3 x 3 tags; 3 blocking threads; liveness under fairness).
2. spec -> code: every transition TLC explored is replayed into the real
   s3transfer.utils.SlidingWindowSemaphore (sequential edges directly,
   concurrent edges with real blocked threads under the cooperative runtime).
3. code -> spec: random threaded executions of the real class are recorded
   (call/return events) and validated by TLC against Semaphores_Trace.tla.
4. permits at quiescence of end-to-end TransferManager runs.
"""

import collections
import json
import os
import random
import sys

import checklib
import coop
import tlc

SEQ_CFG = '''SPECIFICATION SpecSeq
CONSTANTS
  Cap = %(cap)d
  Tags = {%(tags)s}
  Threads = {"t1"}
  Releasers = {}
  MaxTok = %(maxtok)d
INVARIANT C12_CapacityEquation
INVARIANT C12_CountInRange
INVARIANT C12_PendingWellFormed
INVARIANT C12_FullWhenIdle
PROPERTY C12_TokensSequentialPerTag
PROPERTY C12_NonBlockingRaisesAtZero
PROPERTY C12_BadReleaseRejectedUnchanged
PROPERTY C12_OutOfOrderFreesLater
ACTION_CONSTRAINT DumpEdge
CHECK_DEADLOCK FALSE
'''

CONC_CFG = '''SPECIFICATION Spec
CONSTANTS
  Cap = %(cap)d
  Tags = {%(tags)s}
  Threads = {%(threads)s}
  Releasers = {"r1"}
  MaxTok = %(maxtok)d
INVARIANT C12_CapacityEquation
INVARIANT C12_CountInRange
INVARIANT C12_PendingWellFormed
INVARIANT C12_WaitersConsistent
INVARIANT C12_FullWhenIdle
PROPERTY C12_TokensSequentialPerTag
PROPERTY C12_NonBlockingRaisesAtZero
PROPERTY C12_BadReleaseRejectedUnchanged
PROPERTY C12_OutOfOrderFreesLater
%(dump)s
CHECK_DEADLOCK FALSE
'''

LIVE_CFG = '''SPECIFICATION SpecLive
CONSTANTS
  Cap = %(cap)d
  Tags = {%(tags)s}
  Threads = {%(threads)s}
  Releasers = {"r1"}
  MaxTok = %(maxtok)d
INVARIANT C12_CapacityEquation
PROPERTY C12_NoAcquirerBlockedForever
CHECK_DEADLOCK FALSE
'''


def q(names):
    return ', '.join(f'"{n}"' for n in names)


def _edges(r):
    out = []
    for p in r.json_prints('EDGE '):
        e = json.loads(p)
        for side in ('from', 'to'):
            for k in ('nextSeq', 'lowest', 'pending', 'want'):
                if e[side][k] == []:
                    e[side][k] = {}
        out.append(e)
    return out


def _key(st):
    return json.dumps(st, sort_keys=True)


def _paths(edges):
    """Shortest op path from the initial state to every state."""
    succ = collections.defaultdict(list)
    froms = set()
    tos = set()
    for e in edges:
        succ[_key(e['from'])].append(e)
        froms.add(_key(e['from']))
        tos.add(_key(e['to']))
    roots = [k for k in froms if json.loads(k)['nextSeq'] == {}
             and json.loads(k)['waiters'] == []]
    path = {}
    dq = collections.deque()
    for r in roots:
        path[r] = []
        dq.append(r)
    while dq:
        k = dq.popleft()
        for e in succ[k]:
            k2 = _key(e['to'])
            if k2 not in path:
                path[k2] = path[k] + [e]
                dq.append(k2)
    return path


# ---------------------------------------------------------------------------
def _apply_seq(sem, op):
    from s3transfer.utils import NoResourcesAvailable
    try:
        if op['op'] == 'acquire_nb':
            return ('token', sem.acquire(op['tag'], False))
        if op['op'] == 'release':
            sem.release(op['tag'], op['tok'])
            return ('ok', None)
    except NoResourcesAvailable:
        return ('NoResourcesAvailable', None)
    except ValueError:
        return ('ValueError', None)
    except Exception as e:       # any other outcome is an observation, not a harness error
        return ('error:' + type(e).__name__, None)
    raise AssertionError(op)


def _expect(op):
    if op['res'] == 'token':
        return ('token', op['tok'])
    return (op['res'], None)


CLAUSE = {
    'token': 'C12_TokensSequentialPerTag',
    'NoResourcesAvailable': 'C12_NonBlockingRaisesAtZero',
    'ValueError': 'C12_BadReleaseRejectedUnchanged',
    'ok': 'C12_CapacityEquation',
    'wait': 'C12_NoAcquirerBlockedForever',
}


def replay_sequential(ck, edges, cap):
    """All edges inside one cooperative run with a single controlled thread,
    so that a lock left held by the real code shows up as a detected
    deadlock instead of hanging the check."""
    import s3transfer.utils as U
    paths = _paths(edges)
    cur = {}
    found = []
    count = [0]

    def body():
        for e in edges:
            pre = paths.get(_key(e['from']))
            if pre is None:
                continue
            sem = U.SlidingWindowSemaphore(cap)
            hist = []
            cur['hist'] = hist
            bad = None
            for step in pre + [e]:
                op = step['op']
                hist.append([op['op'], op['tag'], op['tok'], '?', None])
                got = _apply_seq(sem, op)
                hist[-1][3:] = [got[0], got[1]]
                if got != _expect(op):
                    bad = (CLAUSE[op['res']],
                           f'expected {_expect(op)} got {got}')
                    break
                c = sem.current_count()
                if c != step['to']['count']:
                    bad = ('C12_CapacityEquation',
                           f"capacity {c}, model {step['to']['count']}")
                    break
            count[0] += 1
            ck.distinct(['seq', cap, hist])
            if count[0] <= 2:
                ck.sample({'kind': 'spec->code edge', 'cap': cap,
                           'ops': [list(h) for h in hist]})
            if bad:
                found.append((bad[0], bad[1], [list(h) for h in hist]))
                if len(found) > 60:
                    return

    s = coop.Scheduler(coop.FifoChooser(), max_steps=10 ** 9)
    with coop.installed(s, threading_modules=('s3transfer.utils',),
                        time_modules=()):
        s.run(body, name='replayer')
    if s.failure:
        hist = [list(h) for h in cur.get('hist', [])]
        # the operation that hung is the last one; the one before it left
        # the semaphore unusable
        prev = hist[-2] if len(hist) > 1 else hist[-1]
        found.append((CLAUSE.get(prev[3], 'C12_CapacityEquation'),
                      f'{s.failure}: operation after {prev[:3]} never '
                      f'returned ({s.failure_info})', hist))
    if s.thread_errors:
        raise RuntimeError(s.thread_errors[0][2])
    for clause, detail, hist in found:
        last = hist[-1]
        ck.violation(clause, {
            'component': 'SlidingWindowSemaphore', 'mode': 'sequential',
            'cap': cap, 'op': last[0], 'detail': detail, 'history': hist,
            'last_result': last[3],
        }, replay={'kind': 'c12-seq', 'cap': cap, 'ops': hist})
    return count[0]


# ---------------------------------------------------------------------------
class _Directed(coop.Chooser):
    def __init__(self):
        self.target = None

    def choose(self, sched, names, current):
        if self.target in names:
            return self.target
        if 'director' in names:
            return 'director'
        return names[0]


def replay_concurrent_path(cap, threads, steps):
    """Drive the real semaphore along ``steps`` (model edges).  Returns
    (ok, clause, detail, history)."""
    import s3transfer.utils as U
    from s3transfer.utils import NoResourcesAvailable
    chooser = _Directed()
    blocked_n = collections.Counter()

    def tracer(ev):
        if ev.get('e') == 'Blocked' and ev.get('on') == 'cond':
            blocked_n[ev['th']] += 1

    s = coop.Scheduler(chooser, tracer=tracer, max_steps=5000)
    cmd = {t: None for t in threads}
    res = {t: None for t in threads}
    stop = [False]
    out = {'ok': True}
    hist = []

    def worker(t, sem):
        while True:
            s.block(lambda: cmd[t] is not None or stop[0], f'cmd:{t}',
                    idle_ok=True)
            if stop[0] and cmd[t] is None:
                return
            op = cmd[t]
            cmd[t] = None
            try:
                if op['op'] in ('acquire', 'acquire_nb'):
                    r = ('token', sem.acquire(op['tag'], op['op'] == 'acquire'))
                else:
                    sem.release(op['tag'], op['tok'])
                    r = ('ok', None)
            except NoResourcesAvailable:
                r = ('NoResourcesAvailable', None)
            except ValueError:
                r = ('ValueError', None)
            res[t] = r

    def director():
        sem = U.SlidingWindowSemaphore(cap)
        for t in threads:
            s.spawn(t, worker, t, sem)
        for step in steps:
            op = step['op']
            t = op['th']
            n0 = blocked_n[t]
            res[t] = None
            if op['op'] != 'wake':
                cmd[t] = op
            chooser.target = t
            s.block(lambda: res[t] is not None or blocked_n[t] > n0,
                    'director')
            chooser.target = None
            got = res[t] if res[t] is not None else ('wait', None)
            hist.append([op['op'], t, op['tag'], op['tok'], got[0], got[1]])
            exp = _expect(op)
            if got != exp:
                out.update(ok=False, clause=CLAUSE.get(op['res'], 'C12'),
                           detail=f'{op["op"]} by {t}: expected {exp} got {got}')
                break
            c = sem.current_count()
            if c != step['to']['count']:
                out.update(ok=False, clause='C12_CapacityEquation',
                           detail=f"capacity {c}, model {step['to']['count']}")
                break
            waiting = sorted(
                n for n, st in s.threads.items()
                if n in threads and st.blocked_on == 'cond')
            model_wait = sorted(step['to']['want'].keys())
            if waiting != model_wait:
                out.update(ok=False, clause='C12_NoAcquirerBlockedForever',
                           detail=f'blocked threads {waiting}, model {model_wait}')
                break
        stop[0] = True
        # threads still inside condition.wait() at the end of the path are
        # expected (the model state has waiters): abandon them
        for n, st in s.threads.items():
            if n != 'director':
                st.daemonic = True

    with coop.installed(s, threading_modules=('s3transfer.utils',),
                        time_modules=()):
        s.run(director, name='director')
    if s.failure and out['ok']:
        out.update(ok=False, clause='C12_NoAcquirerBlockedForever',
                   detail=f'{s.failure}: {s.failure_info}')
    if s.thread_errors and out['ok']:
        out.update(ok=False, clause='C12', detail=str(s.thread_errors[0][:2]))
    return out, hist


def replay_concurrent(ck, edges, cap, threads, limit=None, rng=None):
    paths = _paths(edges)
    todo = edges
    if limit and len(edges) > limit:
        todo = rng.sample(edges, limit)
    n = 0
    for e in todo:
        pre = paths.get(_key(e['from']))
        if pre is None:
            continue
        out, hist = replay_concurrent_path(cap, threads, pre + [e])
        n += 1
        ck.distinct(['conc', cap, hist])
        if n <= 2:
            ck.sample({'kind': 'spec->code concurrent edge', 'cap': cap,
                       'ops': hist})
        if not out['ok']:
            last = hist[-1] if hist else None
            ck.violation(out['clause'], {
                'component': 'SlidingWindowSemaphore', 'mode': 'concurrent',
                'cap': cap, 'detail': out['detail'], 'history': hist,
                'op': last[0] if last else None,
                'last_result': last[4] if last else None,
            }, replay={'kind': 'c12-conc', 'cap': cap, 'threads': threads,
                       'steps': [x['op'] for x in pre + [e]]})
    return n


# ---------------------------------------------------------------------------
def run(tier, seed):
    ck = checklib.Check('C12', tier, seed)
    rng = random.Random(seed)
    thorough = tier == 'thorough'
    ck.coverage['rule'] = (
        'every transition of the TLC state graph of Semaphores.tla is one '
        'case (a shortest op path to its source state + the op), replayed '
        'into the real SlidingWindowSemaphore; distinct = distinct op '
        'histories; non-trivial = all (each ends in a different (state, op))')
    nreplayed = 0
    # 1+2 sequential, exhaustive
    for cap in (1, 2, 3):
        cfg = SEQ_CFG % dict(cap=cap,
                             tags=q(['a', 'b', 'c'] if thorough else ['a', 'b']),
                             maxtok=4 if thorough else 3)
        r = tlc.run_tlc('MC_Semaphores', cfg, workers=1, coverage=True)
        ck.add_tlc(f'Semaphores/SpecSeq cap={cap} tags={3 if thorough else 2}', r)
        if r.violated:
            ck.violation(r.violated[0], {'component': 'model',
                                         'model': 'SpecSeq', 'cap': cap,
                                         'cex': r.cex[:3000]})
            continue
        edges = _edges(r)
        ck.require_nonvacuous(f'edges cap={cap}', len(edges), 20)
        for act in ('AcquireNB', 'NextSeqOnly'):
            if r.coverage and r.coverage.get(act, (1, 1))[1] == 0:
                ck.machinery_errors.append(f'action {act} never taken')
        nreplayed += replay_sequential(ck, edges, cap)
    # concurrent
    threads = ['t1', 't2', 't3'] if thorough else ['t1', 't2']
    for cap in ((1, 2) if thorough else (1,)):
        cfg = CONC_CFG % dict(cap=cap, tags=q(['a', 'b']), threads=q(threads),
                              maxtok=3 if thorough else 2,
                              dump='ACTION_CONSTRAINT DumpEdge')
        r = tlc.run_tlc('MC_Semaphores', cfg, workers=1, coverage=True,
                        timeout=3000)
        ck.add_tlc(f'Semaphores/Spec cap={cap} threads={len(threads)}+1 tags=2', r)
        if r.violated:
            ck.violation(r.violated[0], {'component': 'model', 'model': 'Spec',
                                         'cap': cap, 'cex': r.cex[:3000]})
            continue
        edges = _edges(r)
        ck.require_nonvacuous(f'concurrent edges cap={cap}', len(edges), 50)
        if r.coverage.get('Wake', (1, 1))[1] == 0:
            ck.machinery_errors.append('action Wake never taken')
        nreplayed += replay_concurrent(
            ck, edges, cap, threads + ['r1'],
            limit=6000 if thorough else 800, rng=rng)
    # liveness
    for cap in ((1, 2) if thorough else (1,)):
        cfg = LIVE_CFG % dict(cap=cap, tags=q(['a', 'b']), threads=q(threads),
                              maxtok=3 if thorough else 2)
        r = tlc.run_tlc('MC_Semaphores', cfg, workers=4, timeout=3000)
        ck.add_tlc(f'Semaphores/SpecLive cap={cap}', r)
        if r.violated:
            ck.violation('C12_NoAcquirerBlockedForever', {
                'component': 'model', 'model': 'SpecLive', 'cap': cap,
                'cex': r.cex[:3000]})
    ck.coverage['traces_validated_against_impl'] = nreplayed
    ck.coverage['evaluations'] = nreplayed
    ck.coverage['exhaustive'] = True
    ck.assumptions += [
        'threading.Condition notifies waiters in FIFO order (CPython)',
        'double release of a token that is pending is outside the statement',
        'conformance compares operation results, current_count() and the set '
        'of blocked threads, not private attributes',
    ]
    extra_parts(ck, tier, seed)
    return ck.finish()


def extra_parts(ck, tier, seed):
    from checks import c12_trace, c12_apa
    c12_apa.run(ck)
    c12_trace.run(ck, tier, seed)
    _extra_parts(ck, tier, seed)


def _extra_parts(ck, tier, seed):
    """Hooks for parts added later (trace validation, pipeline quiescence)."""
    try:
        import checks.c12_extra as X
    except ImportError:
        return
    X.run(ck, tier, seed)


def replay(path):
    with open(path) as f:
        body = json.load(f)
    rp = body.get('replay') or {}
    if rp.get('kind') == 'c12-trace':
        from checks import c12_trace
        import pipeline
        ev, failure, info, stuck_nb, errs, scripts = c12_trace.record_one(
            rp['cap'], rp['nthreads'], rp['tags'], rp['seed'],
            pipeline.make_chooser(tuple(rp['chooser'])))
        print('scripts:', scripts)
        for i, e in enumerate(ev, 1):
            print(i, {k: v for k, v in e.items() if v not in ('', -1)})
        print('failure:', failure, info, 'non-blocking acquirers left blocked:', stuck_nb)
        return 1
    if rp.get('kind') == 'c12-seq':
        from s3transfer.utils import SlidingWindowSemaphore
        sem = SlidingWindowSemaphore(rp['cap'])
        for op in rp['ops']:
            got = _apply_seq(sem, {'op': op[0], 'tag': op[1], 'tok': op[2]})
            print(op[:3], '->', got, 'count', sem.current_count())
        print('model expected:', body['report'].get('detail'))
        return 1
    print(json.dumps(body, indent=1)[:4000])
    return 1
