------------------------------ MODULE Pipeline ------------------------------
(***************************************************************************)
(* The TransferManager's task pipeline for ONE transfer, with a modelled   *)
(* S3 service and the user:                                                *)
(*   manager._submit_transfer, tasks.SubmissionTask._main, tasks.Task      *)
(*   .__call__, futures.TransferCoordinator (set_result / set_exception /  *)
(*   cancel / announce_done with its two callback locks),                  *)
(*   futures.BoundedExecutor (request stage with R worker threads and a    *)
(*   queue semaphore of RQ slots), and the multipart upload shape of       *)
(*   upload.py:                                                            *)
(*       Create -> Part 1..P (need the id) -> Complete (needs all, final)  *)
(*   or, for P = 0, a single final request (put / delete).                 *)
(*                                                                         *)
(* The specification is written to be bound to the code: one action per    *)
(* critical section / blocking point / logged event of the implementation  *)
(* (the name of the event the harness records at that point is given in    *)
(* brackets).  trace/Pipeline_Trace.tla requires every recorded execution  *)
(* of the real TransferManager to be a behaviour of this module.  Every    *)
(* environment-visible step also applies the event to the observable state *)
(* `o` of Obs.tla, so the clauses of Props.tla are invariants here.        *)
(*                                                                         *)
(* Faults: any S3 call may fail before or after its effect (budget         *)
(* MaxFaults); on_queued may raise.  The user may cancel at any time after *)
(* the call returned.                                                      *)
(***************************************************************************)
EXTENDS Props

CONSTANTS P,            \* number of parts (0 = single request transfer)
          R,            \* max_request_concurrency
          RQ,           \* max_request_queue_size
          MaxFaults, UserMayCancel,
          Kind,         \* "upload" | "copy" | "delete"  (delete: P = 0)
          NeedHead,     \* copy only: the size is not provided, HeadObject of the source first
          Src,          \* upload only: "path" (parts read the file while they are sent) | "stream"
                        \*   (a file object: every part is read into memory by the submission thread
                        \*   and its task is throttled by the in-memory-upload tag semaphore)
          UW            \* max_in_memory_upload_chunks

Workers == {"request-w" \o ToString(i) : i \in 0..(R - 1)}
Create == 100
Final == 200
PartT(i) == i
Tasks == IF P = 0 THEN {Final} ELSE {Create, Final} \cup {PartT(i) : i \in 1..P}
Deps(k) == IF P = 0 THEN {}
           ELSE IF k = Create THEN {}
           ELSE IF k = Final THEN Tasks \ {Final}
           ELSE {Create}
\* order in which the submission task submits them
SubOrder == IF P = 0 THEN <<Final>>
            ELSE <<Create>> \o [i \in 1..P |-> PartT(i)] \o <<Final>>
OpOf(k) == IF P = 0 THEN (IF Kind = "delete" THEN "DeleteObject"
                          ELSE IF Kind = "copy" THEN "CopyObject" ELSE "PutObject")
           ELSE IF k = Create THEN "CreateMultipartUpload"
           ELSE IF k = Final THEN "CompleteMultipartUpload"
           ELSE IF Kind = "copy" THEN "UploadPartCopy" ELSE "UploadPart"
\* class of the task object (as logged by the executor)
ClassOf(k) == IF P = 0 THEN (IF Kind = "delete" THEN "DeleteObjectTask"
                             ELSE IF Kind = "copy" THEN "CopyObjectTask" ELSE "PutObjectTask")
              ELSE IF k = Create THEN "CreateMultipartUploadTask"
              ELSE IF k = Final THEN "CompleteMultipartUploadTask"
              ELSE IF Kind = "copy" THEN "CopyPartTask" ELSE "UploadPartTask"
Size == IF P = 0 THEN 1 ELSE P
MetaC == [ cfg |-> [R |-> R, S |-> 1, RQ |-> RQ, SQ |-> 1000, IOQ |-> 1000, io_chunk |-> 1,
                    attempts |-> 3, up_chunks |-> UW, down_chunks |-> 10, chunk |-> 1, minp |-> 1, maxp |-> 1000000, maxn |-> 10000,
                    threshold |-> IF P = 0 THEN 2 ELSE 1],
           xs |-> << [kind |-> Kind, size |-> Size, dstk |-> "none",
                      srck |-> IF Kind = "upload" THEN (IF Src = "stream" THEN "nonseekable" ELSE "path") ELSE "none",
                      hasOld |-> FALSE, nsubs |-> 1, provide |-> (Kind = "copy" /\ ~NeedHead), faultFree |-> (MaxFaults = 0),
                      override |-> FALSE, shortsrc |-> FALSE] >> ]

VARIABLES
    status, exc, event,        \* coordinator: _status, _exception, _done_event
    cleanup,                   \* failure cleanups: "none" | "registered" | "ran"
    cllock, cblock,            \* holders of _failure_cleanups_lock / _done_callbacks_lock ("" = free)
    cbrun,                     \* the done callbacks have been taken (list emptied)
    task,                      \* [k -> [st, res]] st: unsub|queued|running|ended|done
    rq,                        \* request executor FIFO
    rsem,                      \* free slots of the request queue semaphore
    usem,                      \* free slots of the in-memory-upload tag semaphore (stream uploads)
    wpc, wcur, wchk, wtag,     \* per request worker: pc, task, clock of its done-check, fault tag
    spc, snext,                \* submission thread: pc, index into SubOrder
    upc, cpc,                  \* user / canceller program counters
    ann,                       \* [thread -> announce_done sub-step] ("" = not announcing)
    faults, seq, clk, uidKnown,
    o                          \* observable state (Obs.tla)

vars == <<status, exc, event, cleanup, cllock, cblock, cbrun, task, rq, rsem, usem, wpc, wcur, wchk, wtag,
          spc, snext, upc, cpc, ann, faults, seq, clk, uidKnown, o>>
coord == <<status, exc>>
locks == <<cllock, cblock, cbrun>>
exec == <<task, rq, rsem, usem>>
Tagged(k) == Kind = "upload" /\ Src = "stream" /\ k \in 1..P      \* its slot comes from the tag semaphore
wk == <<wpc, wcur, wchk, wtag>>
sb == <<spc, snext>>
us == <<upc, cpc>>

Threads == Workers \cup {"sub", "user", "canceller"}
IsDoneS(s) == s \in {"success", "failed", "cancelled"}
InFlight == Cardinality({k \in Tasks : task[k].st \in {"queued", "running"}})

Init ==
    /\ status = "not-started" /\ exc = "none" /\ event = FALSE /\ cleanup = "none"
    /\ cllock = "" /\ cblock = "" /\ cbrun = FALSE
    /\ task = [k \in Tasks |-> [st |-> "unsub", res |-> "none"]]
    /\ rq = <<>> /\ rsem = RQ /\ usem = UW
    /\ wpc = [w \in Workers |-> "idle"] /\ wcur = [w \in Workers |-> 0]
    /\ wchk = [w \in Workers |-> -1]
    /\ wtag = [w \in Workers |-> ""]
    /\ spc = "wait" /\ snext = 1
    /\ upc = "call" /\ cpc = "idle"
    /\ ann = [t \in Threads |-> ""]
    /\ faults = 0 /\ seq = 0 /\ clk = 0 /\ uidKnown = FALSE
    /\ o = InitObs(MetaC)

\* ---------------------------------------------------------------- events
\* (time is abstracted to what the properties compare: has the cancel been
\*  linearized yet?  0 = before, 1 = the linearization itself, 2 = after)
Now == IF cpc \in {"announce", "ret", "done"} THEN 2 ELSE 0
Emit(ev) == o' = Apply(o, ev) /\ UNCHANGED clk
Emit2(e1, e2) == o' = Apply(Apply(o, e1), e2) /\ UNCHANGED clk
Quiet == UNCHANGED <<o, clk>>
EvS3Begin(th, op, part) ==
    [e |-> "S3Begin", seq |-> seq + 1, x |-> 0, op |-> op,
     uid |-> IF op \in {"CreateMultipartUpload", "HeadObject"} \/ P = 0 THEN 0 ELSE 1, part |-> part, rs |-> -1,
     xfer |-> (op \notin {"AbortMultipartUpload", "HeadObject"}), th |-> th,
     chk |-> IF th \in Workers THEN wchk[th] ELSE -1,
     t |-> Now, user |-> FALSE]
PartsListed == [i \in 1..P |-> [n |-> i, s |-> i - 1, l |-> 1, etag |-> TRUE, crc |-> TRUE]]
EvS3End(op, oc) ==
    [e |-> "S3End", seq |-> seq, x |-> 0, op |-> op,
     uid |-> IF P = 0 \/ op = "HeadObject" THEN 0 ELSE 1, oc |-> oc,
     xfer |-> (op \notin {"AbortMultipartUpload", "HeadObject"}),
     bs |-> IF op \in {"PutObject", "CopyObject", "UploadPart", "UploadPartCopy"} THEN 0 ELSE -1,
     bl |-> IF op \in {"PutObject", "CopyObject"} THEN Size
            ELSE IF op \in {"UploadPart", "UploadPartCopy"} THEN 1 ELSE -1,
     bsrc |-> IF op \in {"PutObject", "CopyObject", "UploadPart", "UploadPartCopy"} THEN "own" ELSE "none",
     parts |-> IF op = "CompleteMultipartUpload" THEN PartsListed ELSE <<>>, user |-> FALSE]
EvFault(tag) == [e |-> "Fault", x |-> 0, tag |-> tag, fatal |-> TRUE, user |-> FALSE]
EvCb(ph, cb, flag, st, byUser) ==
    IF ph = "b" THEN [e |-> "CbBegin", cb |-> cb, x |-> 0, sub |-> 1, n |-> 0, flag |-> flag,
                      st |-> st, user |-> byUser]
    ELSE [e |-> "CbEnd", cb |-> cb, x |-> 0, sub |-> 1, user |-> FALSE]

\* ---------------------------------------------------------------- coordinator
\* set_exception(e) without override, under _lock          [SetExc]
SetException(e) ==
    IF IsDoneS(status) THEN UNCHANGED <<status, exc>>
    ELSE status' = "failed" /\ exc' = e

\* announce_done is run by thread th in steps: ann[th] =
\*   "begin" -> "cl" -> ("abortB" -> "abortE" ->) "event" -> "cb" -> ("cbb" -> "cbe" ->) "end" -> ""
Announcing(th) == ann[th] # ""
\* [AnnounceBegin]
AnnBegin(th) ==
    /\ ann[th] = "begin"
    /\ ann' = [ann EXCEPT ![th] = IF status # "success" THEN "cl" ELSE "event"]
    /\ Quiet
    /\ UNCHANGED <<coord, event, cleanup, locks, exec, wk, sb, us, faults, seq, uidKnown>>
\* _run_failure_cleanups: take _failure_cleanups_lock, run the cleanups (the
\* abort) while holding it, empty the list
AnnCleanups(th) ==
    /\ ann[th] = "cl" /\ cllock = ""
    /\ IF cleanup = "registered"
       THEN cleanup' = "ran" /\ cllock' = th /\ ann' = [ann EXCEPT ![th] = "abortB"]
       ELSE UNCHANGED <<cleanup, cllock>> /\ ann' = [ann EXCEPT ![th] = "event"]
    /\ Quiet
    /\ UNCHANGED <<coord, event, cblock, cbrun, exec, wk, sb, us, faults, seq, uidKnown>>
\* [S3Begin AbortMultipartUpload]
AnnAbortBegin(th) ==
    /\ ann[th] = "abortB"
    /\ Emit(EvS3Begin(th, "AbortMultipartUpload", 0))
    /\ seq' = seq + 1
    /\ ann' = [ann EXCEPT ![th] = "abortE"]
    /\ UNCHANGED <<coord, event, cleanup, locks, exec, wk, sb, us, faults, uidKnown>>
\* [S3End AbortMultipartUpload]: a failing abort is logged and swallowed
AnnAbortEnd(th, oc) ==
    /\ ann[th] = "abortE"
    /\ (oc # "ok") => faults < MaxFaults
    /\ faults' = IF oc = "ok" THEN faults ELSE faults + 1
    /\ IF oc = "ok" THEN Emit(EvS3End("AbortMultipartUpload", "ok"))
       ELSE Emit2(EvFault("F" \o ToString(seq)), EvS3End("AbortMultipartUpload", oc))
    /\ cllock' = ""
    /\ ann' = [ann EXCEPT ![th] = "event"]
    /\ UNCHANGED <<coord, event, cleanup, cblock, cbrun, exec, wk, sb, us, seq, uidKnown>>
\* _done_event.set()
AnnEvent(th) ==
    /\ ann[th] = "event"
    /\ event' = TRUE
    /\ ann' = [ann EXCEPT ![th] = "cb"]
    /\ Quiet
    /\ UNCHANGED <<coord, cleanup, locks, exec, wk, sb, us, faults, seq, uidKnown>>
\* _run_done_callbacks: take _done_callbacks_lock; the list is emptied by the
\* first announcer
AnnCbLock(th) ==
    /\ ann[th] = "cb" /\ cblock = ""
    /\ IF cbrun THEN ann' = [ann EXCEPT ![th] = "end"] /\ UNCHANGED <<cblock, cbrun>>
       ELSE cbrun' = TRUE /\ cblock' = th /\ ann' = [ann EXCEPT ![th] = "cbb"]
    /\ Quiet
    /\ UNCHANGED <<coord, event, cleanup, cllock, exec, wk, sb, us, faults, seq, uidKnown>>
\* [CbBegin done]
AnnCbBegin(th) ==
    /\ ann[th] = "cbb"
    /\ Emit(EvCb("b", "done", IsDoneS(status), IF status = "success" THEN "success" ELSE "error",
                 th \in {"user", "canceller"}))
    /\ ann' = [ann EXCEPT ![th] = "cbe"]
    /\ UNCHANGED <<coord, event, cleanup, locks, exec, wk, sb, us, faults, seq, uidKnown>>
\* [CbEnd done]
AnnCbEnd(th) ==
    /\ ann[th] = "cbe"
    /\ Emit(EvCb("e", "done", TRUE, "", FALSE))
    /\ cblock' = ""
    /\ ann' = [ann EXCEPT ![th] = "end"]
    /\ UNCHANGED <<coord, event, cleanup, cllock, cbrun, exec, wk, sb, us, faults, seq, uidKnown>>
\* [AnnounceEnd]
AnnEnd(th) ==
    /\ ann[th] = "end"
    /\ ann' = [ann EXCEPT ![th] = ""]
    /\ Quiet
    /\ UNCHANGED <<coord, event, cleanup, locks, exec, wk, sb, us, faults, seq, uidKnown>>

\* ---------------------------------------------------------------- user
\* [Call]
UserCall ==
    /\ upc = "call"
    /\ Emit([e |-> "Call", x |-> 0, user |-> FALSE])
    /\ upc' = "submit"
    /\ UNCHANGED <<coord, event, cleanup, locks, exec, wk, sb, cpc, ann, faults, seq, uidKnown>>
\* [ExecSubmit submission]: the submission task is handed to the submission executor
UserSubmit ==
    /\ upc = "submit"
    /\ Emit([e |-> "ExecSubmit", stage |-> "submission", inflight |-> 1, user |-> FALSE])
    /\ upc' = "ret" /\ spc' = "start"
    /\ UNCHANGED <<coord, event, cleanup, locks, exec, wk, snext, cpc, ann, faults, seq, uidKnown>>
\* [Ret]
UserRet ==
    /\ upc = "ret"
    /\ Emit([e |-> "Ret", x |-> 0, ok |-> TRUE, user |-> FALSE])
    /\ upc' = "result"
    /\ UNCHANGED <<coord, event, cleanup, locks, exec, wk, sb, cpc, ann, faults, seq, uidKnown>>
\* [ResultEnd] result(): blocks until the done event is set
UserResult ==
    /\ upc = "result" /\ event
    /\ Emit([e |-> "ResultEnd", x |-> 0, oc |-> IF exc = "none" THEN "ok" ELSE "raise",
             ek |-> IF exc = "none" THEN "" ELSE IF exc = "cancel" THEN "cancel" ELSE IF exc = "CBQ" THEN "inj" ELSE "s3",
             tag |-> IF exc = "cancel" THEN "" ELSE IF exc = "none" THEN "" ELSE exc,
             cls |-> IF exc = "cancel" THEN "CancelledError" ELSE "", msgok |-> TRUE, user |-> FALSE])
    /\ upc' = "shutdown"
    /\ UNCHANGED <<coord, event, cleanup, locks, exec, wk, sb, cpc, ann, faults, seq, uidKnown>>
\* [ShutdownEnd] shutdown(): every worker thread joined (idle, queues empty)
UserShutdown ==
    /\ upc = "shutdown"
    /\ \A w \in Workers : wpc[w] = "idle"
    /\ rq = <<>> /\ spc = "end"
    /\ Emit2([e |-> "DoneFlip", x |-> 0, done |-> IsDoneS(status), user |-> FALSE],
             [e |-> "ShutdownEnd", user |-> FALSE])
    /\ upc' = "end"
    /\ UNCHANGED <<coord, event, cleanup, locks, exec, wk, sb, cpc, ann, faults, seq, uidKnown>>

\* future.cancel() from another user thread, any time after the call returned
\* [CancelCall]
UCancelCall ==
    /\ UserMayCancel /\ cpc = "idle" /\ upc \in {"result", "shutdown", "end"}
    /\ Emit([e |-> "CancelCall", how |-> "future", x |-> 0, user |-> FALSE])
    /\ cpc' = "begin"
    /\ UNCHANGED <<coord, event, cleanup, locks, exec, wk, sb, upc, ann, faults, seq, uidKnown>>
\* [CancelBegin] TransferCoordinator.cancel entered
CancelBegin ==
    /\ cpc = "begin"
    /\ Emit([e |-> "CancelCall", how |-> "future", x |-> 0, user |-> FALSE])
    /\ cpc' = "lin"
    /\ UNCHANGED <<coord, event, cleanup, locks, exec, wk, sb, upc, ann, faults, seq, uidKnown>>
\* [CancelEnd] the critical section of cancel(): linearization point
CancelLin ==
    /\ cpc = "lin"
    /\ LET wasNS == status = "not-started" IN
       /\ IF IsDoneS(status) THEN UNCHANGED <<status, exc>>
          ELSE status' = "cancelled" /\ exc' = "cancel"
       /\ Emit([e |-> "CancelRet", how |-> "future", x |-> 0, ok |-> TRUE, t |-> 1, user |-> FALSE])
       /\ cpc' = IF wasNS THEN "announce" ELSE "ret"
       /\ ann' = IF wasNS THEN [ann EXCEPT !["canceller"] = "begin"] ELSE ann
    /\ UNCHANGED <<event, cleanup, locks, exec, wk, sb, upc, faults, seq, uidKnown>>
\* [CancelRet] cancel() returned (after announcing, for a not-started transfer)
UCancelRet ==
    /\ cpc \in {"announce", "ret"} /\ ~Announcing("canceller")
    /\ Emit([e |-> "CancelRet", how |-> "future", x |-> 0, ok |-> TRUE, t |-> 1, user |-> FALSE])
    /\ cpc' = "done"
    /\ UNCHANGED <<coord, event, cleanup, locks, exec, wk, sb, upc, ann, faults, seq, uidKnown>>

\* ---------------------------------------------------------------- submission task
\* [TaskBegin submission] the submission worker takes the task
SubTake ==
    /\ spc = "start"
    /\ spc' = "check" /\ Quiet
    /\ UNCHANGED <<coord, event, cleanup, locks, exec, wk, snext, us, ann, faults, seq, uidKnown>>
\* Task.__call__: skip _main if the transfer is done
SubCheck ==
    /\ spc = "check"
    /\ spc' = IF IsDoneS(status) THEN "tend" ELSE "queued"
    /\ Quiet
    /\ UNCHANGED <<coord, event, cleanup, locks, exec, wk, snext, us, ann, faults, seq, uidKnown>>
\* [Status] set_status_to_queued: RuntimeError if done
SubQueued ==
    /\ spc = "queued"
    /\ IF IsDoneS(status)
       THEN spc' = "fail" /\ UNCHANGED status
       ELSE status' = "queued" /\ spc' = "onqb"
    /\ Emit([e |-> "Status", x |-> 0, st |-> status', user |-> FALSE])
    /\ UNCHANGED <<exc, event, cleanup, locks, exec, wk, snext, us, ann, faults, seq, uidKnown>>
\* [CbBegin queued]
SubOnQueuedBegin ==
    /\ spc = "onqb"
    /\ Emit(EvCb("b", "queued", TRUE, "", FALSE))
    /\ spc' = "onqe"
    /\ UNCHANGED <<coord, event, cleanup, locks, exec, wk, snext, us, ann, faults, seq, uidKnown>>
\* [CbEnd queued] the callback returns, or raises (the exception goes to _main's handler)
SubOnQueuedEnd(ok) ==
    /\ spc = "onqe"
    /\ IF ok THEN /\ spc' = "running" /\ UNCHANGED faults
                  /\ Emit(EvCb("e", "queued", TRUE, "", FALSE))
       ELSE /\ faults < MaxFaults /\ faults' = faults + 1
            /\ Emit2(EvFault("CBQ"), EvCb("e", "queued", TRUE, "", FALSE))
            /\ spc' = "failcbq"
    /\ UNCHANGED <<coord, event, cleanup, locks, exec, wk, snext, us, ann, seq, uidKnown>>
\* [Status] set_status_to_running
SubRunning ==
    /\ spc = "running"
    /\ IF IsDoneS(status) THEN spc' = "fail" /\ UNCHANGED status
       ELSE status' = "running" /\ spc' = IF Kind = "copy" /\ NeedHead THEN "headB" ELSE "submit"
    /\ Emit([e |-> "Status", x |-> 0, st |-> status', user |-> FALSE])
    /\ UNCHANGED <<exc, event, cleanup, locks, exec, wk, snext, us, ann, faults, seq, uidKnown>>
\* copy: the size of the source is discovered first      [S3Begin / S3End HeadObject]
SubHeadBegin ==
    /\ spc = "headB"
    /\ Emit(EvS3Begin("sub", "HeadObject", 0))
    /\ seq' = seq + 1 /\ spc' = "headE"
    /\ UNCHANGED <<coord, event, cleanup, locks, exec, wk, snext, us, ann, faults, uidKnown>>
SubHeadEnd(oc) ==
    /\ spc = "headE"
    /\ (oc # "ok") => faults < MaxFaults
    /\ faults' = IF oc = "ok" THEN faults ELSE faults + 1
    /\ IF oc = "ok" THEN Emit(EvS3End("HeadObject", "ok")) /\ spc' = "submit"
       ELSE Emit2(EvFault("F" \o ToString(seq)), EvS3End("HeadObject", oc)) /\ spc' = "failhead"
    /\ UNCHANGED <<coord, event, cleanup, locks, exec, wk, snext, us, ann, seq, uidKnown>>
\* [ExecSubmit request] BoundedExecutor.submit: acquire a queue slot (blocks
\* while none), enqueue
SubSubmit ==
    /\ spc = "submit" /\ snext <= Len(SubOrder)
    /\ IF Tagged(SubOrder[snext]) THEN usem > 0 /\ usem' = usem - 1 /\ UNCHANGED rsem
       ELSE rsem > 0 /\ rsem' = rsem - 1 /\ UNCHANGED usem
    /\ rq' = Append(rq, SubOrder[snext])
    /\ task' = [task EXCEPT ![SubOrder[snext]].st = "queued"]
    /\ snext' = snext + 1
    /\ Emit([e |-> "ExecSubmit", stage |-> "request", inflight |-> InFlight + 1, user |-> FALSE])
    /\ UNCHANGED <<coord, event, cleanup, locks, wk, spc, us, ann, faults, seq, uidKnown>>
\* a stream source is read by the submission thread (the threshold bytes, then
\* every part before its task is submitted): the read raises   [FaultInjected src_read]
SubSrcFault ==
    /\ spc = "submit" /\ Kind = "upload" /\ Src = "stream" /\ P > 0
    /\ snext <= Len(SubOrder) /\ faults < MaxFaults      \* (a stream is read once more after its last part: EOF)
    /\ faults' = faults + 1
    /\ Emit(EvFault("SRC")) /\ spc' = "failsrc"
    /\ UNCHANGED <<coord, event, cleanup, locks, exec, wk, snext, us, ann, seq, uidKnown>>
SubEnd ==
    /\ spc = "submit" /\ snext > Len(SubOrder)
    /\ spc' = "tend" /\ Quiet
    /\ UNCHANGED <<coord, event, cleanup, locks, exec, wk, snext, us, ann, faults, seq, uidKnown>>
\* [SetExc] exception path of _main: set_exception ...
SubFail ==
    /\ spc \in {"fail", "failcbq", "failhead", "failsrc"}
    /\ SetException(IF spc = "failcbq" THEN "CBQ" ELSE IF spc = "failhead" THEN "F" \o ToString(seq)
                    ELSE IF spc = "failsrc" THEN "SRC" ELSE "RuntimeError")
    /\ spc' = "failwait" /\ Quiet
    /\ UNCHANGED <<event, cleanup, locks, exec, wk, snext, us, ann, faults, seq, uidKnown>>
\* ... wait for every submitted future, then announce done
SubFailWait ==
    /\ spc = "failwait"
    /\ \A k \in Tasks : task[k].st \in {"unsub", "done"}
    /\ spc' = "failann" /\ ann' = [ann EXCEPT !["sub"] = "begin"] /\ Quiet
    /\ UNCHANGED <<coord, event, cleanup, locks, exec, wk, snext, us, faults, seq, uidKnown>>
SubFailDone ==
    /\ spc = "failann" /\ ~Announcing("sub")
    /\ spc' = "tend" /\ Quiet
    /\ UNCHANGED <<coord, event, cleanup, locks, exec, wk, snext, us, ann, faults, seq, uidKnown>>
\* [TaskEnd submission]
SubTaskEnd ==
    /\ spc = "tend"
    /\ spc' = "end" /\ Quiet
    /\ UNCHANGED <<coord, event, cleanup, locks, exec, wk, snext, us, ann, faults, seq, uidKnown>>

\* ---------------------------------------------------------------- request workers (Task.__call__)
\* [TaskBegin request]
WTake(w) ==
    /\ wpc[w] = "idle" /\ rq # <<>>
    /\ rq' = Tail(rq)
    /\ wcur' = [wcur EXCEPT ![w] = Head(rq)]
    /\ task' = [task EXCEPT ![Head(rq)].st = "running"]
    /\ wpc' = [wpc EXCEPT ![w] = "deps"]
    /\ Quiet
    /\ UNCHANGED <<coord, event, cleanup, locks, rsem, usem, wchk, wtag, sb, us, ann, faults, seq, uidKnown>>
\* _wait_on_dependent_futures, then test done()
WDeps(w) ==
    /\ wpc[w] = "deps"
    /\ \A d \in Deps(wcur[w]) : task[d].st = "done"
    \* (Task.__call__ never raises: a failed dependency shows up as done())
    /\ wpc' = [wpc EXCEPT ![w] = IF IsDoneS(status) THEN "fin" ELSE "main"]
    /\ wchk' = [wchk EXCEPT ![w] = Now]
    /\ Quiet
    /\ UNCHANGED <<coord, event, cleanup, locks, exec, wcur, wtag, sb, us, ann, faults, seq, uidKnown>>
\* [S3Begin]
WMainBegin(w) ==
    /\ wpc[w] = "main"
    /\ LET k == wcur[w] IN
       Emit(EvS3Begin(w, OpOf(k), IF k \in 1..P THEN k ELSE 0))
    /\ seq' = seq + 1
    /\ wpc' = [wpc EXCEPT ![w] = "inflight"]
    /\ UNCHANGED <<coord, event, cleanup, locks, exec, wcur, wchk, wtag, sb, us, ann, faults, uidKnown>>
\* [S3End] the S3 call returns: ok, or fails before / after its effect
WMainEnd(w, oc) ==
    /\ wpc[w] = "inflight"
    /\ LET k == wcur[w] IN
       /\ (oc # "ok") => faults < MaxFaults
       /\ faults' = IF oc = "ok" THEN faults ELSE faults + 1
       /\ IF oc = "ok"
          THEN /\ Emit(EvS3End(OpOf(k), "ok"))
               /\ wpc' = [wpc EXCEPT ![w] = "ok"]
               /\ uidKnown' = (uidKnown \/ (k = Create /\ P > 0))
               /\ UNCHANGED wtag
          ELSE /\ Emit2(EvFault("F" \o ToString(seq)), EvS3End(OpOf(k), oc))
               /\ wpc' = [wpc EXCEPT ![w] = "exc"]
               /\ wtag' = [wtag EXCEPT ![w] = "F" \o ToString(seq)]
               /\ UNCHANGED uidKnown
    /\ UNCHANGED <<coord, event, cleanup, locks, exec, wcur, wchk, sb, us, ann, seq>>
\* "upload reads abort promptly once the transfer has failed" (upload.py,
\* InterruptReader): a task that reads a body re-raises the transfer's stored
\* exception instead of sending / while sending its request
HasBody(k) == Kind = "upload" /\ ((k \in 1..P) \/ P = 0)
WInterrupt(w) ==
    /\ wpc[w] = "main" /\ exc # "none" /\ HasBody(wcur[w])
    /\ wpc' = [wpc EXCEPT ![w] = "exc"]
    /\ wtag' = [wtag EXCEPT ![w] = exc]
    /\ Quiet
    /\ UNCHANGED <<coord, event, cleanup, locks, exec, wcur, wchk, sb, us, ann, faults, seq, uidKnown>>
\* [FaultInjected src_read, S3End body-error] a file source fails while a part is being sent
WBodyFault(w) ==
    /\ wpc[w] = "inflight" /\ HasBody(wcur[w]) /\ Src = "path" /\ faults < MaxFaults
    /\ faults' = faults + 1
    /\ Emit2(EvFault("SRC"), EvS3End(OpOf(wcur[w]), "body-error"))
    /\ wpc' = [wpc EXCEPT ![w] = "exc"]
    /\ wtag' = [wtag EXCEPT ![w] = "SRC"]
    /\ UNCHANGED <<coord, event, cleanup, locks, exec, wcur, wchk, sb, us, ann, seq, uidKnown>>
\* [S3End body-error]
WMainInterrupted(w) ==
    /\ wpc[w] = "inflight" /\ exc # "none" /\ HasBody(wcur[w])
    /\ Emit(EvS3End(OpOf(wcur[w]), "body-error"))
    /\ wpc' = [wpc EXCEPT ![w] = "exc"]
    /\ wtag' = [wtag EXCEPT ![w] = exc]
    /\ UNCHANGED <<coord, event, cleanup, locks, exec, wcur, wchk, sb, us, ann, faults, seq, uidKnown>>
\* _main returned: CreateMultipartUploadTask registers the abort cleanup
\* (add_failure_cleanup, under _failure_cleanups_lock); the final task sets
\* the result (unconditionally)                      [SetResult, final task only]
WOk(w) ==
    /\ wpc[w] = "ok"
    /\ (wcur[w] = Create /\ P > 0) => cllock = ""
    /\ IF wcur[w] = Final
       THEN status' = "success" /\ exc' = "none"
       ELSE UNCHANGED <<status, exc>>
    /\ cleanup' = IF wcur[w] = Create /\ P > 0 /\ cleanup = "none" THEN "registered" ELSE cleanup
    /\ task' = [task EXCEPT ![wcur[w]].res = "ok"]
    /\ wpc' = [wpc EXCEPT ![w] = "fin"] /\ Quiet
    /\ UNCHANGED <<event, locks, rq, rsem, usem, wcur, wchk, wtag, sb, us, ann, faults, seq, uidKnown>>
\* [SetExc]
WExc(w) ==
    /\ wpc[w] = "exc"
    /\ SetException(wtag[w])
    /\ task' = [task EXCEPT ![wcur[w]].res = "exc"]
    /\ wpc' = [wpc EXCEPT ![w] = "fin"] /\ Quiet
    /\ UNCHANGED <<event, cleanup, locks, rq, rsem, usem, wcur, wchk, wtag, sb, us, ann, faults, seq, uidKnown>>
\* finally: the final task announces done
WFin(w) ==
    /\ wpc[w] = "fin"
    /\ IF wcur[w] = Final
       THEN wpc' = [wpc EXCEPT ![w] = "announce"] /\ ann' = [ann EXCEPT ![w] = "begin"]
       ELSE wpc' = [wpc EXCEPT ![w] = "tend"] /\ UNCHANGED ann
    /\ Quiet
    /\ UNCHANGED <<coord, event, cleanup, locks, exec, wcur, wchk, wtag, sb, us, faults, seq, uidKnown>>
WAnnounced(w) ==
    /\ wpc[w] = "announce" /\ ~Announcing(w)
    /\ wpc' = [wpc EXCEPT ![w] = "tend"] /\ Quiet
    /\ UNCHANGED <<coord, event, cleanup, locks, exec, wcur, wchk, wtag, sb, us, ann, faults, seq, uidKnown>>
\* [TaskEnd request] the task function returned (the executor counts it as completed)
WTaskEnd(w) ==
    /\ wpc[w] = "tend"
    /\ task' = [task EXCEPT ![wcur[w]].st = "ended", ![wcur[w]].res = IF @ = "none" THEN "skipped" ELSE @]
    /\ wpc' = [wpc EXCEPT ![w] = "finish"] /\ Quiet
    /\ UNCHANGED <<coord, event, cleanup, locks, rq, rsem, usem, wcur, wchk, wtag, sb, us, ann, faults, seq, uidKnown>>
\* the executor future completes (dependents wake up) ...
WFinish(w) ==
    /\ wpc[w] = "finish"
    /\ task' = [task EXCEPT ![wcur[w]].st = "done"]
    /\ wpc' = [wpc EXCEPT ![w] = "release"] /\ Quiet
    /\ UNCHANGED <<coord, event, cleanup, locks, rq, rsem, usem, wcur, wchk, wtag, sb, us, ann, faults, seq, uidKnown>>
\* ... and its done callback releases the queue slot
WRelease(w) ==
    /\ wpc[w] = "release"
    /\ IF Tagged(wcur[w]) THEN usem' = usem + 1 /\ UNCHANGED rsem
       ELSE rsem' = rsem + 1 /\ UNCHANGED usem
    /\ wpc' = [wpc EXCEPT ![w] = "idle"] /\ Quiet
    /\ UNCHANGED <<coord, event, cleanup, locks, task, rq, wcur, wchk, wtag, sb, us, ann, faults, seq, uidKnown>>

AnnNext(th) ==
    \/ AnnBegin(th) \/ AnnCleanups(th) \/ AnnAbortBegin(th)
    \/ AnnAbortEnd(th, "ok") \/ AnnAbortEnd(th, "fault") \/ AnnAbortEnd(th, "fault-after")
    \/ AnnEvent(th) \/ AnnCbLock(th) \/ AnnCbBegin(th) \/ AnnCbEnd(th) \/ AnnEnd(th)
UserNext == UserCall \/ UserSubmit \/ UserRet \/ UserResult \/ UserShutdown
CancelNext == UCancelCall \/ CancelBegin \/ CancelLin \/ UCancelRet
SubNext ==
    \/ SubTake \/ SubCheck \/ SubQueued \/ SubOnQueuedBegin \/ SubOnQueuedEnd(TRUE) \/ SubOnQueuedEnd(FALSE)
    \/ SubRunning \/ SubHeadBegin \/ SubHeadEnd("ok") \/ SubHeadEnd("fault")
    \/ SubSubmit \/ SubSrcFault \/ SubEnd \/ SubFail \/ SubFailWait \/ SubFailDone \/ SubTaskEnd
WNext(w) ==
    \/ WTake(w) \/ WDeps(w) \/ WMainBegin(w)
    \/ WMainEnd(w, "ok") \/ WMainEnd(w, "fault") \/ WMainEnd(w, "fault-after")
    \/ WInterrupt(w) \/ WMainInterrupted(w) \/ WBodyFault(w)
    \/ WOk(w) \/ WExc(w) \/ WFin(w) \/ WAnnounced(w) \/ WTaskEnd(w) \/ WFinish(w) \/ WRelease(w)
Next ==
    \/ UserNext \/ CancelNext \/ SubNext
    \/ \E w \in Workers : WNext(w)
    \/ \E th \in Threads : AnnNext(th)

Spec == Init /\ [][Next]_vars
FairSpec == Spec /\ WF_vars(Next)

\* ---------------------------------------------------------------- properties
PipelineClauses ==
    { "C01_ObjectEqualsSource", "C01_PartsAscending1toN", "C01_PartsTileSource", "C01_CompletedOnce",
      "C03_NoSuccessAfterFatalFault", "C03_RaisedIsOccurredFailureOrCancel",
      "C05_ExactlyOneEnd", "C05_NeverCompletedTwice", "C05_NoPartOrCompleteAfterAbort",
      "C05_AbortAfterAllReturned",
      "C07_NoRequestIfNotStarted", "C07_CancelledOutcome", "C07_CancelErrorTruthful",
      "C08_QueuedAtMostOnce", "C08_QueuedBeforeAnyRequest", "C08_NoQueuedIfCancelledBeforeStart",
      "C08_DoneAtMostOnce", "C08_DoneAfterFinalAndQuiet", "C08_OutcomeFinalAtDone",
      "C10_RequestsInFlightLeR", "C10_StageOccupancy", "C10_RequestThreadsLeR",
      "C17_DoneNeverReverts", "C18_NothingAfterShutdownReturns", "C18_AllDoneAtShutdownReturn" }
ASSUME PipelineClauses \subseteq Clauses      \* (Holds is TRUE for an unknown name)
AllClausesHold == \A c \in PipelineClauses : Holds(c, o)
FailingClauses == {c \in PipelineClauses : ~Holds(c, o)}
ClausesOK == FailingClauses = {}

\* the request-queue semaphore is conserved
Holding(k) == task[k].st \in {"queued", "running", "ended"}
                 \/ \E w \in Workers : wpc[w] = "release" /\ wcur[w] = k
C12_QueueSlotsConserved ==
    /\ rsem = RQ - Cardinality({k \in Tasks : ~Tagged(k) /\ Holding(k)})
    /\ usem = UW - Cardinality({k \in Tasks : Tagged(k) /\ Holding(k)})
\* at most UW part bodies of a stream upload are held in memory
C11_M_UploadWindow == Cardinality({k \in Tasks : Tagged(k) /\ Holding(k)}) <= UW
\* the abort cleanup is never registered after the cleanups ran (orphaned upload)
C05_CleanupRegisteredBeforeRun == ~(cleanup = "ran" /\ \E w \in Workers : wpc[w] = "ok" /\ wcur[w] = Create)
\* the two callback locks are held by an announcing thread only
C17_LocksHeldByAnnouncers ==
    /\ (cllock # "") => ann[cllock] \in {"abortB", "abortE"}
    /\ (cblock # "") => ann[cblock] \in {"cbb", "cbe"}
\* termination (C04): the user's result() and shutdown() return
C04_ResultReturns == (upc = "result") ~> (upc # "result")
C04_ShutdownReturns == (upc = "shutdown") ~> (upc = "end")
=============================================================================
