--------------------------- MODULE SemaphoresApa ---------------------------
(***************************************************************************)
(* Inductive-invariant check (Apalache) of the capacity equation of the    *)
(* sliding-window semaphore (property C12), for ANY state that satisfies   *)
(* the invariant - not only the states TLC reaches within 3-4 tokens per   *)
(* tag: tokens up to MaxTok, two tags, every capacity 1..MaxCap.           *)
(* The transitions are those of Semaphores.tla (acquire grants the next    *)
(* token of the tag when capacity is left; release with its three          *)
(* branches) restated over total functions and sets instead of dynamic     *)
(* function domains, sequences and a recursive drain.                      *)
(***************************************************************************)
EXTENDS Integers, FiniteSets

MaxTok == 12
MaxCap == 6
Tags == {"a", "b"}
Toks == 0..MaxTok

VARIABLES
    \* @type: Int;
    cap,
    \* @type: Int;
    count,
    \* @type: Str -> Int;
    nextSeq,
    \* @type: Str -> Int;
    lowest,
    \* @type: Str -> Set(Int);
    pending

Init ==
    /\ cap \in 1..MaxCap /\ count = cap
    /\ nextSeq = [t \in Tags |-> 0] /\ lowest = [t \in Tags |-> 0]
    /\ pending = [t \in Tags |-> {}]

Acquire(tag) ==
    /\ count > 0 /\ nextSeq[tag] < MaxTok
    /\ nextSeq' = [nextSeq EXCEPT ![tag] = @ + 1]
    /\ count' = count - 1
    /\ UNCHANGED <<cap, lowest, pending>>

\* the drain: the new lowest is the first token above tok that is not pending
NewLow(tag, tok, m) ==
    /\ m > tok /\ m \notin pending[tag]
    /\ \A k \in Toks : (tok < k /\ k < m) => k \in pending[tag]

Release(tag, tok) ==
    IF lowest[tag] = tok /\ tok < nextSeq[tag]
    THEN \E m \in 0..(MaxTok + 1) :
            /\ NewLow(tag, tok, m)
            /\ lowest' = [lowest EXCEPT ![tag] = m]
            /\ pending' = [pending EXCEPT ![tag] = {k \in @ : k >= m}]
            /\ count' = count + (m - tok)
            /\ UNCHANGED <<cap, nextSeq>>
    ELSE IF lowest[tag] < tok /\ tok < nextSeq[tag]
    THEN /\ pending' = [pending EXCEPT ![tag] = @ \cup {tok}]
         /\ UNCHANGED <<cap, count, nextSeq, lowest>>
    ELSE UNCHANGED <<cap, count, nextSeq, lowest, pending>>      \* ValueError: nothing changes

\* the releases the property speaks about: a held token, or a never-issued one
Held(tag, tok) == lowest[tag] <= tok /\ tok < nextSeq[tag] /\ tok \notin pending[tag]
Next ==
    \/ \E tag \in Tags : Acquire(tag)
    \/ \E tag \in Tags, tok \in Toks : (Held(tag, tok) \/ tok >= nextSeq[tag]) /\ Release(tag, tok)

\* ------------------------------------------------------------------------
IndInv ==
    /\ cap \in 1..MaxCap
    /\ \A t \in Tags :
          /\ lowest[t] \in Toks /\ nextSeq[t] \in Toks /\ lowest[t] <= nextSeq[t]
          /\ pending[t] \subseteq {k \in Toks : lowest[t] < k /\ k < nextSeq[t]}
    \* C12_CapacityEquation
    /\ count = cap - ((nextSeq["a"] - lowest["a"]) + (nextSeq["b"] - lowest["b"]))
    \* C12_CountInRange
    /\ count >= 0 /\ count <= cap

\* any state satisfying the invariant (for the inductive step)
IndInit ==
    /\ cap \in 1..MaxCap
    /\ count \in 0..MaxCap
    /\ nextSeq \in [Tags -> Toks] /\ lowest \in [Tags -> Toks]
    /\ pending \in [Tags -> SUBSET Toks]
    /\ IndInv
=============================================================================
