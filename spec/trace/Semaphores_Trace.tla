-------------------------- MODULE Semaphores_Trace --------------------------
(***************************************************************************)
(* code -> spec for the sliding-window semaphore under FREE interleavings: *)
(* real threads call acquire / release on one real semaphore while the     *)
(* scheduler switches at every lock acquire, release and condition wait.   *)
(* The state is lock-protected, so only the start and the end of each call *)
(* are logged (SCall / SRet with the result); the operation itself is an   *)
(* internal specification step taken somewhere between them                *)
(* (linearizability against Semaphores.tla).  A blocking acquire that      *)
(* waits is two internal steps: AcquireB (joins the waiters) and, after a  *)
(* notify, Wake.                                                           *)
(***************************************************************************)
EXTENDS Semaphores, Json, IOUtils, TLCExt

Traces == ndJsonDeserialize(IOEnv.TRACE_FILE)
VARIABLES tid, l,
          pend,     \* [thread -> the call it is inside of, or NoCall]
          got       \* [thread -> result of its linearized call, or NoRes]
tvars == <<vars, tid, l, pend, got>>
Ev == Traces[tid].ev[l]
More == l <= Len(Traces[tid].ev)
NoCall == [op |-> "", tag |-> "", tok |-> -1]
NoRes == [res |-> "", tok |-> -1]

TInit == /\ Init /\ tid \in 1..Len(Traces) /\ l = 1 /\ TLCSet(tid, 0)
         /\ pend = [t \in Threads |-> NoCall] /\ got = [t \in Threads |-> NoRes]

\* [SCall] a thread enters acquire / release
CallEv ==
    /\ Ev.k = "SCall" /\ pend[Ev.th] = NoCall /\ got[Ev.th] = NoRes
    /\ pend' = [pend EXCEPT ![Ev.th] = [op |-> Ev.op, tag |-> Ev.tag, tok |-> Ev.tok]]
    /\ UNCHANGED <<vars, got>>
\* [SRet] it returns what its linearized step produced
RetEv ==
    /\ Ev.k = "SRet" /\ got[Ev.th] # NoRes
    /\ got[Ev.th].res = Ev.res /\ (Ev.res = "token" => got[Ev.th].tok = Ev.tok)
    /\ got' = [got EXCEPT ![Ev.th] = NoRes] /\ pend' = [pend EXCEPT ![Ev.th] = NoCall]
    /\ UNCHANGED vars

\* the call of thread t takes effect
Lin(t) ==
    /\ pend[t] # NoCall /\ got[t] = NoRes /\ ~Busy(t)
    /\ CASE pend[t].op = "acquire" -> AcquireB(t, pend[t].tag)
         [] pend[t].op = "acquire_nb" -> AcquireNB(t, pend[t].tag)
         [] pend[t].op = "release" -> Release(t, pend[t].tag, pend[t].tok)
         [] OTHER -> FALSE
    /\ got' = IF last'.res = "wait" THEN got
              ELSE [got EXCEPT ![t] = [res |-> last'.res, tok |-> last'.tok]]
    /\ UNCHANGED pend
\* a notified waiter runs again
WakeLin(t) ==
    /\ Wake(t)
    /\ got' = IF last'.res = "wait" THEN got
              ELSE [got EXCEPT ![t] = [res |-> last'.res, tok |-> last'.tok]]
    /\ UNCHANGED pend

TNext ==
    /\ UNCHANGED tid
    /\ \/ More /\ (CallEv \/ RetEv) /\ l' = l + 1
       \/ More /\ (\E t \in Threads : Lin(t) \/ WakeLin(t)) /\ UNCHANGED l
TSpec == TInit /\ [][TNext]_tvars

Progress == TLCSet(tid, IF TLCGet(tid) < l THEN l ELSE TLCGet(tid))
NotYetAccepted == TLCGet(tid) <= Len(Traces[tid].ev)
Final_ ==
    \A i \in 1..Len(Traces) :
        PrintT("SEMTRACE " \o ToJson([id |-> Traces[i].id, reached |-> TLCGet(i), len |-> Len(Traces[i].ev)]))
=============================================================================
