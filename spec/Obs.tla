-------------------------------- MODULE Obs --------------------------------
(***************************************************************************)
(* The observable world of a TransferManager: S3 service (objects,         *)
(* multipart table, calls in flight), destination files and streams,       *)
(* callback log, executor occupancy, user-visible outcomes.                *)
(*                                                                         *)
(* The state is ONE record `o`; Apply(o, ev) is the deterministic update   *)
(* for an environment-visible event `ev`.  Two users:                      *)
(*   - ObsTrace.tla applies the events recorded from the real code,        *)
(*   - Pipeline.tla applies the events its own actions generate,           *)
(* and Props.tla states the properties C01..C11, C18 over `o` only.        *)
(*                                                                         *)
(* Bytes are positions: a body / range / write is (start, len) plus a flag *)
(* saying whether the bytes really were the source's bytes at that place.  *)
(***************************************************************************)
EXTENDS Naturals, Integers, Sequences, FiniteSets, TLC

Max(a, b) == IF a > b THEN a ELSE b
Min2(a, b) == IF a < b THEN a ELSE b

\* ------------------------------------------------------------------ initial
XInit(t) ==
    [ kind |-> t.kind, size |-> t.size, dstk |-> t.dstk, srck |-> t.srck,
      hasOld |-> t.hasOld, nsubs |-> t.nsubs, provide |-> t.provide,
      faultFree |-> t.faultFree, shortsrc |-> t.shortsrc,
      call |-> "none", started |-> FALSE, queuedBegun |-> FALSE,
      s3n |-> 0, s3open |-> 0, headSeen |-> FALSE,
      s3BeforeQueued |-> FALSE, s3AfterEarlyCancel |-> FALSE,
      queuedAfterEarlyCancel |-> FALSE,
      obj |-> "none", objVia |-> "none", cplBad |-> {},
      w |-> [i \in 0..(t.size - 1) |-> 0], wbad |-> FALSE,
      snext |-> 0, sbad |-> FALSE, wopen |-> 0, woverlap |-> FALSE,
      wbig |-> FALSE,
      gets |-> [i \in 0..t.size |-> 0], fatalAt |-> {}, getAfterFatal |-> FALSE,
      fatal |-> FALSE, tags |-> {}, rkinds |-> {},
      cancelReq |-> FALSE, cancelRet |-> FALSE, cancelT |-> -1,
      cancelEarly |-> FALSE, cancelHow |-> "",
      annBegun |-> FALSE, cancelTried |-> FALSE,
      finalSeen |-> FALSE, finalBeforeCancel |-> FALSE, resChanged |-> FALSE,
      override |-> t.override,
      q |-> [s \in 1..t.nsubs |-> 0], d |-> [s \in 1..t.nsubs |-> 0],
      dEnd |-> [s \in 1..t.nsubs |-> 0],
      prog |-> [s \in 1..t.nsubs |-> 0], progBad |-> FALSE,
      doneBegun |-> FALSE, doneFlagBad |-> FALSE, afterDone |-> {},
      doneWithOpen |-> FALSE,
      res |-> "none", ek |-> "", tag |-> "", cls |-> "", msgok |-> TRUE,
      resAtDone |-> "",
      flip |-> FALSE, flipBack |-> FALSE,
      dest |-> IF t.hasOld THEN "old" ELSE "absent", temps |-> 0,
      destBad |-> FALSE, tempsAtResult |-> 0, destAtResult |-> "",
      srcRead |-> 0, partDone |-> 0, partsHeld |-> 0, bigPart |-> FALSE, recv |-> 0, wrote |-> 0,
      hiPart |-> -1, finParts |-> {},
      ranges |-> {}, uids |-> {} ]

MInit(x) ==
    [ x |-> x, idKnown |-> FALSE, completesOk |-> 0, completeBegins |-> 0,
      abortBegins |-> 0, open |-> 0, partAfterAbort |-> FALSE,
      abortWithOpen |-> FALSE ]

InitObs(meta) ==
    [ cfg |-> meta.cfg,
      x |-> [i \in 1..Len(meta.xs) |-> XInit(meta.xs[i])],
      mpu |-> <<>>,
      xferOpen |-> 0, headOpen |-> 0, overR |-> FALSE, overS |-> FALSE,
      reqThreads |-> {}, occBad |-> {}, ioWriteBig |-> FALSE, ioTaskBytes |-> -1,
      memBad |-> {},
      shutdown |-> FALSE, afterShutdown |-> {}, undoneAtShutdown |-> FALSE,
      shutIdx |-> 0, shutBad |-> FALSE,
      cancelAll |-> FALSE, cancelAllHow |-> "", cancelRaised |-> FALSE,
      entryOpen |-> FALSE, entryPending |-> FALSE, entryCtl |-> FALSE, entrySkipped |-> FALSE,
      ctlNeed |-> {}, ctlMissed |-> FALSE, kbiWait |-> FALSE, kbiSkipped |-> FALSE,
      ctlHooked |-> FALSE,
      stuck |-> "", ended |-> FALSE, permsBad |-> FALSE, finalBad |-> <<>>,
      n |-> 0 ]

NX(o) == Len(o.x)
XS(o) == 1..Len(o.x)
Known(o, x) == x >= 0 /\ x < Len(o.x)
X(o, x) == o.x[x + 1]

\* ------------------------------------------------------------------ helpers
IsPartOp(op) == op \in {"UploadPart", "UploadPartCopy"}
IsFinalOp(kind, op) ==
    \/ kind = "upload" /\ op \in {"PutObject", "CompleteMultipartUpload"}
    \/ kind = "copy" /\ op \in {"CopyObject", "CompleteMultipartUpload"}
    \/ kind = "delete" /\ op = "DeleteObject"

\* after shutdown returned nothing of the manager may happen
Late(o, what) == IF o.shutdown THEN [o EXCEPT !.afterShutdown = @ \cup {what}] ELSE o
\* after on_done began nothing of that transfer may happen
AfterDone(o, x, what) ==
    IF Known(o, x) /\ X(o, x).doneBegun
    THEN [o EXCEPT !.x[x + 1].afterDone = @ \cup {what}] ELSE o

\* parts listed by a Complete request: ascending 1..n, tiling 0..size
RECURSIVE Tiles(_, _, _)
Tiles(parts, i, pos) ==   \* parts[i..] continue at position pos
    IF i > Len(parts) THEN pos
    ELSE IF parts[i].s = pos /\ parts[i].l >= 0 THEN Tiles(parts, i + 1, pos + parts[i].l)
    ELSE -1

CplFlags(parts, size) ==
    (IF \E i \in 1..Len(parts) : parts[i].n # i THEN {"C01_PartsAscending1toN"} ELSE {})
    \cup (IF \E i \in 1..Len(parts) : ~parts[i].etag THEN {"C01_PartsCarryReturnedETags"} ELSE {})
    \cup (IF \E i \in 1..Len(parts) : ~parts[i].crc THEN {"C01_PartsCarryReturnedChecksums"} ELSE {})
    \cup (IF Tiles(parts, 1, 0) # size THEN {"C01_PartsTileSource"} ELSE {})

\* the part size the ChunksizeAdjuster arrives at for a transfer of known size: clamp into
\* [minp, maxp], double while the object would need more than maxn parts, clamp again
RECURSIVE DblO(_, _, _)
DblO(c, size, maxn) == IF (size + c - 1) \div c > maxn /\ c < 1000000 THEN DblO(2 * c, size, maxn) ELSE c
AdjChunk(cfg, size) ==
    LET c0 == Max(Min2(cfg.chunk, cfg.maxp), cfg.minp) IN
    Max(Min2(DblO(c0, size, cfg.maxn), cfg.maxp), cfg.minp)

\* part planning against the limits in force (C14): every part but the last
\* within [minp, maxp], at most maxn parts, and the configured chunk size is
\* kept when it satisfies the limits for this size
CeilDivO(a, b) == (a + b - 1) \div b
PlanFlags(parts, size, cfg, known) ==      \* known: the library knew the size when planning
    LET n == Len(parts)
        ok == cfg.chunk >= cfg.minp /\ cfg.chunk <= cfg.maxp /\ (~known \/ CeilDivO(size, cfg.chunk) <= cfg.maxn) IN
    (IF (known /\ n > cfg.maxn) \/ \E i \in 1..n : parts[i].l > cfg.maxp \/ (i < n /\ parts[i].l < cfg.minp)
     THEN {"C14_PartSizesWithinLimits"} ELSE {})
    \cup (IF ok /\ \E i \in 1..n : i < n /\ parts[i].l # cfg.chunk
          THEN {"C14_ChunkChangedOnlyIfRequired"} ELSE {})

\* ------------------------------------------------------------------ S3
S3Begin(o0, ev) ==
    LET o == Late(AfterDone(o0, ev.x, "s3"), "s3")
        i == ev.x + 1
        isX == Known(o, ev.x)
        o1 == IF ev.xfer
              THEN [o EXCEPT !.xferOpen = @ + 1,
                             !.overR = @ \/ (o.xferOpen + 1 > o.cfg.R),
                             !.reqThreads = @ \cup {ev.th}]
              ELSE IF ev.op = "HeadObject"
              THEN [o EXCEPT !.headOpen = @ + 1,
                             !.overS = @ \/ (o.headOpen + 1 > o.cfg.S)]
              ELSE o
        o2 == IF ~isX THEN o1 ELSE
              [o1 EXCEPT
                 !.x[i].s3n = @ + 1, !.x[i].s3open = @ + 1,
                 !.x[i].headSeen = @ \/ (ev.op = "HeadObject"),
                 !.x[i].s3BeforeQueued = @ \/ (~o1.x[i].queuedBegun),
                 !.x[i].s3AfterEarlyCancel = @ \/ o1.x[i].cancelEarly,
                 !.x[i].finalSeen = @ \/ IsFinalOp(o1.x[i].kind, ev.op),
                 !.x[i].finalBeforeCancel =
                     @ \/ (IsFinalOp(o1.x[i].kind, ev.op)
                           /\ (o1.x[i].cancelT < 0 \/ ev.chk < 0 \/ ev.chk < o1.x[i].cancelT)),
                 !.x[i].gets = IF ev.op = "GetObject" /\ ev.rs >= 0 /\ ev.rs <= o1.x[i].size
                               THEN [@ EXCEPT ![ev.rs] = @ + 1] ELSE @,
                 !.x[i].getAfterFatal = @ \/ (ev.op = "GetObject" /\ ev.rs \in o1.x[i].fatalAt),
                 !.x[i].hiPart = IF ev.op = "GetObject" /\ o1.x[i].dstk = "nonseekable"
                                    /\ ev.rs >= 0
                                 THEN Max(@, ev.rs \div o1.cfg.chunk) ELSE @]
        u == ev.uid
        o3 == IF u >= 1 /\ u <= Len(o2.mpu)
              THEN IF ev.op = "AbortMultipartUpload"
                   THEN [o2 EXCEPT !.mpu[u].abortBegins = @ + 1,
                                   !.mpu[u].abortWithOpen = @ \/ (o2.mpu[u].open > 0)]
                   ELSE [o2 EXCEPT !.mpu[u].open = @ + 1,
                                   !.mpu[u].partAfterAbort = @ \/ (o2.mpu[u].abortBegins > 0),
                                   !.mpu[u].completeBegins =
                                       @ + (IF ev.op = "CompleteMultipartUpload" THEN 1 ELSE 0)]
              ELSE o2
    IN o3

\* memory window for non-seekable downloads (C11): parts requested ahead of
\* the lowest part whose stream has not been fully received
LowUnfinished(xr, chunk) ==
    LET np == IF xr.size = 0 THEN 1 ELSE (xr.size + chunk - 1) \div chunk
        cand == {p \in 0..np : p \notin xr.finParts}
    IN CHOOSE p \in cand : \A r \in cand : p <= r

WindowUse(o) ==
    LET RECURSIVE S(_)
        S(i) == IF i > Len(o.x) THEN 0
                ELSE (IF o.x[i].dstk = "nonseekable" /\ o.x[i].kind = "download"
                         /\ o.x[i].hiPart >= 0 /\ o.x[i].size >= o.cfg.threshold
                      THEN Max(0, o.x[i].hiPart - LowUnfinished(o.x[i], o.cfg.chunk) + 1)
                      ELSE 0) + S(i + 1)
    IN S(1)

S3End(o0, ev) ==
    LET o == o0
        i == ev.x + 1
        isX == Known(o, ev.x)
        ok == ev.oc = "ok"
        applied == ev.oc \in {"ok", "fault-after"}
        o1 == IF ev.xfer THEN [o EXCEPT !.xferOpen = @ - 1]
              ELSE IF ev.op = "HeadObject" THEN [o EXCEPT !.headOpen = @ - 1] ELSE o
        \* a new multipart upload exists at the service
        o2 == IF ev.op = "CreateMultipartUpload" /\ applied /\ ev.uid = Len(o1.mpu) + 1
              THEN LET m == [MInit(ev.x) EXCEPT !.idKnown = ok] IN
                   IF isX THEN [o1 EXCEPT !.mpu = Append(@, m),
                                          !.x[i].uids = @ \cup {ev.uid}]
                   ELSE [o1 EXCEPT !.mpu = Append(@, m)]
              ELSE o1
        u == ev.uid
        o3 == IF u >= 1 /\ u <= Len(o2.mpu) /\ ev.op \notin {"CreateMultipartUpload", "AbortMultipartUpload"}
              THEN [o2 EXCEPT !.mpu[u].open = @ - 1,
                              !.mpu[u].completesOk =
                                  @ + (IF ev.op = "CompleteMultipartUpload" /\ applied THEN 1 ELSE 0)]
              ELSE o2
        o4 == IF ~isX THEN o3 ELSE
              LET xr == o3.x[i]
                  bodyOk == ev.bsrc = "own" /\ ev.bs = 0 /\ ev.bl = xr.size
              IN
              [o3 EXCEPT
                 !.x[i].s3open = @ - 1,
                 !.x[i].obj =
                    CASE ev.op \in {"PutObject", "CopyObject"} /\ applied ->
                            IF bodyOk THEN "ok" ELSE "bad"
                      [] ev.op = "CompleteMultipartUpload" /\ applied ->
                            IF Tiles(ev.parts, 1, 0) = xr.size THEN "ok" ELSE "bad"
                      [] ev.op = "DeleteObject" /\ applied -> "deleted"
                      [] OTHER -> @,
                 !.x[i].objVia = IF applied /\ ev.op \in {"PutObject", "CopyObject", "CompleteMultipartUpload"}
                                 THEN ev.op ELSE @,
                 !.x[i].cplBad = IF ev.op = "CompleteMultipartUpload"
                                 THEN @ \cup CplFlags(ev.parts, xr.size)
                                        \* (a stream whose sized reads return short cannot be cut
                                        \*  into planned parts: no planning requirement on it)
                                        \cup (IF xr.shortsrc THEN {}
                                              ELSE PlanFlags(ev.parts, xr.size, o3.cfg,
                                                             xr.srck # "nonseekable" \/ xr.provide))
                                 ELSE @,
                 !.x[i].ranges = IF ev.op = "GetObject" /\ ok THEN @ \cup {<<ev.bs, ev.bl>>} ELSE @,
                 !.x[i].bigPart = @ \/ (ev.op \in {"UploadPart", "PutObject"} /\ xr.srck \in {"seekable", "nonseekable"}
                                            /\ ev.op = "UploadPart"
                                            /\ ev.bl > Max(AdjChunk(o3.cfg, xr.size), o3.cfg.threshold)),
                 !.x[i].partDone = IF IsPartOp(ev.op) /\ ev.bl > 0 THEN @ + ev.bl
                                   ELSE IF ev.op = "PutObject" /\ ev.bl > 0 THEN @ + ev.bl ELSE @]
    IN o4

BodyRead(o0, ev) ==
    LET i == ev.x + 1 IN
    IF ~Known(o0, ev.x) THEN o0 ELSE
    LET xr == o0.x[i]
        pe == IF ev.rs + o0.cfg.chunk < xr.size /\ xr.size >= o0.cfg.threshold
              THEN ev.rs + o0.cfg.chunk ELSE xr.size
        fin == (ev.off + ev.len = pe /\ xr.size >= o0.cfg.threshold)
        o1 == [o0 EXCEPT !.x[i].recv = @ + ev.len,
                         !.x[i].finParts = IF fin THEN @ \cup {ev.rs \div o0.cfg.chunk} ELSE @]
    IN o1

BodyFault(o0, ev) ==
    LET i == ev.x + 1 IN
    IF ~Known(o0, ev.x) THEN o0 ELSE
    IF ev.retryable
    THEN [o0 EXCEPT !.x[i].rkinds = @ \cup {ev.kind}]
    ELSE [o0 EXCEPT !.x[i].fatalAt = @ \cup {ev.rs}, !.x[i].fatal = TRUE,
                    !.x[i].tags = @ \cup {"stream-fatal"}]

\* ------------------------------------------------------------------ destination
\* a finished write of (off,len) whose bytes are the object's bytes at src
MarkWrite(xr, off, len, src) ==
    IF len = 0 THEN xr ELSE
    IF src # off \/ off < 0 \/ off + len > xr.size
    THEN [xr EXCEPT !.wbad = TRUE]
    ELSE [xr EXCEPT !.w = [p \in DOMAIN xr.w |-> IF p >= off /\ p < off + len THEN xr.w[p] + 1 ELSE xr.w[p]]]

DstWriteBegin(o0, ev) ==
    LET o == Late(AfterDone(o0, ev.x, "write"), "write")
        i == ev.x + 1 IN
    IF ~Known(o, ev.x) THEN o ELSE
    [o EXCEPT !.x[i].wopen = @ + 1, !.x[i].woverlap = @ \/ (o.x[i].wopen > 0),
              !.x[i].wbig = @ \/ (ev.len > o.cfg.io_chunk)]

DstWrite(o0, ev) ==
    LET i == ev.x + 1 IN
    IF ~Known(o0, ev.x) THEN o0 ELSE
    LET xr == o0.x[i]
        x1 == [xr EXCEPT !.wopen = @ - 1]
        x2 == IF ~ev.ok THEN x1 ELSE
              LET m == MarkWrite(x1, ev.off, ev.len, ev.src) IN
              IF xr.dstk = "nonseekable"
              THEN [m EXCEPT !.sbad = @ \/ (ev.off # xr.snext),
                             !.snext = ev.off + ev.len, !.wrote = @ + ev.len]
              ELSE [m EXCEPT !.wrote = @ + ev.len]
        \* bytes written by the IO-stage task that is running (one queued
        \* write = at most one chunk of io_chunksize)
        tb == IF o0.ioTaskBytes >= 0 /\ ev.ok THEN o0.ioTaskBytes + ev.len ELSE o0.ioTaskBytes
    IN [o0 EXCEPT !.x[i] = x2, !.ioTaskBytes = tb,
                  !.ioWriteBig = @ \/ (tb > o0.cfg.io_chunk)]

IoTask(o0, ev) == [o0 EXCEPT !.ioTaskBytes = IF ev.ph = "b" THEN 0 ELSE -1]

FsEvent(o0, ev) ==      \* open / close / rename / remove of the destination's files
    LET o == Late(AfterDone(o0, ev.x, "fs"), "fs")
        i == ev.x + 1 IN
    IF Known(o, ev.x) /\ ev.kind = "rename"
    THEN [o EXCEPT !.x[i].finalSeen = TRUE,
                   !.x[i].finalBeforeCancel =
                       @ \/ (o.x[i].cancelT < 0 \/ ev.chk < 0 \/ ev.chk < o.x[i].cancelT)]
    ELSE o

FsSnap(o0, ev) ==
    LET i == ev.x + 1 IN
    IF ~Known(o0, ev.x) THEN o0 ELSE
    [o0 EXCEPT !.x[i].dest = ev.dest, !.x[i].temps = ev.temps,
               !.x[i].destBad = @ \/ (ev.dest = "partial")
                                  \/ (ev.dest = "old" /\ ~o0.x[i].hasOld)]

\* ------------------------------------------------------------------ callbacks
CbBegin(o0, ev) ==
    \* (a callback that runs inside the user's own concurrent cancel() call,
    \*  on the user's thread, is not an activity of the manager)
    LET o == IF ev.user THEN o0 ELSE Late(o0, "callback")
        i == ev.x + 1 IN
    IF ~Known(o, ev.x) THEN o ELSE
    LET xr == o.x[i] IN
    CASE ev.cb = "queued" ->
           [o EXCEPT !.x[i].q[ev.sub] = @ + 1, !.x[i].queuedBegun = TRUE,
                     !.x[i].queuedAfterEarlyCancel = @ \/ xr.cancelEarly,
                     !.x[i].afterDone = IF xr.doneBegun THEN @ \cup {"queued"} ELSE @]
      [] ev.cb = "progress" ->
           LET s == xr.prog[ev.sub] + ev.n IN
           [o EXCEPT !.x[i].prog[ev.sub] = s,
                     !.x[i].progBad = @ \/ (s < 0) \/ (s > xr.size),
                     !.x[i].afterDone = IF xr.doneBegun THEN @ \cup {"progress"} ELSE @]
      [] ev.cb = "done" ->
           [o EXCEPT !.x[i].d[ev.sub] = @ + 1, !.x[i].doneBegun = TRUE,
                     !.x[i].doneFlagBad = @ \/ ~ev.flag,
                     !.x[i].doneWithOpen = @ \/ (xr.s3open > 0) \/ (xr.wopen > 0),
                     !.x[i].resAtDone = IF xr.doneBegun THEN @ ELSE ev.st]
      [] OTHER -> o

CbEnd(o0, ev) ==
    LET i == ev.x + 1 IN
    IF ~Known(o0, ev.x) THEN o0 ELSE
    IF ev.cb = "done" THEN [o0 EXCEPT !.x[i].dEnd[ev.sub] = @ + 1] ELSE o0

\* ------------------------------------------------------------------ user
Call(o0, ev) == [o0 EXCEPT !.x[ev.x + 1].call = "begun"]
Ret(o0, ev) == [o0 EXCEPT !.x[ev.x + 1].call = IF ev.ok THEN "returned" ELSE "rejected"]

StatusEv(o0, ev) ==
    LET i == ev.x + 1 IN
    IF ~Known(o0, ev.x) THEN o0 ELSE
    IF ev.st = "queued" THEN [o0 EXCEPT !.x[i].started = TRUE] ELSE o0

\* which transfers a cancel entry point addresses
Addressed(o, ev, j) ==
    IF ev.x >= 0 THEN j = ev.x + 1
    ELSE o.x[j].call = "returned" /\ o.x[j].res = "none"

\* transfers the manager still tracks: submitted and not yet announcing
Pending(o, j) == o.x[j].call = "returned" /\ ~o.x[j].annBegun
\* the entry points that cancel everything (shutdown(cancel=True), leaving the with-block
\* through an exception or Ctrl-C)
EntryAll(ev) == ev.x < 0 /\ ev.how \in {"shutdown", "exit-exc", "exit-kbi"}

CancelCall(o0, ev) ==
    [o0 EXCEPT !.cancelAll = @ \/ (ev.x < 0),
               !.cancelAllHow = IF ev.x < 0 THEN ev.how ELSE @,
               !.entryOpen = IF EntryAll(ev) THEN TRUE ELSE @,
               !.entryCtl = IF EntryAll(ev) THEN FALSE ELSE @,
               !.entryPending = IF EntryAll(ev) THEN \E j \in DOMAIN o0.x : Pending(o0, j) ELSE @,
               !.x = [j \in DOMAIN o0.x |->
                        IF Addressed(o0, ev, j)
                        THEN [o0.x[j] EXCEPT !.cancelReq = TRUE,
                                !.cancelTried = IF ev.x >= 0 THEN TRUE ELSE @,
                                !.cancelHow = IF @ = "" THEN ev.how ELSE @]
                        ELSE o0.x[j]]]

\* the controller's cancel-everything loop: every transfer still tracked when it starts
\* must have been handed the cancel when it ends
CtlCancelBegin(o0) ==
    [o0 EXCEPT !.entryCtl = TRUE, !.kbiWait = FALSE,
               !.ctlNeed = {j \in DOMAIN o0.x : Pending(o0, j)},
               !.x = [j \in DOMAIN o0.x |-> [o0.x[j] EXCEPT !.cancelTried = FALSE]]]
CtlCancelEnd(o0) ==
    \* (a transfer that began to announce meanwhile may have left the tracked set before
    \*  the loop took its copy)
    [o0 EXCEPT !.ctlMissed = @ \/ (\E j \in o0.ctlNeed : ~o0.x[j].cancelTried /\ ~o0.x[j].annBegun),
               !.ctlNeed = {}]
\* Ctrl-C ended the wait inside shutdown(): the manager must cancel everything before
\* shutdown() is left
CtlWaitKbi(o0) == [o0 EXCEPT !.kbiWait = \E j \in DOMAIN o0.x : Pending(o0, j)]
ObsAnnBegin(o0, ev) ==
    IF ~Known(o0, ev.x) THEN o0 ELSE [o0 EXCEPT !.x[ev.x + 1].annBegun = TRUE]

CancelRet(o00, ev) ==
    LET o0 == IF ev.x < 0 /\ o00.entryOpen
              THEN [o00 EXCEPT !.entryOpen = FALSE,
                               !.entrySkipped = @ \/ (o00.ctlHooked /\ o00.entryPending
                                                        /\ ~o00.entryCtl)]
              ELSE o00 IN
    IF ~ev.ok THEN [o0 EXCEPT !.cancelRaised = TRUE] ELSE
    [o0 EXCEPT !.x = [j \in DOMAIN o0.x |->
                        IF Addressed(o0, ev, j) /\ ~o0.x[j].doneBegun
                        THEN [o0.x[j] EXCEPT
                                !.cancelRet = TRUE,
                                !.cancelT = IF @ < 0 THEN ev.t ELSE @,
                                !.cancelEarly = @ \/ (~o0.x[j].started /\ ~o0.x[j].queuedBegun
                                                        /\ o0.x[j].s3n = 0)]
                        ELSE o0.x[j]]]

ResultAgain(o0, ev) ==
    LET i == ev.x + 1 IN
    IF ~Known(o0, ev.x) THEN o0 ELSE
    [o0 EXCEPT !.x[i].resChanged = @ \/ (o0.x[i].res # "none"
                   /\ (ev.oc # o0.x[i].res \/ ev.tag # o0.x[i].tag))]

ResultEnd(o0, ev) ==
    LET i == ev.x + 1 IN
    IF ~Known(o0, ev.x) THEN o0 ELSE
    IF o0.x[i].res # "none" THEN o0 ELSE
    [o0 EXCEPT !.x[i].res = ev.oc, !.x[i].ek = ev.ek, !.x[i].tag = ev.tag,
               !.x[i].cls = ev.cls, !.x[i].msgok = ev.msgok,
               !.x[i].tempsAtResult = o0.x[i].temps, !.x[i].destAtResult = o0.x[i].dest]

Fault(o0, ev) ==
    LET i == ev.x + 1 IN
    IF ~Known(o0, ev.x) THEN o0 ELSE
    [o0 EXCEPT !.x[i].tags = @ \cup {ev.tag}, !.x[i].fatal = @ \/ ev.fatal]

DoneFlip(o0, ev) ==
    LET i == ev.x + 1 IN
    IF ~Known(o0, ev.x) THEN o0 ELSE
    [o0 EXCEPT !.x[i].flipBack = @ \/ (o0.x[i].flip /\ ~ev.done), !.x[i].flip = ev.done]

Shutdown(o0, ev) ==
    [o0 EXCEPT !.shutdown = TRUE,
               !.kbiSkipped = @ \/ o0.kbiWait, !.kbiWait = FALSE,
               !.undoneAtShutdown = \E j \in DOMAIN o0.x :
                   o0.x[j].call = "returned" /\ ~o0.x[j].flip]

\* executor.shutdown() calls of the manager: every shutdown() shuts the executors down
\* producers before consumers - submission, request, io (Manager.tla shows why)
StageIdx(st) == CASE st = "submission" -> 1 [] st = "request" -> 2 [] st = "io" -> 3 [] OTHER -> 0
ExecShutdown(o0, ev) ==
    LET k == StageIdx(ev.stage) IN
    IF k = 0 THEN o0 ELSE
    [o0 EXCEPT !.shutIdx = k,
               !.shutBad = @ \/ ~(k = 1 \/ k = o0.shutIdx + 1)]

\* ------------------------------------------------------------------ executors / memory
ExecSubmit(o0, ev) ==
    LET lim == CASE ev.stage = "request" -> o0.cfg.RQ + o0.cfg.up_chunks + o0.cfg.down_chunks
                 [] ev.stage = "submission" -> o0.cfg.SQ
                 [] ev.stage = "io" -> o0.cfg.IOQ
                 [] OTHER -> 1000000
    IN IF ev.inflight > lim THEN [o0 EXCEPT !.occBad = @ \cup {ev.stage}] ELSE o0

BufferedUpload(o) ==
    LET RECURSIVE S(_)
        S(i) == IF i > Len(o.x) THEN 0
                ELSE (IF o.x[i].kind = "upload" /\ o.x[i].srck \in {"seekable", "nonseekable"}
                         /\ ~o.x[i].fatal /\ ~o.x[i].cancelReq
                      THEN Max(0, o.x[i].srcRead - o.x[i].partDone) ELSE 0) + S(i + 1)
    IN S(1)

SrcRead(o0, ev) ==
    LET i == ev.x + 1 IN
    IF ~Known(o0, ev.x) THEN o0 ELSE
    LET o1 == [o0 EXCEPT !.x[i].srcRead = @ + ev.len]
        bound == (o1.cfg.up_chunks + o1.cfg.S) * Max(AdjChunk(o1.cfg, o1.x[i].size), o1.cfg.threshold)
        \* (once the transfer failed or was cancelled its part tasks are skipped and upload
        \*  nothing: the bytes read no longer show up as uploaded, the held parts are then
        \*  bounded by PartTask below)
        live == ~o1.x[i].fatal /\ ~o1.x[i].cancelReq
    IN IF live /\ BufferedUpload(o1) > bound THEN [o1 EXCEPT !.memBad = @ \cup {"C11_UploadBuffers"}] ELSE o1

\* part tasks of a stream upload between their submission and their end: each holds a part
\* body in memory and a slot of the in-memory-upload tag semaphore (at most up_chunks)
PartTask(o0, ev) ==
    LET i == ev.x + 1 IN
    IF ~Known(o0, ev.x) THEN o0 ELSE
    LET xr == o0.x[i] IN
    IF ~(xr.kind = "upload" /\ xr.srck \in {"seekable", "nonseekable"}) THEN o0 ELSE
    IF ev.ph = "s"
    THEN LET o1 == [o0 EXCEPT !.x[i].partsHeld = @ + 1] IN
         IF xr.partsHeld + 1 > o0.cfg.up_chunks
         THEN [o1 EXCEPT !.memBad = @ \cup {"C11_UploadBuffers"}] ELSE o1
    ELSE [o0 EXCEPT !.x[i].partsHeld = @ - 1]

\* window check happens when a ranged GET begins
WindowCheck(o) ==
    IF WindowUse(o) > o.cfg.down_chunks THEN [o EXCEPT !.memBad = @ \cup {"C11_DownloadWindow"}] ELSE o

End(o0, ev) ==
    [o0 EXCEPT !.ended = TRUE, !.permsBad = ~ev.perm, !.finalBad = ev.finbad]

\* ------------------------------------------------------------------ dispatch
Apply(o0, ev) ==
    LET o == [o0 EXCEPT !.n = @ + 1] IN
    CASE ev.e = "S3Begin" -> WindowCheck(S3Begin(o, ev))
      [] ev.e = "S3End" -> S3End(o, ev)
      [] ev.e = "BodyRead" -> BodyRead(o, ev)
      [] ev.e = "BodyFault" -> BodyFault(o, ev)
      [] ev.e = "DstWriteBegin" -> DstWriteBegin(o, ev)
      [] ev.e = "DstWrite" -> DstWrite(o, ev)
      [] ev.e = "FsEvent" -> FsEvent(o, ev)
      [] ev.e = "Fs" -> FsSnap(o, ev)
      [] ev.e = "CbBegin" -> CbBegin(o, ev)
      [] ev.e = "CbEnd" -> CbEnd(o, ev)
      [] ev.e = "Call" -> Call(o, ev)
      [] ev.e = "Ret" -> Ret(o, ev)
      [] ev.e = "Status" -> StatusEv(o, ev)
      [] ev.e = "CancelCall" -> CancelCall(o, ev)
      [] ev.e = "CancelRet" -> CancelRet(o, ev)
      \* (the controller's cancel/wait are observed in this run)
      [] ev.e = "CtlHooked" -> [o EXCEPT !.ctlHooked = TRUE]
      [] ev.e = "CtlCancelBegin" -> CtlCancelBegin(o)
      [] ev.e = "CtlCancelEnd" -> CtlCancelEnd(o)
      [] ev.e = "CtlWaitKbi" -> CtlWaitKbi(o)
      [] ev.e = "AnnBegin" -> ObsAnnBegin(o, ev)
      [] ev.e = "ResultAgain" -> ResultAgain(o, ev)
      [] ev.e = "ResultEnd" -> ResultEnd(o, ev)
      [] ev.e = "Fault" -> Fault(o, ev)
      [] ev.e = "DoneFlip" -> DoneFlip(o, ev)
      [] ev.e = "ShutdownEnd" -> Shutdown(o, ev)
      [] ev.e = "ExecSubmit" -> ExecSubmit(o, ev)
      [] ev.e = "SrcRead" -> SrcRead(o, ev)
      [] ev.e = "IoTask" -> IoTask(o, ev)
      [] ev.e = "PartTask" -> PartTask(o, ev)
      [] ev.e = "ExecShutdown" -> ExecShutdown(o, ev)
      [] ev.e = "Stuck" -> [o EXCEPT !.stuck = ev.kind]
      [] ev.e = "End" -> End(o, ev)
      [] OTHER -> o
=============================================================================
