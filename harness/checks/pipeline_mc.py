"""TLC on Pipeline.tla: the design-level model of the TransferManager pipeline
(one transfer: multipart upload of P parts or a single request) that drives
the same observable state Obs.tla as the trace validation; the clauses of
Props.tla are INVARIANTs, termination is checked under fairness."""

import re

import tlc

CFG = '''SPECIFICATION FairSpec
CONSTANTS
  P = %(p)d
  R = %(r)d
  RQ = %(rq)d
  MaxFaults = %(faults)d
  UserMayCancel = %(cancel)s
  Kind = "%(kind)s"
  NeedHead = %(head)s
  Src = "%(src)s"
  UW = %(uw)d
%(invs)sINVARIANT C12_QueueSlotsConserved
INVARIANT C11_M_UploadWindow
INVARIANT C05_CleanupRegisteredBeforeRun
INVARIANT C17_LocksHeldByAnnouncers
PROPERTY C04_ResultReturns
PROPERTY C04_ShutdownReturns
CHECK_DEADLOCK FALSE
'''

SAFE_CFG = CFG.replace('SPECIFICATION FairSpec', 'SPECIFICATION Spec').replace(
    'PROPERTY C04_ResultReturns\n', '').replace('PROPERTY C04_ShutdownReturns\n', '')

FOOT = {
    'C01': ('C01_',), 'C03': ('C03_', 'C05_'), 'C04': ('C04_',), 'C05': ('C05_',),
    'C07': ('C07_', 'C05_'), 'C08': ('C08_',), 'C10': ('C10_', 'C12_'),
    'C18': ('C18_',), 'C17': ('C17_',), 'C12': ('C12_',),
}



def clauses():
    txt = open(tlc.SPEC + '/Pipeline.tla').read()
    return re.findall(r'"(C\d\d_\w+)"',
                      txt.split('PipelineClauses ==')[1].split('AllClausesHold')[0])


def run(ck, pid, tier, seed):
    from checks import download_mc
    download_mc.run(ck, pid, tier, seed)
    if pid not in FOOT:
        return
    cl = clauses()
    mod = '---- MODULE MC_Pipeline ----\nEXTENDS Pipeline\n' + ''.join(
        f'I_{c} == Holds("{c}", o)\n' for c in cl) + '====\n'
    invs = ''.join(f'INVARIANT I_{c}\n' for c in cl)
    # live: termination under fairness is checked too (costly on big graphs)
    confs = [dict(p=2, r=2, rq=2, faults=1, cancel='TRUE', live=False),
             dict(p=2, r=2, rq=1, faults=1, cancel='FALSE', live=True),
             dict(p=1, r=2, rq=1, faults=1, cancel='TRUE', live=True),
             dict(p=0, r=1, rq=1, faults=1, cancel='TRUE', live=True),
             dict(p=0, r=2, rq=1, faults=1, cancel='TRUE', kind='delete', live=True),
             dict(p=2, r=1, rq=1, faults=1, cancel='TRUE', live=True),
             dict(p=2, r=2, rq=2, faults=1, cancel='TRUE', kind='copy', head='TRUE', live=False),
             dict(p=0, r=1, rq=1, faults=1, cancel='TRUE', kind='copy', head='TRUE', live=True),
             dict(p=3, r=2, rq=2, faults=1, cancel='FALSE', src='stream', uw=2, live=True),
             dict(p=2, r=2, rq=1, faults=1, cancel='TRUE', src='stream', uw=1, live=False)]
    if tier == 'thorough':
        confs += [dict(p=3, r=2, rq=2, faults=1, cancel='TRUE', live=False),
                  dict(p=2, r=2, rq=2, faults=2, cancel='TRUE', live=False),
                  dict(p=3, r=3, rq=1, faults=1, cancel='FALSE', live=True),
                  dict(p=2, r=2, rq=2, faults=1, cancel='TRUE', live=True)]
    if tier != 'thorough':
        # every property checks the first two configurations and two of the
        # others in rotation (all of them are covered across the properties)
        k = int(pid[1:])
        rest = confs[2:]
        confs = confs[:2] + [rest[(k + i) % len(rest)] for i in range(min(2, len(rest)))]
    for c in confs:
        c.setdefault('kind', 'upload')
        c.setdefault('head', 'FALSE')
        c.setdefault('src', 'path')
        c.setdefault('uw', 2)
        cfg = CFG if c['live'] else SAFE_CFG
        r = tlc.run_tlc('MC_Pipeline', cfg % dict(c, invs=invs), workers=14,
                        timeout=3000, files={'MC_Pipeline.tla': mod})
        ck.add_tlc(f'Pipeline {c["kind"]}{"+head" if c["head"] == "TRUE" else ""}{" stream UW=%d" % c["uw"] if c["src"] == "stream" else ""} P={c["p"]} R={c["r"]} RQ={c["rq"]} faults={c["faults"]} '
                   f'cancel={c["cancel"]} {"safety+liveness" if c["live"] else "safety"}', r)
        for v in r.violated:
            name = v[2:] if v.startswith('I_') else v
            mine = name.startswith(FOOT[pid])
            rep = {'component': 'model', 'model': 'Pipeline', 'conf': c,
                   'cex': getattr(r, 'cex_full', r.cex)[-3000:]}
            if mine:
                ck.violation(name, rep)
            else:
                ck.coverage.setdefault('other_property_clauses_failed', {})[name] = 1
