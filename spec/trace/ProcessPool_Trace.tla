------------------------- MODULE ProcessPool_Trace -------------------------
(***************************************************************************)
(* Trace validation for ProcessPool.tla.  The real GetObjectSubmitter and  *)
(* GetObjectWorker loops, the real TransferMonitor and                     *)
(* ProcessPoolTransferFuture run in one process as cooperative threads;    *)
(* every monitor call, queue operation, S3 size request, allocate, rename  *)
(* and remove is an event tagged with the thread that made it.  Each event *)
(* must be the specification action of that thread with the logged values  *)
(* (transfer id, job, return value of the monitor call).  All traces of a  *)
(* file share NDownloads / JobsOf (they are generated per geometry).       *)
(***************************************************************************)
EXTENDS ProcessPool, Json, IOUtils, TLCExt

Traces == ndJsonDeserialize(IOEnv.TRACE_FILE)
VARIABLES tid, l, rfs, res
tvars == <<vars, tid, l, rfs, res>>
Ev == Traces[tid].ev[l]
More == l <= Len(Traces[tid].ev)
ExcNone(x) == mon[x].exc = "none"

TInit == /\ Init /\ tid \in 1..Len(Traces) /\ l = 1 /\ TLCSet(tid, 0)
         /\ rfs = [x \in DL |-> [dest |-> "unknown", temps |-> 0]]
         /\ res = [x \in DL |-> "none"]

Step ==
    LET e == Ev IN
    CASE e.k = "new_transfer" -> UserNotifyNew /\ e.x = nextId
      [] e.k = "put_req" -> UserPutRequest /\ e.x = nextId - 1
      [] e.k = "cancel" -> UserCancel(e.x)
      [] e.k = "cancel_all" -> UserCtrlC
      [] e.k = "shutdown_start" -> UserShutdownStart
      [] e.k = "put_shutdown_req" -> UserSignalSubmitter
      [] e.k = "put_shutdown_workers" -> UserJoinSubmitter
      [] e.k = "shutdown_end" -> UserJoinWorkers
      [] e.k = "sub_get" -> SubGet /\ (IF e.x < 0 THEN Head(reqQ) = Shutdown
                                        ELSE Head(reqQ) # Shutdown /\ Head(reqQ).x = e.x)
      [] e.k = "size" -> SubSize(e.ok) /\ spc.x = e.x
      [] e.k = "alloc" -> SubAlloc(e.ok) /\ spc.x = e.x
      [] e.k = "expect" -> SubExpect /\ spc.x = e.x /\ e.n = JobsOf[e.x]
      [] e.k = "put_job" -> SubPut /\ spc.x = e.x /\ spc.i = e.i
      [] e.k = "sub_exc" -> SubFailExc /\ spc.x = e.x
      [] e.k = "sub_done" -> SubFailDone /\ spc.x = e.x
      [] e.k = "w_get" -> WGet(e.w) /\ (IF e.x < 0 THEN Head(workQ) = Shutdown
                                         ELSE Head(workQ) # Shutdown /\ Head(workQ).x = e.x
                                              /\ Head(workQ).i = e.i)
      [] e.k = "w_getexc" ->
            /\ wpc[e.w].x = e.x /\ (e.none <=> ExcNone(e.x))
            /\ (WCheck(e.w) \/ WFinal(e.w))
      [] e.k = "w_ran" -> WRun(e.w, e.ok) /\ wpc[e.w].x = e.x
      [] e.k = "w_exc" -> wpc[e.w].x = e.x /\ (WJobExc(e.w) \/ WRenameExc(e.w))
      [] e.k = "w_account" -> WAccount(e.w) /\ wpc[e.w].x = e.x /\ mon'[e.x].jobs = e.remaining
      [] e.k = "w_rename" -> WRename(e.w, e.ok) /\ wpc[e.w].x = e.x
      [] e.k = "w_remove" -> WRemove(e.w) /\ wpc[e.w].x = e.x
      [] e.k = "w_done" -> WDone(e.w) /\ wpc[e.w].x = e.x
      [] OTHER -> FALSE

\* observations of the real directory / of result(): no spec action
Observe ==
    LET e == Ev IN
    CASE e.k = "snap" -> rfs' = [rfs EXCEPT ![e.x] = [dest |-> e.dest, temps |-> e.temps]]
                         /\ UNCHANGED res
      [] e.k = "result" -> res' = [res EXCEPT ![e.x] = e.oc] /\ UNCHANGED rfs
      [] OTHER -> FALSE

TNext == /\ More /\ l' = l + 1 /\ UNCHANGED tid
         /\ IF Ev.k \in {"snap", "result"} THEN Observe /\ UNCHANGED vars
            ELSE Step /\ UNCHANGED <<rfs, res>>

\* the real directory agrees with the specification's file system
R_DestNeverPartial == \A x \in DL : rfs[x].dest # "partial"
R_AgreesAtDone ==
    \A x \in DOMAIN mon : mon[x].done =>
        /\ rfs[x].temps = 0
        /\ ((rfs[x].dest = "complete") <=> (fs[x].dest = "complete"))
R_ResultTruthful ==
    \A x \in DL : /\ ((res[x] # "none") => (x \in DOMAIN mon /\ mon[x].done))
                   /\ ((res[x] = "ok") => (rfs[x].dest = "complete"))
R_AllDoneAfterShutdown == (upc = "down") => \A x \in usub : mon[x].done
TSpec == TInit /\ [][TNext]_tvars

Progress == TLCSet(tid, IF TLCGet(tid) < l THEN l ELSE TLCGet(tid))
Final ==
    \A i \in 1..Len(Traces) :
        PrintT("PPTRACE " \o ToJson([id |-> Traces[i].id, reached |-> TLCGet(i), len |-> Len(Traces[i].ev)]))
=============================================================================
