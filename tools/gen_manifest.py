#!/usr/bin/env python3
"""Regenerates /verif/MANIFEST.json from the table below (keeps it valid)."""
import json
import os

VERIF = os.path.dirname(os.path.dirname(os.path.abspath(__file__)))

BASELINE = ("cd /repo && /venv/bin/python -m pytest -ra -q -p no:cacheprovider "
            "--timeout=900 --continue-on-collection-errors")

# property -> (design section, technique, level text, level note)
CLAIMED = {
    'C12': ('5/C12',
            'TLC model checking of Semaphores.tla (safety + liveness), '
            'spec->code replay of every TLC transition into the real class and '
            'code->spec trace validation (Semaphores_Trace.tla, linearizability) of '
            'threaded runs under free interleavings',
            'TLC exhaustively checks the capacity equation, sequential tokens, '
            'non-blocking raise, rejected releases and (under fairness) that no '
            'acquirer blocks forever, for capacities 1..3, 2-3 tags, 2-3 blocking '
            'threads; every explored transition is then replayed into the real '
            'SlidingWindowSemaphore (sequentially and with really blocked threads '
            'under the deterministic runtime) and results, capacity and the set of '
            'blocked threads are compared with the model; 2-4 real threads with random '
            'scripts run under random/PCT schedules (a scheduling point at every lock '
            'operation inside the semaphore) and TLC checks that each execution has a '
            'linearization in the specification.',
            'bounded constants (tokens per tag <= 3/4); CPython FIFO condition '
            'notification; TLC, the cooperative runtime; permits at quiescence of '
            'end-to-end runs via ObsTrace'),
    'C17': ('5/C17',
            'TLC model checking of Coordinator.tla, exhaustive spec->code '
            'replay of operation sequences, TLC trace validation of threaded runs',
            'TLC checks done-absorption, first-failure-kept, no-restart, state '
            'agreement, truthful result() and termination of announce/cancel for '
            'all operation sequences up to length 4-6 and all 2-3 thread '
            'interleavings; every reachable (state, operation) pair is replayed '
            'into the real TransferCoordinator/TransferFuture; random threaded '
            'executions of the real class are validated against the spec by TLC.',
            'bounded sequence length; callbacks opaque or one of four re-entrant '
            'kinds; scheduling points of the cooperative runtime are lock '
            'acquisitions and the racy status/exception reads'),
}

CLAIMED['C16'] = ('5/C16',
    'TLC model checking of DeferQueue.tla over all delivery histories + '
    'replay of every explored history into the real DeferQueue + TLC trace validation '
    '(DeferQueue_Trace.tla) of random legal histories at larger geometries',
    'TLC enumerates every delivery history the download loop can produce '
    '(disjoint parts, attempts restarting at the part start, arbitrary cuts '
    'and interleavings) for several small geometries and checks in-order/'
    'exactly-once/as-soon-as-contiguous/all-written; every explored history '
    'is replayed into the real DeferQueue and the writes (offset, bytes) it '
    'returns are compared with the model; for 4-6 parts random legal histories are fed '
    'to the real queue and TLC checks both the legality of the history and the returned '
    'writes (DeferQueue_Trace.tla); non-seekable downloads end to end (ObsTrace, '
    'Download_Trace).',
    'exhaustive geometry bounded (object <= 8 positions, <= 3 parts, <= 3 attempts); '
    'request_writes atomic under _io_submit_lock')


_E2E_NOTE = ('bounded scenario sizes (objects <= 13 positions, <= 4 transfers); schedules '
             'explored by seeded random/PCT priorities and one-deviation systematic '
             'search, not exhaustively; the cooperative runtime switches threads only at '
             'scheduling points; fake S3 transport behind a real botocore client')
_E2E_TECH = ('TLC model checking of the design-level models Pipeline.tla / Download.tla (clauses of '
             'Props.tla as invariants, termination under fairness) + TLC trace validation of '
             'executions of the real TransferManager recorded under a deterministic scheduler '
             'with fault, cancel and schedule sweeps: monitor layer (ObsTrace.tla over '
             'Obs.tla/Props.tla) for all executions, action-level conformance '
             '(Pipeline_Trace.tla / Download_Trace.tla) for the executions inside the models\' '
             'scope')


def _e2e(pid, what):
    CLAIMED[pid] = ('5/' + pid, _E2E_TECH,
                    'Every recorded execution of the real code is replayed by TLC event by '
                    'event into the observable-state specification Obs.tla and every clause '
                    'of the property in Props.tla is evaluated in every state of the trace. '
                    'The same clauses are invariants of the TLA+ models of the upload pipeline '
                    '(Pipeline.tla) and of the ranged download pipeline (Download.tla: path, '
                    'seekable and non-seekable destinations), which TLC checks exhaustively '
                    'for small constants, and recorded executions of single uploads / puts / '
                    'deletes / ranged downloads must be behaviours of those models, event by '
                    'event (each logged event = the model action of the logging thread with '
                    'the logged values). ' + what, _E2E_NOTE)


_e2e('C01', 'Families: all source kinds x sizes around k*chunk and the threshold x schedules, '
            'client-level retries that rewind the real body, flexible checksums, limits 1-2.')
_e2e('C02', 'Families: all destination kinds x sizes x schedules, stream-fault sweeps (kind, '
            'byte position, attempt, short reads, exhausted budget, non-retryable), limits.')
_e2e('C03', 'Families: a fault at every S3 call (before/after effect), every source read, '
            'destination open/write/close/rename and on_queued/on_progress callback, stream '
            'fault budgets; hangs after a fault count as not reported.')
_e2e('C04', 'Deadlock/livelock detection by the runtime over limits in {1,2}, cancel sweeps, '
            'single faults, re-entrant subscribers, mixed transfers and systematic '
            'one-deviation schedules.  The barrier that releases a download\'s final task '
            '(CountCallbackInvoker) has its own specification (Invoker.tla, TLC exhaustive '
            'with 1 and 3 threads); every explored transition is replayed into the real class '
            'and free interleavings of 2-4 real threads are validated as linearizable '
            '(Invoker_Trace.tla).')
_e2e('C05', 'Families: multipart uploads/copies x fault at every call (before/after effect) x '
            'source/callback faults x cancel at every step; the oracle is the fake '
            "service's own begin/end log per upload id.")
_e2e('C06', 'The destination directory is classified at every scheduling point (crash points) '
            'and at result(); faults in open/write/close/rename/requests/streams, failing '
            'cleanups, cancel sweeps.')
_e2e('C07', 'A cancel at every scheduling step for every transfer mode and the entry points '
            'future.cancel, shutdown(cancel=True), with-block exit by exception/Ctrl-C, '
            'Ctrl-C inside result() and inside shutdown(), exits through ValueError / '
            'SystemExit / a BaseException subclass, 2-3 transfers cancelled at once; the '
            'entry points must hand the cancel to the controller and the controller to every '
            'tracked transfer (C07_EntryPointCancelsAll); C05/C06 clauses are evaluated for '
            'cleanliness.')
_e2e('C08', 'Two recording subscribers per transfer (one raising in on_done), outcome probed '
            'inside on_done, schedules, fault and cancel sweeps incl. the double announce '
            '(cancel racing the submission thread), provided sizes.')
_e2e('C09', 'Running progress sums per subscriber for all modes, client-level body rewinds, '
            'stream retries, flexible checksums, size geometries.  The accounting component '
            'itself has its own specification (ReadChunk.tla: read / seek with three whences / '
            'enable / disable over chunk geometries, TLC exhaustive) and every transition TLC '
            'explores is replayed into the real ReadFileChunk through both constructors.')
_e2e('C10', 'In-flight request/head counters, write overlap, stage occupancy and request '
            'threads at every event for limits in {1,2} and 2-3 mixed concurrent transfers.')
_e2e('C11', 'Byte counters of buffered upload data, the sliding download window and IO queue '
            'occupancy at every event for in-memory limits in {1,2}, mixed stream transfers.')
_e2e('C18', 'Mixes of 2-3 transfers with per-transfer faults/cancels followed by a fresh '
            'transfer or by shutdown without waiting; nothing may happen after shutdown '
            'returns; fault-free neighbours must succeed with their own C01-C03 clauses.')

CLAIMED['C13'] = ('5/C13',
    'TLC model checking of Bandwidth.tla (exhaustive tiny + simulation), TLC trace '
    'validation (Bandwidth_Trace.tla) of real limited streams run in virtual time and TLC '
    'evaluation (Rate_Trace.tla) of end-to-end transfers through a throttled manager',
    'Bandwidth.tla specifies the leaky bucket in integer byte-times with an integer envelope '
    'of the float moving average; TLC checks the window-rate, one-wait, never-delayed and '
    'bookkeeping clauses exhaustively for 2 streams and by simulation for 3 streams with '
    'late wake-ups. 1-8 real BandwidthLimitedStreams on one real LeakyBucket are run as '
    'cooperative threads in virtual time (read sizes around the threshold, think times, '
    'failing transfers, late wake-ups); every decision of the real bucket must be a step of '
    'the specification and the clauses are evaluated on the reconstructed history. Two '
    'genuine defects (D5, D10) are listed as known findings.',
    'max_rate = 1 byte per virtual second (exact floats); envelope instead of digit-exact '
    'EMA; burst allowance 3*(threshold+max read) per stream; end to end: 1-6 MiB uploads '
    'and downloads through a real TransferManager in virtual time, both checksum modes '
    '(window clause on every pair of reads, Rate_Trace.tla)')
CLAIMED['C14'] = ('5/C14',
    'TLC model checking of PartPlan.tla on a scaled domain, Apalache symbolic check at real '
    'scale, TLC trace validation of every real planning function (scaled exhaustively, real '
    'scale with BigNat limbs) and of end-to-end ranges',
    'The planning formulas are TLA+ operators; TLC checks tiling / 1..n / limits / '
    'changed-only-if-required for every (size, chunk) of the scaled domain; Apalache checks '
    'the same theorems symbolically for sizes up to 5 TiB with the real S3 limits and the '
    'doubling loop as a state machine; every planning function of the package (all front '
    'ends) is evaluated over the whole scaled domain and at real-scale boundaries and TLC '
    'compares each result with the specification (PartPlan_Trace, PartPlanBig_Trace); '
    'Range/CopySourceRange/part bodies of real transfers are checked by ObsTrace.',
    'scaled limits (3, 9, 4) stand for (5 MiB, 5 GiB, 10000) in the exhaustive part; float '
    'division in the code is exact below 2^53')

CLAIMED['C15'] = ('5/C15',
    'TLA+ routing specification (Routing.tla over Accepts[op] generated from the installed '
    'botocore model) checked by TLC against the kwargs of every API call of real runs',
    'The required routing is a TLA+ predicate over the operation input shapes of the installed '
    'botocore S3 model plus the exceptions the property lists. Every allowed argument of '
    'every TransferManager method (and the checksum-steering subsets, client checksum '
    'defaults, re-used caller dicts, names outside the allow-lists) is run through the real '
    'front-end in single / multipart / ranged mode with size known or discovered, with a '
    'real botocore client; TLC checks the captured kwargs of each call against the spec. '
    'The space is finite and enumerated completely.',
    'multipart uploads with CRC32C/CRC64NVME full-object checksums are skipped (need awscrt); '
    'kwargs captured before botocore rewrites them')

CLAIMED['C19'] = ('5/C19',
    'TLC model checking of ProcessPool.tla (safety + liveness) and TLC trace validation '
    '(ProcessPool_Trace.tla) of the real submitter/worker/monitor code run in-process under '
    'the deterministic scheduler',
    'ProcessPool.tla models the cross-process protocol with every monitor call, queue '
    'operation, size request, allocate, job, rename and remove as its own action; TLC checks '
    'done-only-after-all-jobs, file-in-place-or-temp-removed, destination-never-partial, '
    'shutdown-waits and (under fairness) every-download-eventually-done for 1-3 workers, 1-2 '
    'downloads, 1-4 jobs, one fault, cancel and Ctrl-C. The real loops, TransferMonitor, '
    'future and ProcessPoolDownloader wiring run as cooperative threads; every event of a run '
    'must be the spec action of that thread with the logged values, the real directory must '
    'agree with the spec file system, and the C19 clauses are invariants of the trace spec.',
    'no real OS processes / pickling / multiprocessing manager; monitor calls atomic in half '
    'of the schedules and interleaving at the monitor\'s locks in the other half; '
    'zero-size objects excluded (allocate(…, 0) fails on Linux)')

CLAIMED['C20'] = ('5/C20',
    'TLC model checking of CrtGlue.tla (safety + liveness) and TLC trace validation '
    '(CrtGlue_Trace.tla) of the real CRTTransferManager run against a stub CRT client under '
    'the deterministic scheduler',
    'CrtGlue.tla models permits, request construction (and its failure), request outcomes in '
    'any completion order, the callback composition before->subscribers->after and '
    'shutdown; TLC checks one-permit-per-transfer on every path, subscribers-before-complete, '
    'rename-on-success/remove-on-error, shutdown-after-all-callbacks, permits restored at '
    'quiescence and (under fairness) completion. The real CRTTransferManager runs with a stub '
    'awscrt and a stub client (success, error, cancel, construction failure at three sites, '
    'rename failure, more transfers than permits, both completion orders of future/on_done); '
    'every event must be the matching spec action with the logged semaphore value and the '
    'C20 clauses are invariants of the trace spec.',
    'real awscrt not installed (stub package with only the imported names); permit capacity '
    'substituted via the threading shim (128 unchanged in two families)')

REASON_TODO = 'check not built yet (build in progress)'


def main():
    props = [json.loads(l) for l in open(os.path.join(VERIF, 'properties.jsonl'))]
    checks = []
    na = []
    for p in props:
        pid = p['id']
        if pid in CLAIMED:
            sec, tech, text, note = CLAIMED[pid]
            checks.append({
                'property_id': pid,
                'quick_cmd': f'./check {pid} --tier quick',
                'thorough_cmd': f'./check {pid} --tier thorough',
                'evidence_file': f'/verif/evidence/{pid}.json',
                'replay_cmd_template': f'./check {pid} --replay {{path}}',
                'engine': 'tlc+coop',
                'level_claimed': {'category': 'model_checking', 'text': text,
                                  'design_ref': sec},
                'level_note': note,
                'technique': tech,
            })
        else:
            na.append({'property_id': pid, 'reason': REASON_TODO})
    m = {
        'version': 1,
        'setup_cmd': './setup.sh',
        'hooks': {
            'guard': 'S3TRANSFER_VERIF',
            'enable': 'no source hooks exist: instrumentation is injected from '
                      '/verif at run time (executor_cls/osutil/client parameters, '
                      'module-attribute substitution of threading/time, wrappers '
                      'on public class APIs); ./check exports S3TRANSFER_VERIF=1',
            'baseline_off_cmd': BASELINE,
            'source_commits': [],
            'add_only': True,
        },
        'engines': [
            {'name': 'tlc', 'path': 'harness/tlc.py',
             'serves_properties': sorted(CLAIMED),
             'kind_free_text': 'TLC model checking of the TLA+ specs under spec/ '
                               '(exhaustive small-constant configs, liveness, '
                               'trace validation in batches)'},
            {'name': 'coop', 'path': 'harness/coop.py',
             'serves_properties': sorted(CLAIMED),
             'kind_free_text': 'deterministic cooperative thread runtime that '
                               'runs the real s3transfer code (real botocore '
                               'client, fake transport) for spec->code replay '
                               'and trace recording'},
        ],
        'checks': checks,
        'not_applicable': na,
        'notes': 'Defect repairs in /repo are separate unguarded "fix:" commits '
                 '(see known_findings.json); there are no guarded hook commits.',
    }
    with open(os.path.join(VERIF, 'MANIFEST.json'), 'w') as f:
        json.dump(m, f, indent=1)
    print('claimed', sorted(CLAIMED), 'not yet', [x['property_id'] for x in na])


if __name__ == '__main__':
    main()
