--------------------------- MODULE MC_Semaphores ---------------------------
EXTENDS Semaphores, Json, TLCExt

\* One JSON line per explored transition (spec -> code replay reads these).
StateRec == [count |-> count, nextSeq |-> nextSeq, lowest |-> lowest,
             pending |-> pending, waiters |-> waiters,
             notified |-> notified, want |-> want]
DumpEdge ==
    PrintT("EDGE " \o ToJson([from |-> StateRec, to |-> StateRec', op |-> last']))

Bounded == \A tag \in Known : nextSeq[tag] <= MaxTok
=============================================================================
