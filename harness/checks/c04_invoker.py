"""C04 (and C02/C08), component level: Invoker.tla - the finalize/decrement
barrier that releases a download's final task (CountCallbackInvoker).

1. TLC checks Invoker.tla and every explored transition is replayed into the
   real class (result, count, number of callback invocations).
2. Free interleavings of real threads on one real object (the cooperative
   runtime switches at every lock operation) are recorded and validated as
   linearizable by TLC against Invoker_Trace.tla."""

import collections
import json
import os
import random
import shutil
import tempfile

import coop
import tlc

MC_CFG = '''SPECIFICATION Spec
CONSTANTS
  Threads = {"t0"}
  MaxCount = %(maxc)d
VIEW view
CONSTRAINT Bound
INVARIANT C04_I_ExactlyOnce
PROPERTY C04_I_CallbackOnlyWhenDrained
PROPERTY C04_I_RefusedUnchanged
PROPERTY C04_I_NoGrowthAfterFinalize
ACTION_CONSTRAINT DumpEdge
CHECK_DEADLOCK FALSE
'''

MC3_CFG = '''SPECIFICATION Spec
CONSTANTS
  Threads = {"t0", "t1", "t2"}
  MaxCount = 3
CONSTRAINT Bound
INVARIANT C04_I_ExactlyOnce
PROPERTY C04_I_CallbackOnlyWhenDrained
PROPERTY C04_I_RefusedUnchanged
PROPERTY C04_I_NoGrowthAfterFinalize
CHECK_DEADLOCK FALSE
'''

TR_CFG = '''SPECIFICATION TSpec
CONSTANTS
  Threads = {%(threads)s}
  MaxCount = 1000
INVARIANT C04_I_ExactlyOnce
PROPERTY C04_I_CallbackOnlyWhenDrained
PROPERTY C04_I_RefusedUnchanged
CONSTRAINT Progress
CONSTRAINT NotYetAccepted
POSTCONDITION Final_
CHECK_DEADLOCK FALSE
'''


def _key(st):
    return json.dumps(st, sort_keys=True)


def _call(inv, op):
    try:
        getattr(inv, op)()
        return 'ok'
    except RuntimeError:
        return 'RuntimeError'
    except Exception as e:      # anything else is an observed outcome
        return 'error:' + type(e).__name__


def replay_edges(ck, edges):
    import s3transfer.utils as U
    succ = collections.defaultdict(list)
    for e in edges:
        succ[_key(e['from'])].append(e)
    root = _key({'count': 0, 'fin': False, 'calls': 0})
    path = {root: []}
    dq = collections.deque([root])
    while dq:
        k = dq.popleft()
        for e in succ[k]:
            k2 = _key(e['to'])
            if k2 not in path:
                path[k2] = path[k] + [e]
                dq.append(k2)
    n = 0
    for e in edges:
        pre = path.get(_key(e['from']))
        if pre is None:
            continue
        fired = []
        inv = U.CountCallbackInvoker(lambda: fired.append(1))
        hist = []
        bad = None
        for step in pre + [e]:
            op = step['op']
            res = _call(inv, op['op'])
            hist.append([op['op'], res])
            if res != op['res']:
                bad = ('C04_I_RefusedUnchanged' if 'RuntimeError' in (res, op['res'])
                       else 'C04_I_ExactlyOnce', f"{op['op']} -> {res}, model {op['res']}")
            elif inv.current_count != step['to']['count']:
                bad = ('C04_I_RefusedUnchanged' if op['res'] == 'RuntimeError'
                       else 'C04_I_NoGrowthAfterFinalize',
                       f"count {inv.current_count}, model {step['to']['count']}")
            elif len(fired) != step['to']['calls']:
                bad = ('C04_I_CallbackOnlyWhenDrained' if len(fired) > step['to']['calls']
                       else 'C04_I_ExactlyOnce',
                       f"callback invoked {len(fired)}x, model {step['to']['calls']}x")
            if bad:
                break
        n += 1
        ck.distinct(['invoker-edge', hist])
        if n <= 2:
            ck.sample({'kind': 'spec->code edge (CountCallbackInvoker)', 'ops': hist})
        if bad:
            ck.violation(bad[0], {'component': 'CountCallbackInvoker', 'mode': 'sequential',
                                  'detail': bad[1], 'history': hist},
                         replay={'kind': 'c04-invoker-seq', 'ops': [h[0] for h in hist]})
    return n


def record_one(nthreads, seed, chooser):
    import s3transfer.utils as U
    events = []
    s = coop.Scheduler(chooser, tracer=events.append, max_steps=6000)
    rng = random.Random(seed)
    names = [f't{i}' for i in range(nthreads)]
    # the usage pattern of the library (increment*, finalize once, decrement*)
    # with the misuse the class refuses mixed in
    nparts = rng.randint(0, 3)
    scripts = {n: [] for n in names}
    scripts[names[0]] = ['increment'] * nparts + ['finalize']
    if rng.random() < 0.25:
        scripts[names[0]].append('increment')          # refused
    decs = ['decrement'] * (nparts + (1 if rng.random() < 0.3 else 0))
    for d in decs:
        scripts[rng.choice(names[1:] or names)].append(d)
    if rng.random() < 0.3:
        # part requests that finish while the submitter still increments
        k = rng.randrange(len(scripts[names[0]]) + 1)
        scripts[names[0]].insert(k, 'decrement')

    def cb():
        s.emit('ICb')

    def worker(name, inv):
        for op in scripts[name]:
            s.emit('ICall', op=op)
            s.emit('IRet', res=_call(inv, op))

    def main():
        inv = U.CountCallbackInvoker(cb)
        sts = [s.spawn(n, worker, n, inv) for n in names]
        for st in sts:
            s.block(lambda st=st: st.finished, f'join:{st.name}')

    with coop.installed(s, threading_modules=('s3transfer.utils',), time_modules=()):
        s.run(main, name='main')
    ev = []
    for e in events:
        if e.get('e') == 'ICall':
            ev.append({'k': 'ICall', 'th': e['th'], 'op': e['op'], 'res': ''})
        elif e.get('e') == 'IRet':
            ev.append({'k': 'IRet', 'th': e['th'], 'op': '', 'res': e['res']})
        elif e.get('e') == 'ICb':
            ev.append({'k': 'ICb', 'th': e['th'], 'op': '', 'res': ''})
    errs = [(n, repr(e), tb[-600:]) for n, e, tb in s.thread_errors]
    return ev, s.failure, s.failure_info, errs, scripts


def traces_part(ck, tier, seed):
    import pipeline
    thorough = tier == 'thorough'
    rng = random.Random(seed * 733 + 4)
    total = 0
    for nth in (2, 3, 4):
        traces, meta = [], {}
        for i in range(200 if thorough else 60):
            sd = rng.randrange(1 << 30)
            chs = ('random', rng.randrange(1 << 30), rng.choice([0.3, 0.5, 0.7])) \
                if rng.random() < 0.6 else ('pct', rng.randrange(1 << 30), 3, 40)
            ev, failure, info, errs, scripts = record_one(nth, sd, pipeline.make_chooser(chs))
            rp = {'kind': 'c04-invoker-trace', 'nthreads': nth, 'seed': sd, 'chooser': list(chs)}
            if errs:
                ck.machinery_errors.append('invoker trace thread error: ' + str(errs[0])[-500:])
                continue
            if failure:
                ck.violation('C04_I_ExactlyOnce', {
                    'component': 'CountCallbackInvoker', 'mode': 'free-interleaving',
                    'detail': f'{failure}: {info}', 'scripts': scripts}, replay=rp)
                continue
            ck.distinct(['invtrace', nth, ev])
            traces.append({'id': i, 'ev': ev})
            meta[i] = rp
        if not traces:
            continue
        d = tempfile.mkdtemp(prefix='verif-c04i-')
        try:
            path = os.path.join(d, 'traces.ndjson')
            with open(path, 'w') as f:
                for t in traces:
                    f.write(json.dumps(t) + '\n')
            r = tlc.run_tlc('Invoker_Trace', TR_CFG % dict(
                threads=', '.join(f'"t{i}"' for i in range(nth))), workers=1,
                env={'TRACE_FILE': path}, timeout=1500, dfs_queue=True)
        finally:
            shutil.rmtree(d, ignore_errors=True)
        ck.add_tlc(f'Invoker_Trace threads={nth} x{len(traces)}', r, exhaustive=False)
        if r.violated:
            ck.violation(r.violated[0], {'component': 'CountCallbackInvoker',
                                         'mode': 'free-interleaving', 'cex_tail': r.cex[-1500:]})
            continue
        reached = {}
        for p in r.json_prints('INVTRACE '):
            j = json.loads(p)
            reached[j['id']] = (j['reached'], j['len'])
        for t in traces:
            rc = reached.get(t['id'])
            if rc is None:
                ck.machinery_errors.append('invoker trace without verdict')
                break
            if rc[0] <= rc[1]:
                at = t['ev'][rc[0] - 1]
                ck.violation('C04_I_TraceConformance', {
                    'component': 'CountCallbackInvoker', 'mode': 'free-interleaving',
                    'detail': f'event {rc[0]} of {rc[1]} has no linearization: {at}',
                    'before': t['ev'][max(0, rc[0] - 6):rc[0]]}, replay=meta[t['id']])
        total += len(traces)
        ck.sample({'kind': 'invoker trace (free interleaving)',
                   'events_head': traces[0]['ev'][:10]}, limit=1)
    ck.coverage['traces_validated_against_impl'] += total
    ck.coverage['evaluations'] += total
    return total


def run(ck, tier, seed):
    r = tlc.run_tlc('Invoker', MC_CFG % dict(maxc=4 if tier == 'thorough' else 3),
                    workers=1, timeout=600)
    ck.add_tlc('Invoker[sequential, edges]', r, exhaustive=True)
    r3 = tlc.run_tlc('Invoker', MC3_CFG, workers=2, timeout=600)
    ck.add_tlc('Invoker[3 threads]', r3, exhaustive=True)
    for rr in (r, r3):
        for name in rr.violated:
            ck.violation(name, {'component': 'model', 'module': 'Invoker', 'cex': rr.cex[-1500:]})
    if r.violated or r3.violated:
        return 0
    seen = {}
    for p in r.json_prints('EDGE '):
        e = json.loads(p)
        seen[json.dumps(e, sort_keys=True)] = e
    edges = list(seen.values())
    if not edges:
        ck.machinery_errors.append('Invoker: no edges dumped')
        return 0
    n = replay_edges(ck, edges)
    ck.coverage['spec_behaviours_replayed'] = ck.coverage.get('spec_behaviours_replayed', 0) + n
    t = traces_part(ck, tier, seed)
    ck.coverage.setdefault('components', []).append(
        {'component': 'CountCallbackInvoker', 'spec': 'Invoker.tla',
         'edges_replayed': n, 'traces_validated': t})
    return n + t


def replay_file(rp):
    import pipeline
    import s3transfer.utils as U
    if rp['kind'] == 'c04-invoker-seq':
        fired = []
        inv = U.CountCallbackInvoker(lambda: fired.append(1))
        for op in rp['ops']:
            print(op, '->', _call(inv, op), 'count', inv.current_count, 'callbacks', len(fired))
        return 1
    ev, failure, info, errs, scripts = record_one(
        rp['nthreads'], rp['seed'], pipeline.make_chooser(tuple(rp['chooser'])))
    print(json.dumps(scripts))
    for e in ev:
        print(e)
    print('failure:', failure, info)
    return 1
