"""Plays a scenario's user script against the real TransferManager."""

import os
import sys

sys.path.insert(0, os.path.dirname(os.path.abspath(__file__)))

import coop  # noqa: E402
import world as W  # noqa: E402

import s3transfer.futures as _futures  # noqa: E402
import s3transfer.upload as _upload  # noqa: E402
import s3transfer.copies as _copies  # noqa: E402
import s3transfer.utils as _utils  # noqa: E402


class ScaledAdjuster(_utils.ChunksizeAdjuster):
    """The repository's functional tests substitute the adjuster the same way
    (min part size 1) so that multipart logic can run on tiny objects."""

    def __init__(self, max_size=_utils.MAX_SINGLE_UPLOAD_SIZE, min_size=1,
                 max_parts=_utils.MAX_PARTS):
        super().__init__(max_size, min_size, max_parts)


class _UserBaseException(BaseException):
    """an application exception that does not derive from Exception"""


EXIT_EXC = {'ValueError': ValueError, 'SystemExit': SystemExit,
            'BaseException': _UserBaseException}


def _coordinator_patches(world):
    """Wrappers that (a) make the racy unsynchronised reads scheduling points
    and (b) log the coordinator's linearization points.  Only public,
    unit-tested names of TransferCoordinator are touched; a missing name is
    skipped (less detail, never a false alarm)."""
    TC = _futures.TransferCoordinator
    patches = []
    s = world.sched

    def xid(self):
        return self.transfer_id if isinstance(self.transfer_id, int) else -1

    if isinstance(getattr(TC, 'status', None), property):
        orig_status = TC.status

        def status(self):
            if world.in_hook:
                return orig_status.fget(self)
            s.point('read-status')
            v = orig_status.fget(self)
            s.emit('StatusRead', x=xid(self),
                   done=v in ('failed', 'cancelled', 'success'))
            return v
        patches.append((TC, 'status', property(status)))

    if isinstance(getattr(TC, 'exception', None), property):
        orig_exc = TC.exception

        def exception(self):
            if not world.in_hook:
                s.point('read-exception')
            return orig_exc.fget(self)
        patches.append((TC, 'exception', property(exception)))

    def wrap(name, before=None, after=None, at_release=None):
        """at_release: event emitted when the calling thread releases the
        coordinator lock inside the call (the linearization point); if no
        lock is released it is emitted when the call returns."""
        orig = getattr(TC, name, None)
        if orig is None:
            return

        def wrapper(self, *a, **kw):
            if before:
                before(self, *a, **kw)
            h = None
            if at_release:
                h = s.on_next_release(lambda: at_release(self, *a, **kw))
            try:
                return orig(self, *a, **kw)
            finally:
                if h is not None:
                    s.run_release_hooks(only=h)
                if after:
                    after(self, *a, **kw)
        wrapper.__name__ = name
        patches.append((TC, name, wrapper))

    def st(self):
        return getattr(self, '_status', '?')

    wrap('set_result',
         at_release=lambda self, *a, **k: s.emit('SetResult', x=xid(self), status=st(self)))
    wrap('set_exception',
         at_release=lambda self, exc=None, override=False, **k: s.emit(
             'SetExc', x=xid(self), exc=W.exc_tag(exc), override=bool(override),
             status=st(self),
             kept=W.exc_tag(getattr(self, '_exception', None))))
    wrap('cancel',
         before=lambda self, msg='', exc_type=None, **k: s.emit(
             'CancelBegin', x=xid(self), msg=str(msg)[:60]),
         at_release=lambda self, *a, **k: s.emit(
             'CancelEnd', x=xid(self), status=st(self)))
    wrap('set_status_to_queued',
         at_release=lambda self: s.emit('Status', x=xid(self), status=st(self)))
    wrap('set_status_to_running',
         at_release=lambda self: s.emit('Status', x=xid(self), status=st(self)))
    wrap('announce_done',
         before=lambda self: s.emit('AnnounceBegin', x=xid(self), status=st(self)),
         after=lambda self: s.emit('AnnounceEnd', x=xid(self), status=st(self)))
    # the manager's controller (public names; skipped when missing): when the
    # cancel-everything loop starts and ends, and a wait() ended by Ctrl-C
    try:
        import s3transfer.manager as _manager
        CT = getattr(_manager, 'TransferCoordinatorController', None)
    except ImportError:
        CT = None
    if CT is not None and callable(getattr(CT, 'cancel', None)):
        orig_cancel = CT.cancel

        def ctl_cancel(self, *a, **kw):
            s.emit('CtlCancelBegin')
            try:
                return orig_cancel(self, *a, **kw)
            finally:
                s.emit('CtlCancelEnd')
        patches.append((CT, 'cancel', ctl_cancel))
    if CT is not None and callable(getattr(CT, 'wait', None)):
        orig_wait = CT.wait

        def ctl_wait(self, *a, **kw):
            try:
                return orig_wait(self, *a, **kw)
            except KeyboardInterrupt:
                s.emit('CtlWaitKbi')
                raise
        patches.append((CT, 'wait', ctl_wait))
    world.ctl_hooked = sum(1 for c, n, _ in patches if c is CT) == 2
    return patches


def run_scenario(sc, chooser, max_steps=20000, keep_world=False):
    """Run one scenario; returns dict(events, final, failure, choices, ...)."""
    w = W.World(sc, chooser, max_steps=max_steps)
    extra = _coordinator_patches(w)
    if sc.get('adjuster'):
        lo, hi, mx = sc['adjuster']

        class LimitedAdjuster(_utils.ChunksizeAdjuster):
            def __init__(self, max_size=hi, min_size=lo, max_parts=mx):
                super().__init__(max_size, min_size, max_parts)
        extra.append((_upload, 'ChunksizeAdjuster', LimitedAdjuster))
        extra.append((_copies, 'ChunksizeAdjuster', LimitedAdjuster))
    elif sc.get('scaled_adjuster', True):
        extra.append((_upload, 'ChunksizeAdjuster', ScaledAdjuster))
        extra.append((_copies, 'ChunksizeAdjuster', ScaledAdjuster))
    result = {}
    try:
        with coop.installed(w.sched, extra=extra):
            w.build()
            for x, t in enumerate(sc['transfers']):
                w.prepare_transfer(x, t)
            w.events.append({'e': 'Scenario', 'th': None, 't': 0,
                             'cfg': w.cfg,
                             'transfers': [
                                 {k: v for k, v in t.items()
                                  if k in ('kind', 'src', 'dst', 'size',
                                           'offset', 'old')}
                                 for t in sc['transfers']]})
            if getattr(w, 'ctl_hooked', False):
                w.events.append({'e': 'CtlHooked', 'th': None, 't': 0})
            w.sched.run(lambda: _user(w, sc))
            # everything below runs uncontrolled, after quiescence
            result['final'] = w.final_state()
            result['quiescent'] = _quiescent(w)
    finally:
        w.teardown()
    result.update(
        events=w.events, failure=w.sched.failure,
        failure_info=w.sched.failure_info, choices=w.sched.choices,
        steps=w.sched.step, thread_errors=[
            (n, repr(e), tb[-1500:]) for n, e, tb in w.sched.thread_errors],
        results={x: (k, W.exc_tag(v) if k != 'ok' else None)
                 for x, (k, v) in w.results.items()},
        api_calls=w.api_calls, user_error=w.user_error,
    )
    if keep_world:
        result['world'] = w
    return result


def _quiescent(w):
    """Semaphore capacities at quiescence (C12 AllPermitsReturned)."""
    m = w.manager
    out = {}

    def cap(sem):
        if hasattr(sem, 'current_count'):
            try:
                import threading
                lk = getattr(sem, '_lock', None)
                return sem._count
            except Exception:
                return None
        inner = getattr(sem, '_semaphore', None)
        return getattr(inner, '_value', None)
    try:
        out['request_q'] = cap(m._request_executor._semaphore)
        out['submission_q'] = cap(m._submission_executor._semaphore)
        out['io_q'] = cap(m._io_executor._semaphore)
        for tag, sem in m._request_executor._tag_semaphores.items():
            out[tag.name] = cap(sem)
    except Exception as e:  # layout changed: report nothing rather than guess
        out['error'] = repr(e)
    return out


def _user(w, sc):
    u = sc.get('user', {})
    mode = u.get('mode', 'plain')
    cancel = sc.get('cancel')
    s = w.sched
    n = len(sc['transfers'])

    def do_cancel():
        how = cancel['how']
        if how == 'future':
            x = cancel.get('x', 0)
            s.block(lambda: x in w.futures, 'future-exists', idle_ok=True)
            s.emit('CancelCall', how=how, x=x)
            w.futures[x].cancel()
            s.emit('CancelRet', how=how, x=x)
        elif how == 'shutdown':
            # shutdown() is called by the user after the submissions
            s.block(lambda: len(w.futures) >= n, 'all-submitted', idle_ok=True)
            msg = cancel.get('msg', 'bye')
            s.emit('CancelCall', how=how, x=-1, msg=msg)
            try:
                w.manager.shutdown(cancel=True, cancel_msg=msg)
            except coop.Abort:
                raise
            except BaseException as e:
                s.emit('CancelRet', how=how, x=-1, err=type(e).__name__,
                       errmsg=str(e)[:80])
                return
            s.emit('CancelRet', how=how, x=-1)
            (w._snapshot_hook(s), s.emit('ShutdownEnd', by='canceller'))
        elif how in ('kbi-result', 'kbi-shutdown'):
            s.block(lambda: len(w.futures) >= n, 'all-submitted', idle_ok=True)
            s.emit('InterruptPosted', how=how)
            s.interrupt('user', KeyboardInterrupt())

    canceller = None
    if cancel and cancel['how'] in ('future', 'shutdown', 'kbi-result',
                                    'kbi-shutdown'):
        canceller = s.spawn('canceller', do_cancel,
                            gate_step=cancel.get('gate', 0))

    def body():
        for x in range(n):
            w.submit(x)
            if u.get('sequential'):
                w.result(x)
        if cancel and cancel['how'] in ('exit-exc', 'exit-kbi'):
            s.wait_until_step(cancel.get('gate', 0))
            s.emit('CancelCall', how=cancel['how'], x=-1,
                   msg=cancel.get('msg', 'boom'))
            if cancel['how'] == 'exit-exc':
                raise EXIT_EXC[cancel.get('exc', 'ValueError')](cancel.get('msg', 'boom'))
            raise KeyboardInterrupt()
        if u.get('results', True) and not u.get('sequential'):
            for x in range(n):
                w.result(x)
        if u.get('fresh'):
            x = n
            w.prepare_transfer(x, u['fresh'])
            w.submit(x)
            w.result(x)

    try:
        if mode == 'with':
            try:
                with w.manager:
                    body()
            finally:
                if cancel and cancel['how'] in ('exit-exc', 'exit-kbi'):
                    s.emit('CancelRet', how=cancel['how'], x=-1)
                (w._snapshot_hook(s), s.emit('ShutdownEnd', by='user'))
        else:
            try:
                body()
            except KeyboardInterrupt:
                s.emit('UserKbi')
                s.emit('ShutdownBegin', by='user')
                try:
                    w.manager.shutdown()
                finally:
                    (w._snapshot_hook(s), s.emit('ShutdownEnd', by='user'))
            else:
                if cancel and cancel['how'] == 'shutdown' and canceller is not None:
                    # the canceller's shutdown(cancel=True) IS the user's
                    # shutdown call: do not issue a second, concurrent one
                    s.block(lambda: canceller.finished, 'canceller-done',
                            idle_ok=True)
                else:
                    s.emit('ShutdownBegin', by='user')
                    try:
                        w.manager.shutdown()
                    finally:
                        (w._snapshot_hook(s), s.emit('ShutdownEnd', by='user'))
    except (ValueError, KeyboardInterrupt, SystemExit, _UserBaseException) as e:
        s.emit('UserExit', exc=type(e).__name__)
    # results after shutdown (never block once shutdown returned, unless buggy)
    for x in list(w.futures):
        if x not in w.results or w.results[x][0] == 'kbi':
            try:
                w.result(x)
            except KeyboardInterrupt:
                pass
    for x in list(w.futures):
        w.result_again(x)
