------------------------------ MODULE Manager ------------------------------
(***************************************************************************)
(* Why TransferManager.shutdown() is a barrier (property C18), as a design *)
(* argument that TLC can check: several transfers share the three bounded  *)
(* executors; shutdown() first waits for the tracked transfers             *)
(* (TransferCoordinatorController.wait: the loop over the tracked set ends *)
(* at the first transfer whose result() raises) and then shuts the         *)
(* executors down one after the other (each shutdown refuses new tasks,    *)
(* drains the queue and joins the workers).                                *)
(*                                                                         *)
(* Because wait() may stop early, the barrier rests on the ORDER of the    *)
(* executor shutdowns: producers before consumers (submission, request,    *)
(* io).  With any other order a task that is still running submits to an   *)
(* executor that is already shut down; the RuntimeError leaves a download  *)
(* without its final task and its done event is never set.                 *)
(*                                                                         *)
(* Transfers are abstracted to their task chains:                          *)
(*   upload  : submission task -> request task (final: announces done)     *)
(*   download: submission task -> request task -> io write task,           *)
(*             then (as the request task's done callback) the final io     *)
(*             task, which announces done                                  *)
(* Any task may fail (fault budget); a failed transfer is announced by its *)
(* final task (which skips its work) or by the submission task's           *)
(* exception path.                                                         *)
(*                                                                         *)
(* Bound to the code by the clause C18_ExecutorsShutInOrder of Props.tla:  *)
(* every recorded execution shuts the executors down in the order Order.   *)
(***************************************************************************)
EXTENDS Naturals, Sequences, FiniteSets, TLC

CONSTANTS Kinds,       \* sequence of "up" / "dl": the transfers, in submission order
          Order,       \* sequence of the executor names in the order shutdown() shuts them
          MaxFaults

T == 1..Len(Kinds)
Execs == {"sub", "req", "io"}
Task(t, k) == [t |-> t, k |-> k]       \* k: "S" submission | "R" request | "W" io write | "F" final

VARIABLES q,          \* [executor -> FIFO of tasks]
          run,        \* [executor -> the task its worker runs, or Idle]  (one worker per executor)
          shut,       \* [executor -> shutdown() was called on it]
          failed,     \* [transfer -> an exception is recorded]
          done,       \* [transfer -> the done event is set]
          lost,       \* [transfer -> a submit hit a shut executor after which nobody will announce]
          upc,        \* user: "submit" | "wait" | "shutdown" | "down"
          unext,      \* next transfer to submit
          wleft,      \* wait(): transfers still to be waited for (a set; any order)
          spos,       \* shutdown(): index into Order
          faults

vars == <<q, run, shut, failed, done, lost, upc, unext, wleft, spos, faults>>
Idle == [t |-> 0, k |-> ""]

Init ==
    /\ q = [e \in Execs |-> <<>>] /\ run = [e \in Execs |-> Idle]
    /\ shut = [e \in Execs |-> FALSE]
    /\ failed = [t \in T |-> FALSE] /\ done = [t \in T |-> FALSE] /\ lost = [t \in T |-> FALSE]
    /\ upc = "submit" /\ unext = 1 /\ wleft = {} /\ spos = 1 /\ faults = 0

ExecOf(k) == IF k = "S" THEN "sub" ELSE IF k = "R" THEN "req" ELSE "io"

\* ---------------------------------------------------------------- user
UserSubmit ==
    /\ upc = "submit" /\ unext <= Len(Kinds)
    /\ q' = [q EXCEPT !["sub"] = Append(@, Task(unext, "S"))]
    /\ unext' = unext + 1
    /\ UNCHANGED <<run, shut, failed, done, lost, upc, wleft, spos, faults>>
\* shutdown(): wait() takes a copy of the tracked set (the transfers that are not done)
UserShutdownBegin ==
    /\ upc = "submit" /\ unext > Len(Kinds)
    /\ wleft' = {t \in T : ~done[t]}
    /\ upc' = "wait"
    /\ UNCHANGED <<q, run, shut, failed, done, lost, unext, spos, faults>>
\* result() of one tracked transfer returns; a failure ends the loop
UserWaitOne(t) ==
    /\ upc = "wait" /\ t \in wleft /\ done[t]
    /\ wleft' = IF failed[t] THEN {} ELSE wleft \ {t}
    /\ UNCHANGED <<q, run, shut, failed, done, lost, upc, unext, spos, faults>>
UserWaitEnd ==
    /\ upc = "wait" /\ wleft = {}
    /\ upc' = "shutdown"
    /\ UNCHANGED <<q, run, shut, failed, done, lost, unext, wleft, spos, faults>>
\* executor.shutdown(): refuse new tasks ...
UserShutExec ==
    /\ upc = "shutdown" /\ spos <= Len(Order) /\ ~shut[Order[spos]]
    /\ shut' = [shut EXCEPT ![Order[spos]] = TRUE]
    /\ UNCHANGED <<q, run, failed, done, lost, upc, unext, wleft, spos, faults>>
\* ... and join its worker once the queue is drained
UserJoinExec ==
    /\ upc = "shutdown" /\ spos <= Len(Order) /\ shut[Order[spos]]
    /\ q[Order[spos]] = <<>> /\ run[Order[spos]] = Idle
    /\ spos' = spos + 1
    /\ UNCHANGED <<q, run, shut, failed, done, lost, upc, unext, wleft, faults>>
UserDown ==
    /\ upc = "shutdown" /\ spos > Len(Order)
    /\ upc' = "down"
    /\ UNCHANGED <<q, run, shut, failed, done, lost, unext, wleft, spos, faults>>

\* ---------------------------------------------------------------- workers
Take(e) ==
    /\ run[e] = Idle /\ q[e] # <<>>
    /\ run' = [run EXCEPT ![e] = Head(q[e])]
    /\ q' = [q EXCEPT ![e] = Tail(@)]
    /\ UNCHANGED <<shut, failed, done, lost, upc, unext, wleft, spos, faults>>

\* what a finishing task submits next: <<executor, task>> pairs in order
Next1(t, k) ==
    IF k = "S" THEN <<Task(t, "R")>>
    ELSE IF k = "R" /\ Kinds[t] = "dl" THEN <<Task(t, "W"), Task(t, "F")>>
    ELSE <<>>
\* a task finishes: ok or failing (a failed transfer's tasks skip their work but
\* still hand on); submits to a shut executor raise RuntimeError
Finish(e, ok) ==
    /\ run[e] # Idle
    /\ LET t == run[e].t
           k == run[e].k
           subs == Next1(t, k)
           isFinal == k = "F" \/ (k = "R" /\ Kinds[t] = "up")
           \* the first submit that hits a shut executor
           hit == \E i \in 1..Len(subs) : shut[ExecOf(subs[i].k)]
           fail == ~ok \/ hit
       IN
       /\ (~ok) => faults < MaxFaults
       /\ faults' = IF ok THEN faults ELSE faults + 1
       /\ failed' = [failed EXCEPT ![t] = @ \/ fail]
       \* tasks handed on: all of them if no executor is shut.  If one is:
       \*   - the submission task's exception path announces (done) itself;
       \*   - a request task whose io submits raise has no one left to announce.
       /\ IF ~hit
          THEN /\ q' = [x \in Execs |->
                          LET add == SelectSeq(subs, LAMBDA s : ExecOf(s.k) = x) IN q[x] \o add]
               /\ done' = [done EXCEPT ![t] = @ \/ isFinal]
               /\ UNCHANGED lost
          ELSE /\ UNCHANGED q
               /\ done' = [done EXCEPT ![t] = @ \/ (k = "S")]
               /\ lost' = [lost EXCEPT ![t] = @ \/ (k # "S")]
       /\ run' = [run EXCEPT ![e] = Idle]
    /\ UNCHANGED <<shut, upc, unext, wleft, spos>>

Next ==
    \/ UserSubmit \/ UserShutdownBegin \/ UserWaitEnd \/ UserShutExec \/ UserJoinExec \/ UserDown
    \/ \E t \in T : UserWaitOne(t)
    \/ \E e \in Execs : Take(e) \/ Finish(e, TRUE) \/ Finish(e, FALSE)

Spec == Init /\ [][Next]_vars
FairSpec == Spec /\ WF_vars(Next)

\* ---------------------------------------------------------------- properties
\* when shutdown() returns every submitted transfer is done and nothing runs or is queued
C18_AllDoneAtShutdownReturn == (upc = "down") => \A t \in T : done[t]
C18_NothingAfterShutdownReturns ==
    (upc = "down") => \A e \in Execs : q[e] = <<>> /\ run[e] = Idle
\* no transfer is left without anyone to announce it
C04_NoTransferLost == \A t \in T : ~lost[t]
\* shutdown() returns
C04_ShutdownReturns == (upc = "wait") ~> (upc = "down")
=============================================================================
