#!/usr/bin/env python3
"""Self-test of the binding of the component specifications (not a registered
check): a scratch copy of the s3transfer package is changed in one place and
the component part of the check (spec -> code replay of every TLC transition,
trace validation of free interleavings) must report a violation; on the
unchanged copy it must report none.

run:  cd /verif && /venv/bin/python selftest/mutate_components.py"""
import json
import os
import shutil
import subprocess
import sys
import tempfile

HERE = os.path.dirname(os.path.abspath(__file__))
HARNESS = os.path.join(HERE, '..', 'harness')
REPO = os.environ.get('VERIF_REPO', '/repo')

MUTATIONS = [
    ('none', None, None, None, 'c09_chunk', 'C09'),
    ('none', None, None, None, 'c04_invoker', 'C04'),
    ('ReadFileChunk.seek reports the unbounded position', 'utils.py',
     "            bounded_amount_read = min(self._amount_read, self._size)\n",
     "            bounded_amount_read = self._amount_read\n", 'c09_chunk', 'C09'),
    ('ReadFileChunk.read reports the requested amount', 'utils.py',
     "            invoke_progress_callbacks(self._callbacks, len(data))\n        return data\n",
     "            invoke_progress_callbacks(self._callbacks, len(data) if amount is None else amount)\n        return data\n",
     'c09_chunk', 'C09'),
    ('ReadFileChunk.read ignores the end of the chunk', 'utils.py',
     "            amount_to_read = min(amount_left, amount)\n        data = self._fileobj.read(amount_to_read)\n        self._amount_read",
     "            amount_to_read = amount\n        data = self._fileobj.read(amount_to_read)\n        self._amount_read",
     'c09_chunk', 'C09'),
    ('CountCallbackInvoker.finalize tests the count outside the lock', 'utils.py',
     "            self._is_finalized = True\n            if self._count == 0:\n                self._callback()\n",
     "            self._is_finalized = True\n        if self._count == 0:\n            self._callback()\n",
     'c04_invoker', 'C04'),
    ('CountCallbackInvoker.decrement fires without finalize', 'utils.py',
     "            if self._is_finalized and self._count == 0:\n                self._callback()\n",
     "            if self._count == 0:\n                self._callback()\n",
     'c04_invoker', 'C04'),
    ('CountCallbackInvoker.increment allowed after finalize', 'utils.py',
     "            if self._is_finalized:\n                raise RuntimeError(\n                    'Counter has been finalized it can no longer be '\n                    'incremented.'\n                )\n",
     "", 'c04_invoker', 'C04'),
]

RUNNER = '''
import json, sys
import checklib
from checks import %(mod)s as M
ck = checklib.Check(%(pid)r, 'quick', 0)
M.run(ck, 'quick', 0)
print('RESULT ' + json.dumps({'violations': sorted({v[0] for v in ck.violations}),
                              'machinery': ck.machinery_errors[:2]}))
'''


def main():
    bad = 0
    for name, fn, old, new, mod, pid in MUTATIONS:
        tmp = tempfile.mkdtemp(prefix='verif-selftest-')
        try:
            shutil.copytree(os.path.join(REPO, 's3transfer'), os.path.join(tmp, 's3transfer'))
            if fn:
                p = os.path.join(tmp, 's3transfer', fn)
                s = open(p).read()
                if old not in s:
                    print(f'SKIP {name}: the source text to change was not found')
                    continue
                open(p, 'w').write(s.replace(old, new, 1))
            env = dict(os.environ, PYTHONPATH=f'{tmp}:{HARNESS}',
                       VERIF_SCRATCH=os.path.join(tmp, 'out'))
            r = subprocess.run([sys.executable, '-c', RUNNER % dict(mod=mod, pid=pid)],
                               env=env, capture_output=True, text=True, timeout=1200,
                               cwd=HARNESS)
            line = [ln for ln in r.stdout.splitlines() if ln.startswith('RESULT ')]
            if not line:
                print(f'ERROR {name}: {r.stderr[-400:]}')
                bad += 1
                continue
            j = json.loads(line[-1][7:])
            want = bool(fn)
            got = bool(j['violations'])
            ok = (want == got) and not j['machinery']
            print(('ok   ' if ok else 'FAIL ') + f'{mod}: {name}: {j["violations"] or "no violation"}'
                  + (f' machinery={j["machinery"]}' if j['machinery'] else ''))
            bad += 0 if ok else 1
        finally:
            shutil.rmtree(tmp, ignore_errors=True)
    return 1 if bad else 0


if __name__ == '__main__':
    sys.exit(main())
