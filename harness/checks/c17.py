"""C17 - a transfer's state only moves forward and stays self-consistent.

1. TLC checks Coordinator.tla: all operation sequences up to a bound (one
   thread), all interleavings of 2 (thorough: 3) threads, liveness of
   announce/cancel under fairness.
2. spec -> code: every reachable (state, operation) pair of the one-thread
   model is replayed into the real TransferCoordinator/TransferFuture and the
   operation's outcome, done(), status, stored exception, result() and the
   callbacks that ran are compared with the model.
3. code -> spec: random threaded executions of the real coordinator under the
   cooperative runtime are recorded and validated by TLC against
   Coordinator_Trace.tla (see c17_trace.py).
"""

import collections
import json
import random

import checklib
import coop
import tlc

CFG = '''SPECIFICATION %(spec)s
CONSTANTS
  Threads = {%(threads)s}
  MaxOps = %(maxops)d
  AnnounceUnderLock = %(under)s
  CbKinds = {%(kinds)s}
  MaxCbs = 2
INVARIANT TypeOK
INVARIANT C17_StateAgrees
INVARIANT C17_CallbacksAtMostOnce
PROPERTY C17_DoneAbsorbing
PROPERTY C17_NoRestart
PROPERTY C17_FirstFailureKept
PROPERTY C17_ResultTruthful
PROPERTY C17_NoCleanupOnSuccess
%(extra)s
CHECK_DEADLOCK FALSE
'''

KINDS = ['plain', 'setexc', 'cancel', 'result', 'done']


def q(names):
    return ', '.join(f'"{n}"' for n in names)


def _key(st):
    return json.dumps(st, sort_keys=True)


def op_paths(edges):
    """For the one-thread model: shortest sequence of *completed public
    operations* leading to every state; returns list of op sequences, one per
    distinct (idle source state, next completed op)."""
    succ = collections.defaultdict(list)
    for e in edges:
        succ[_key(e['from'])].append(e)
    init = None
    for e in edges:
        if e['from']['nops'] == 0:
            init = _key(e['from'])
            break
    # BFS over states; path = list of completed ops (last records)
    path = {init: []}
    dq = collections.deque([init])
    order = []
    while dq:
        k = dq.popleft()
        for e in succ[k]:
            k2 = _key(e['to'])
            p = path[k] + ([e] if e['opchanged'] else [])
            if k2 not in path:
                path[k2] = p
                dq.append(k2)
    seqs = {}
    for e in edges:
        if not e['opchanged']:
            continue
        pre = path.get(_key(e['from']))
        if pre is None:
            continue
        ops = [x['op'] for x in pre] + [e['op']]
        tos = [x['to'] for x in pre] + [e['to']]
        sig = json.dumps([[o['op'], o['arg'], o['ret']] for o in ops])
        if sig not in seqs:
            seqs[sig] = (ops, tos)
    return list(seqs.values())


class _Obs:
    def __init__(self):
        self.cleanups = 0
        self.cbs = []


def _make(future, obs):
    import s3transfer.futures as F
    from s3transfer.exceptions import CancelledError

    class Exc(Exception):
        pass

    def mk_cb(kind):
        def cb():
            if kind == 'done':
                future.done()
            elif kind == 'setexc':
                try:
                    future.set_exception(_exc('U'))
                except F.TransferNotDoneError:
                    pass
            elif kind == 'cancel':
                future.cancel()
            elif kind == 'result':
                try:
                    future.result()
                except Exception:
                    pass
            obs.cbs.append(kind)
        return cb

    def cleanup():
        obs.cleanups += 1
    return mk_cb, cleanup


_EXC = {}


class TaggedError(Exception):
    pass


def _exc(tag):
    if tag not in _EXC:
        _EXC[tag] = TaggedError(tag)
    return _EXC[tag]


def exc_tag(e):
    from s3transfer.exceptions import CancelledError
    if e is None:
        return 'none'
    if isinstance(e, TaggedError):
        return str(e)
    if isinstance(e, CancelledError):
        return 'C'
    return 'other:' + type(e).__name__


def apply_op(coord, future, op, mk_cb, cleanup):
    """Perform one public operation on the real objects; returns the ret tag
    in the model's vocabulary."""
    import s3transfer.futures as F
    name, arg = op['op'], op['arg']
    try:
        if name == 'set_status_queued':
            coord.set_status_to_queued()
        elif name == 'set_status_running':
            coord.set_status_to_running()
        elif name == 'set_result':
            coord.set_result('R')
        elif name == 'set_exception':
            coord.set_exception(_exc(arg))
        elif name == 'set_exception_override':
            coord.set_exception(_exc(arg), override=True)
        elif name == 'future_set_exception':
            future.set_exception(_exc('U'))
        elif name == 'done':
            return 'True' if future.done() else 'False'
        elif name == 'add_done_callback':
            coord.add_done_callback(mk_cb(arg))
        elif name == 'add_failure_cleanup':
            coord.add_failure_cleanup(cleanup)
        elif name == 'cancel':
            was_done = coord.done()
            future.cancel()
            return 'noop' if was_done else 'ok'
        elif name == 'announce_done':
            coord.announce_done()
        elif name == 'result':
            try:
                r = future.result()
            except BaseException as e:  # noqa
                return 'raise:' + exc_tag(e)
            return 'return:' + ('none' if r is None else str(r))
        else:
            raise AssertionError(name)
    except RuntimeError:
        return 'RuntimeError'
    except F.TransferNotDoneError:
        return 'TransferNotDoneError'
    return 'ok'


def observe(coord, future, obs, event_expected):
    o = {
        'done': bool(future.done()),
        'status': coord.status,
        'exc': exc_tag(coord.exception),
        'ranCleanups': obs.cleanups,
        'ranCbs': list(obs.cbs),
    }
    if event_expected:
        try:
            r = future.result()
            o['result'] = 'return:' + ('none' if r is None else str(r))
        except BaseException as e:  # noqa
            o['result'] = 'raise:' + exc_tag(e)
    return o


def model_obs(st):
    o = {
        'done': st['status'] in ('success', 'failed', 'cancelled'),
        'status': st['status'],
        'exc': st['exc'],
        'ranCleanups': st['ranCleanups'],
        'ranCbs': list(st['ranCbs']),
    }
    if st['event']:
        o['result'] = ('raise:' + st['exc']) if st['exc'] != 'none' \
            else 'return:' + st['result']
    return o


def clause_for(key, op):
    if key in ('done',):
        return 'C17_DoneAbsorbing'
    if key == 'ret' and op['op'].startswith('set_status'):
        return 'C17_NoRestart'
    if key in ('exc', 'status'):
        return 'C17_FirstFailureKept'
    if key == 'result' or (key == 'ret' and op['op'] == 'result'):
        return 'C17_ResultTruthful'
    if key in ('ranCbs', 'ranCleanups'):
        return 'C17_CallbacksAtMostOnce'
    if key == 'deadlock':
        return 'C17_AnnounceTerminates'
    return 'C17_StateAgrees'


def replay_sequences(ck, seqs):
    """All sequences inside ONE cooperative run with a single controlled
    thread: a self-deadlock of the real code becomes a detected deadlock."""
    import s3transfer.futures as F
    current = {}
    found = []

    def body():
        for ops, tos in seqs:
            coord = F.TransferCoordinator(transfer_id=1)
            future = F.TransferFuture(coordinator=coord)
            obs = _Obs()
            mk_cb, cleanup = _make(future, obs)
            hist = []
            current['hist'] = hist
            current['ops'] = ops
            for op, to in zip(ops, tos):
                hist.append([op['op'], op['arg']])
                if op['op'] == 'result' and False:
                    pass
                got = apply_op(coord, future, op, mk_cb, cleanup)
                hist[-1].append(got)
                bad = None
                if got != op['ret']:
                    bad = ('ret', f"{op['op']}({op['arg']}) returned {got}, "
                                  f"model {op['ret']}")
                else:
                    o = observe(coord, future, obs, to['event'])
                    m = model_obs(to)
                    for k in m:
                        if o.get(k) != m[k]:
                            bad = (k, f'after {op["op"]}({op["arg"]}): {k} = '
                                      f'{o.get(k)!r}, model {m[k]!r}')
                            break
                if bad:
                    found.append((clause_for(bad[0], op), bad[1], list(hist), op))
                    break
            current['n'] = current.get('n', 0) + 1

    s = coop.Scheduler(coop.FifoChooser(), max_steps=10 ** 9)
    with coop.installed(s, threading_modules=('s3transfer.futures',
                                              's3transfer.utils'),
                        time_modules=()):
        s.run(body, name='replayer')
    if s.failure:
        op = current['ops'][len(current['hist']) - 1]
        found.append(('C17_AnnounceTerminates',
                      f'{s.failure} of the real code: {s.failure_info}',
                      list(current['hist']), op))
    if s.thread_errors:
        raise RuntimeError(s.thread_errors[0][2])
    for clause, detail, hist, op in found:
        ck.violation(clause, {
            'component': 'TransferCoordinator', 'mode': 'sequential',
            'op': op['op'], 'arg': op['arg'], 'detail': detail,
            'history': hist, 'kinds': sorted({h[1] for h in hist
                                              if h[0] == 'add_done_callback'}),
        }, replay={'kind': 'c17-seq', 'ops': hist})
    return current.get('n', 0)


def run(tier, seed):
    ck = checklib.Check('C17', tier, seed)
    thorough = tier == 'thorough'
    ck.coverage['rule'] = (
        'one case per distinct sequence of completed public operations that '
        'leads to a distinct (model state, operation) pair of the one-thread '
        'TLC state graph of Coordinator.tla; each is replayed into a fresh '
        'real TransferCoordinator/TransferFuture; all are non-trivial '
        '(each ends in a different operation/result)')
    # sequential, exhaustive + dump
    n = 0
    runs = [(5, KINDS), (6, ['plain', 'setexc'])] if thorough else \
        [(4, KINDS), (5, ['plain'])]
    for maxops, kinds in runs:
        n += _seq_part(ck, maxops, kinds)
    ck.coverage['traces_validated_against_impl'] = n
    ck.coverage['evaluations'] = n
    _conc_part(ck, tier, seed, thorough)
    # the coordinator inside the running pipeline: status changes, first
    # failure kept, cancel linearization as actions of Pipeline.tla / Download.tla
    from checks import pconf_e2e
    import pipeline
    pconf_e2e.run(ck, 'C17', tier, seed)
    pipeline.close_pool()
    return ck.finish()


def _seq_part(ck, maxops, kinds):
    cfg = CFG % dict(spec='Spec', threads=q(['t1']),
                     maxops=maxops, under='FALSE',
                     kinds=q(kinds), extra='ACTION_CONSTRAINT DumpEdge')
    r = tlc.run_tlc('MC_Coordinator', cfg, workers=1, coverage=True,
                    timeout=3000)
    ck.add_tlc(f'Coordinator/Spec 1 thread maxops={maxops} kinds={len(kinds)}', r)
    n = 0
    if r.violated:
        ck.violation(r.violated[0], {'component': 'model', 'cex': r.cex[:3000]})
    else:
        edges = [json.loads(p) for p in r.json_prints('EDGE ')]
        ck.require_nonvacuous('edges', len(edges), 1000)
        for act in ('Cancel', 'AnnRunCb', 'AnnCleanup', 'ResultReturn',
                    'SetResult', 'SetException', 'FutureSetException'):
            if r.coverage.get(act, (0, 0))[1] == 0:
                ck.machinery_errors.append(f'action {act} never taken')
        seqs = op_paths(edges)
        for ops, tos in seqs[:3]:
            ck.sample({'kind': 'spec->code op sequence',
                       'ops': [[o['op'], o['arg'], o['ret']] for o in ops]})
        for ops, tos in seqs:
            ck.distinct([[o['op'], o['arg'], o['ret']] for o in ops])
        n = replay_sequences(ck, seqs)
    return n


def _conc_part(ck, tier, seed, thorough):
    # concurrent models
    for threads, maxops in ((['t1', 't2'], 4),) + (
            ((['t1', 't2', 't3'], 4),) if thorough else ()):
        cfg = CFG % dict(spec='FairSpec', threads=q(threads), maxops=maxops,
                         under='FALSE', kinds=q(KINDS),
                         extra='PROPERTY C17_AnnounceTerminates')
        r = tlc.run_tlc('MC_Coordinator', cfg, workers=8, timeout=3000)
        ck.add_tlc(f'Coordinator/FairSpec {len(threads)} threads', r)
        if r.violated:
            ck.violation(r.violated[0], {'component': 'model',
                                         'threads': len(threads),
                                         'cex': r.cex[:3000]})
    ck.coverage['exhaustive'] = True
    ck.assumptions += [
        'callbacks are opaque or one of the re-entrant kinds done/setexc/'
        'cancel/result',
        'rank monotonicity not-started<queued<running is required of the '
        'system (Pipeline), not of arbitrary API sequences (DESIGN C17)',
    ]
    try:
        import checks.c17_trace as T
        T.run(ck, tier, seed)
    except ImportError:
        pass


def replay(path):
    import json as _j
    _b = _j.load(open(path))
    if (_b.get('replay') or {}).get('kind') == 'pconf':
        from checks import pconf_e2e
        return pconf_e2e.replay(_b['replay'])
    with open(path) as f:
        body = json.load(f)
    print(json.dumps(body['report'], indent=1)[:3000])
    return 1
