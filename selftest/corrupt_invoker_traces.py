#!/usr/bin/env python3
"""Self-test of the binding between Invoker.tla and the code (not a registered
check): accepted traces of real threads on a real CountCallbackInvoker are
corrupted in one place (an event dropped, a result flipped, a callback event
added or moved to another thread) and Invoker_Trace.tla must reject the result.

run:  cd /verif && PYTHONPATH=/repo:harness /venv/bin/python selftest/corrupt_invoker_traces.py"""
import copy
import json
import os
import shutil
import sys
import tempfile

HERE = os.path.dirname(os.path.abspath(__file__))
sys.path.insert(0, os.path.join(HERE, '..', 'harness'))
sys.path.insert(0, os.path.join(HERE, '..', 'harness', 'checks'))
import pipeline  # noqa: E402
import tlc  # noqa: E402
from checks import c04_invoker as I  # noqa: E402


def variants(ev):
    out = []
    for d in range(len(ev)):
        t = copy.deepcopy(ev)
        del t[d]
        out.append((f'drop {d + 1} {ev[d]["k"]}', t))
    for d, e in enumerate(ev):
        if e['k'] == 'IRet':
            t = copy.deepcopy(ev)
            t[d]['res'] = 'RuntimeError' if e['res'] == 'ok' else 'ok'
            out.append((f'flip {d + 1} IRet.res', t))
        if e['k'] == 'ICb':
            t = copy.deepcopy(ev)
            t.insert(d, dict(e))
            out.append((f'duplicate {d + 1} ICb', t))
        if e['k'] == 'ICall':
            t = copy.deepcopy(ev)
            t[d]['op'] = {'increment': 'decrement', 'decrement': 'finalize',
                          'finalize': 'increment'}[e['op']]
            out.append((f'flip {d + 1} ICall.op', t))
    return out


def validate(traces, nth):
    d = tempfile.mkdtemp(prefix='verif-selftest-')
    try:
        path = os.path.join(d, 'traces.ndjson')
        with open(path, 'w') as f:
            for t in traces:
                f.write(json.dumps(t) + '\n')
        r = tlc.run_tlc('Invoker_Trace', I.TR_CFG % dict(
            threads=', '.join(f'"t{i}"' for i in range(nth))), workers=1,
            env={'TRACE_FILE': path}, timeout=1500, dfs_queue=True)
        if r.violated:
            return None
        out = {}
        for p in r.json_prints('INVTRACE '):
            j = json.loads(p)
            out[j['id']] = j['reached'] > j['len']
        return out
    finally:
        shutil.rmtree(d, ignore_errors=True)


def main():
    total = rejected = 0
    survivors = []
    for nth, seed in ((2, 5), (3, 7), (3, 21), (4, 9)):
        ev, failure, info, errs, scripts = I.record_one(
            nth, seed, pipeline.make_chooser(('random', seed, 0.5)))
        assert not failure and not errs
        vs = variants(ev)
        traces = [{'id': 0, 'ev': ev}] + [{'id': i + 1, 'ev': t} for i, (_, t) in enumerate(vs)]
        acc = validate(traces, nth)
        assert acc is not None and acc[0], 'the uncorrupted trace must be accepted'
        for i, (name, _) in enumerate(vs):
            total += 1
            if not acc[i + 1]:
                rejected += 1
            else:
                survivors.append((nth, seed, name))
    print(f'{rejected} of {total} corrupted traces rejected')
    for s in survivors[:20]:
        print('  accepted (an equally legal history):', s)
    return 0


if __name__ == '__main__':
    sys.exit(main())
