"""End-to-end families per property: real TransferManager runs under the
cooperative runtime, validated by TLC against Obs/Props (ObsTrace.tla)."""

import copy
import json
import random

import checklib
import pipeline
import scenarios as S

TWO_SUBS = [{}, {'raise_done': True}]


def _probe_all(names, over=None):
    out = {}
    for n in names:
        sc = S.base(n, **(over or {}))
        out[n] = S.probe(sc)
    return out


def fam_schedules(names, n, rng, over=None, label='schedules'):
    jobs = []
    for name in names:
        jobs += S.schedules(S.base(name, **(over or {})), n, rng)
    return (label, jobs)


def fam_s3_faults(names, rng, per, afters=(False, True), over=None):
    jobs = []
    for name in names:
        sc = S.base(name, **(over or {}))
        steps, ncalls = S.probe(sc)
        jobs += S.s3_fault_sweep(sc, ncalls, rng, per=per, afters=afters)
    return ('s3-fault-sweep', jobs)


def fam_env_faults(names, rng, per):
    jobs = []
    for name in names:
        jobs += S.env_fault_sweep(S.base(name), rng, per=per)
    return ('env-fault-sweep', jobs)


def fam_cancel(names, rng, hows, stride, per=1, over=None):
    jobs = []
    for name in names:
        sc = S.base(name, **(over or {}))
        steps, _ = S.probe(sc)
        jobs += S.cancel_sweep(sc, steps, rng, hows=hows, stride=stride, per=per)
    return ('cancel-sweep', jobs)


def fam_streams(names, rng, per=1):
    jobs = []
    for name in names:
        jobs += S.stream_sweep(S.base(name), rng, per=per)
    return ('stream-fault-sweep', jobs)


def fam_retries(names, rng, n):
    """botocore-level retries: 500 responses make the real client rewind and
    re-send the real body."""
    jobs = []
    for name in names:
        sc0 = S.base(name, client={'retries': 3}, body_read=1)
        steps, ncalls = S.probe(sc0)
        for seq in range(1, ncalls + 3):
            for after in (False, True):
                sc = copy.deepcopy(sc0)
                sc['faults'] = [{'on': 's3', 'seq': seq, 'kind': 'server',
                                 'after': after, 'x': 0}]
                for ch in S.choosers(n, rng):
                    jobs.append((sc, ch))
            sc = copy.deepcopy(sc0)
            sc['faults'] = [{'on': 's3', 'seq': seq, 'kind': 'server', 'x': 0},
                            {'on': 's3', 'seq': seq + 1, 'kind': 'conn', 'x': 0}]
            jobs.append((sc, ('fifo',)))
    return ('client-retries', jobs)


def fam_part_limits(rng, n):
    """Part-size limits in force (scaled ChunksizeAdjuster with real code paths):
    configured chunk sizes below the minimum / needing more than the maximum
    number of parts / within the limits, for every upload source kind and
    copies, and a second transfer on the same manager afterwards (a planning
    decision of one transfer must not leak into the next)."""
    jobs = []
    for lim, chunk, thr in (([3, 9, 4], 2, 4), ([1, 9, 4], 2, 4), ([3, 9, 10], 4, 4),
                            ([2, 4, 3], 1, 2), ([1, 9, 10], 2, 4)):
        for size in (5, 7, 10, 13):
            if size > lim[1] * lim[2]:
                continue        # larger than the largest object the limits allow
            firsts = [{'kind': 'upload', 'src': 'path', 'size': size},
                      {'kind': 'upload', 'src': 'seekable', 'size': size},
                      {'kind': 'upload', 'src': 'nonseekable', 'size': size},
                      {'kind': 'upload', 'src': 'nonseekable', 'size': size,
                       'subs': [{'provide_size': size}, {}]},
                      {'kind': 'copy', 'size': size}]
            seconds = [{'kind': 'download', 'dst': 'path', 'size': 7},
                       {'kind': 'upload', 'src': 'path', 'size': 6},
                       {'kind': 'copy', 'size': 5}]
            for t1 in firsts:
                t2 = rng.choice(seconds)
                sc = {'name': 'part-limits', 'cfg': {'threshold': thr, 'chunk': chunk},
                      'adjuster': lim, 'transfers': [t1, dict(t2)],
                      'user': {'sequential': True}}
                jobs += S.schedules(sc, n, rng)
    return ('part-limits', jobs)


def fam_sizes(rng, n, kinds=('upload', 'copy', 'download')):
    """sizes around k*chunk and the threshold, several geometries."""
    jobs = []
    for thr, chunk in ((4, 2), (3, 3), (5, 2), (2, 1), (6, 4)):
        sizes = sorted({0, 1, thr - 1, thr, thr + 1, chunk - 1, chunk, chunk + 1,
                        2 * chunk - 1, 2 * chunk, 2 * chunk + 1, 3 * chunk,
                        3 * chunk + 1})
        for size in sizes:
            if size < 0 or size > 13:
                continue
            ts = []
            if 'upload' in kinds:
                ts += [{'kind': 'upload', 'src': 'path', 'size': size},
                       {'kind': 'upload', 'src': 'seekable', 'size': size,
                        'offset': rng.choice([0, 1, 3])},
                       {'kind': 'upload', 'src': 'seekable-noattr', 'size': size,
                        'offset': rng.choice([1, 2])},
                       {'kind': 'upload', 'src': 'nonseekable', 'size': size},
                       {'kind': 'upload', 'src': 'nonseekable', 'size': size,
                        'src_reads': rng.choice([[1], [2, 1], [3], [1, 3]])},
                       # a pipe that fills the threshold probe and then reads short
                       {'kind': 'upload', 'src': 'nonseekable', 'size': size,
                        'src_reads': rng.choice([[thr, 1], [thr, 1, 2], [thr + 1, 1]])},
                       {'kind': 'upload', 'src': 'nonseekable', 'size': size,
                        'src_reads': [1, 2], 'subs': [{'provide_size': size}, {}]}]
            if 'copy' in kinds:
                ts += [{'kind': 'copy', 'size': size}]
            if 'download' in kinds:
                ts += [{'kind': 'download', 'dst': d, 'size': size}
                       for d in ('path', 'seekable', 'nonseekable')]
            for t in ts:
                sc = {'name': 'size', 'transfers': [t],
                      'cfg': {'threshold': thr, 'chunk': chunk,
                              'io_chunk': rng.choice([1, 2, 3])}}
                for ch in S.choosers(n, rng):
                    jobs.append((sc, ch))
    return ('size-geometry', jobs)


def fam_limits(names, rng, nconf, nsched):
    jobs = []
    for name in names:
        for cfg in S.limit_configs(rng, nconf):
            jobs += S.schedules(S.base(name, cfg=cfg), nsched, rng)
    return ('limits-1-2', jobs)


def fam_mixes(rng, n, nsched, faults=False, cancels=False, fresh=False,
              shutdown_only=False):
    jobs = []
    for sc in S.mixes(rng, n):
        if faults:
            x = rng.randrange(len(sc['transfers']))
            kind = sc['transfers'][x]['kind']
            on, upto = rng.choice(S.ENV_FAULTS[kind] + [('s3', 4)])
            f = {'on': on, 'nth': rng.randint(1, upto), 'x': x}
            if on == 's3':
                f['after'] = rng.random() < 0.3
            sc['faults'] = [f]
        if cancels and rng.random() < 0.6:
            x = rng.randrange(len(sc['transfers']))
            sc['cancel'] = {'how': 'future', 'x': x, 'gate': rng.randint(1, 150)}
        if fresh:
            sc['user'] = {'fresh': copy.deepcopy(rng.choice(S.MIX_POOL))}
        if shutdown_only:
            sc['user'] = dict(sc.get('user') or {}, results=False)
        jobs += S.schedules(sc, nsched, rng)
    return ('mixed-transfers', jobs)


def fam_systematic(names, rng, limit=None, over=None):
    jobs = []
    for name in names:
        jobs += S.single_deviations(S.base(name, **(over or {})), limit, rng)
    return ('systematic-one-deviation', jobs)


SLOW_OPS = {
    'upload': ['CreateMultipartUpload', 'UploadPart', 'CompleteMultipartUpload',
               'AbortMultipartUpload', 'PutObject'],
    'copy': ['HeadObject', 'CreateMultipartUpload', 'UploadPartCopy',
             'CompleteMultipartUpload', 'CopyObject'],
    'download': ['HeadObject', 'GetObject'],
    'delete': ['DeleteObject'],
}


def fam_slow_requests(names, rng, n, cancels=True):
    """One request that is slow to reach the service, or whose response is
    slow, while a source read / callback / other request fails or the user
    cancels: the windows in which a request is in flight when the transfer
    ends."""
    jobs = []
    for name in names:
        sc0 = S.base(name)
        kind = sc0['transfers'][0]['kind']
        steps, ncalls = S.probe(sc0)
        for op in SLOW_OPS[kind]:
            for phase in ('begin', 'end'):
                for nth in (1, 2):
                    if nth == 2 and op not in ('UploadPart', 'UploadPartCopy', 'GetObject'):
                        continue
                    la = [{'op': op, 'phase': phase, 'nth': nth, 'd': 1.0}]
                    plans = [[]]
                    for on, upto in S.ENV_FAULTS[kind]:
                        plans += [[{'on': on, 'nth': k, 'x': 0}] for k in range(1, min(upto, 2) + 1)]
                    plans += [[{'on': 's3', 'seq': q, 'x': 0}] for q in range(1, ncalls + 1)]
                    for fl in plans:
                        sc = copy.deepcopy(sc0)
                        sc['latency'] = la
                        sc['faults'] = fl
                        jobs += S.det_schedules(sc, n - 1, rng)
                    if cancels:
                        for g in range(1, steps + 1, 3):
                            sc = copy.deepcopy(sc0)
                            sc['latency'] = la
                            sc['cancel'] = {'how': 'future', 'x': 0, 'gate': g}
                            jobs += S.det_schedules(sc, 0, rng)[1:]
    return ('slow-request', jobs)


def fam_stream_upload_failing(rng, n):
    """A long stream upload that fails or is cancelled early while its first part request
    is slow: the submission thread goes on reading the stream, and the parts it reads must
    still be throttled by the in-memory limit."""
    jobs = []
    for src in ('nonseekable', 'seekable'):
        for size, upc, R in ((11, 1, 1), (13, 2, 1), (12, 2, 2), (9, 1, 2)):
            sc0 = {'name': 'stream-upload-failing', 'cfg': {'up_chunks': upc, 'R': R},
                   'transfers': [{'kind': 'upload', 'src': src, 'size': size}],
                   'latency': [{'op': 'UploadPart', 'phase': 'begin', 'nth': 1, 'd': 1.0}]}
            steps, ncalls = S.probe(sc0)
            for q in (2, 3):
                sc = copy.deepcopy(sc0)
                sc['faults'] = [{'on': 's3', 'seq': q, 'x': 0}]
                jobs += S.det_schedules(sc, n, rng)
            for g in range(20, steps + 4, 9):
                sc = copy.deepcopy(sc0)
                sc['cancel'] = {'how': 'future', 'x': 0, 'gate': g}
                jobs += S.det_schedules(sc, 0, rng)
            # the submission itself fails midway (the source raises) with part 1 in flight
            for nth in (3, 4):
                sc = copy.deepcopy(sc0)
                sc['faults'] = [{'on': 'src_read', 'nth': nth, 'x': 0}]
                jobs += S.det_schedules(sc, 0, rng)
    return ('stream-upload-failing', jobs)


def fam_cleanup_faults(rng, n):
    """A failing/cancelled file download whose cleanup close() fails too."""
    jobs = []
    for name in ('dl-path-mp', 'dl-path-1'):
        sc0 = S.base(name)
        steps, ncalls = S.probe(sc0)
        firsts = [{'on': 'fs_write', 'nth': k, 'x': 0} for k in (1, 2, 3)]
        firsts += [{'on': 's3', 'seq': q, 'x': 0} for q in range(1, ncalls + 1)]
        firsts += [{'on': 'fs_rename', 'nth': 1, 'x': 0}]
        for f in firsts:
            sc = copy.deepcopy(sc0)
            sc['faults'] = [f, {'on': 'fs_close', 'nth': 1, 'x': 0}]
            jobs += S.schedules(sc, n, rng)
        for g in range(1, steps + 1, 4):
            sc = copy.deepcopy(sc0)
            sc['faults'] = [{'on': 'fs_close', 'nth': 1, 'x': 0}]
            sc['cancel'] = {'how': 'future', 'x': 0, 'gate': g}
            jobs += S.schedules(sc, 2, rng)
    return ('failing-cleanup', jobs)


def fam_contention(rng, n):
    """Several stream transfers competing for the in-memory windows and the
    submission threads: the adversarial configurations of C10/C11."""
    jobs = []
    dl = {'kind': 'download', 'dst': 'nonseekable', 'size': 7}
    ups1 = {'kind': 'upload', 'src': 'nonseekable', 'size': 3}
    up = {'kind': 'upload', 'src': 'nonseekable', 'size': 7}
    ups = {'kind': 'upload', 'src': 'seekable', 'size': 6, 'offset': 1}
    cp = {'kind': 'copy', 'size': 5}
    dp = {'kind': 'download', 'dst': 'path', 'size': 5}
    confs = [
        ([dl, dl], {'S': 2, 'R': 2, 'down_chunks': 1}),
        ([dl, dl, dl], {'S': 2, 'R': 3, 'down_chunks': 2}),
        ([dl, dl], {'S': 2, 'R': 3, 'down_chunks': 1, 'IOQ': 1}),
        ([up, up, up], {'S': 1, 'R': 3, 'up_chunks': 1}),
        ([up, ups, up, ups], {'S': 2, 'R': 3, 'up_chunks': 1}),
        ([up, up, up], {'S': 1, 'R': 2, 'up_chunks': 2, 'RQ': 1}),
        ([cp, dp, cp, dl], {'S': 1, 'R': 3}),
        ([dp, dp, cp], {'S': 2, 'R': 3, 'IOQ': 1}),
        ([ups1, ups1, ups1, ups1, ups1], {'S': 1, 'R': 1, 'up_chunks': 1}),
        ([ups1, ups1, ups1, ups1], {'S': 2, 'R': 2, 'up_chunks': 1}),
    ]
    slow = {'name': 'contention-slow-lowest', 'cfg': {'R': 3, 'down_chunks': 3, 'IOQ': 1, 'io_chunk': 1},
            'transfers': [copy.deepcopy(dl)],
            'streams': [{'x': 0, 'range_start': 0, 'reads': [1, 1, 1]}]}
    jobs += S.schedules(slow, n, rng)
    slow2 = copy.deepcopy(slow)
    slow2['cfg'] = {'R': 4, 'down_chunks': 4, 'IOQ': 2, 'io_chunk': 1}
    jobs += S.schedules(slow2, n, rng)
    for ts, cfg in confs:
        sc = {'name': 'contention', 'transfers': copy.deepcopy(ts), 'cfg': cfg}
        jobs += S.schedules(sc, n, rng)
    return ('window-contention', jobs)


def fam_cancel_all(rng, n):
    """2-3 transfers in flight, then shutdown(cancel=True) / leaving the
    with-block through an exception or Ctrl-C at a random step."""
    jobs = []
    for sc in S.mixes(rng, n):
        how = rng.choice(['shutdown', 'exit-exc', 'exit-kbi', 'kbi-result', 'kbi-shutdown'])
        sc['cancel'] = {'how': how, 'gate': rng.randint(1, 120), 'x': 0,
                        'msg': f'msg-{how}'}
        if how == 'exit-exc':
            sc['cancel']['exc'] = rng.choice(['ValueError', 'SystemExit', 'BaseException'])
        if how == 'kbi-shutdown':
            # Ctrl-C while the user waits in shutdown() (plain call or leaving the with-block)
            sc['user'] = {'results': False, 'mode': rng.choice(['with', 'plain'])}
        elif how != 'shutdown':
            sc['user'] = {'mode': 'with'}
        else:
            sc['user'] = {'results': False}
        jobs += S.schedules(sc, 2, rng)
    return ('cancel-all', jobs)


def fam_failing_abort(rng, n):
    """A multipart upload/copy that fails (or is cancelled) and whose
    AbortMultipartUpload cleanup request fails too."""
    jobs = []
    for name in S.MULTIPART:
        sc0 = S.base(name)
        steps, ncalls = S.probe(sc0)
        ab = {'on': 's3', 'op': 'AbortMultipartUpload', 'nth': 1, 'x': 0}
        for seq in range(2, ncalls + 1):
            sc = copy.deepcopy(sc0)
            sc['faults'] = [{'on': 's3', 'seq': seq, 'x': 0}, ab]
            jobs += S.schedules(sc, n, rng)
        for g in range(10, steps, 8):
            sc = copy.deepcopy(sc0)
            sc['faults'] = [ab]
            sc['cancel'] = {'how': 'future', 'x': 0, 'gate': g}
            jobs += S.schedules(sc, 1, rng)
    return ('failing-abort-cleanup', jobs)


def fam_small_queues_faults(rng, n):
    """Tiny stage queues combined with failing / cancelled transfers: a
    submitter must block, not fail, while a stage is full."""
    jobs = []
    for name in ('dl-path-mp', 'dl-seek-mp', 'dl-ns-mp', 'up-ns-mp', 'copy-mp'):
        for cfg in ({'IOQ': 1, 'R': 2}, {'IOQ': 1, 'RQ': 1, 'R': 2}, {'RQ': 1, 'R': 1, 'IOQ': 2}):
            sc0 = S.base(name, cfg=cfg)
            steps, ncalls = S.probe(sc0)
            for g in range(8, steps, 5):
                sc = copy.deepcopy(sc0)
                sc['cancel'] = {'how': 'future', 'x': 0, 'gate': g}
                jobs += S.schedules(sc, n, rng)
            for seq in range(1, ncalls + 1):
                sc = copy.deepcopy(sc0)
                sc['faults'] = [{'on': 's3', 'seq': seq, 'x': 0}]
                jobs += S.schedules(sc, n, rng)
    return ('small-queues-with-failures', jobs)


def fam_reenter(names, rng, n):
    jobs = []
    for name in names:
        for re in (['done'], ['meta'], ['result'], ['set_exception'],
                   ['cancel'], ['done', 'result', 'cancel']):
            sc = S.with_subs(S.base(name), [{'reenter': re}, {}])
            jobs += S.schedules(sc, n, rng)
            steps, _ = S.probe(sc)
            jobs += S.cancel_sweep(sc, min(steps, 40), rng, hows=('future',),
                                   stride=3)
    return ('reentrant-subscribers', jobs)


def fam_provide(rng, n):
    jobs = []
    for name, size in (('dl-path-mp', 5), ('dl-ns-1', 3), ('copy-mp', 5),
                       ('copy-1', 3), ('up-ns-mp', 5), ('up-ns-1', 3),
                       ('dl-empty', 0), ('up-empty', 0)):
        sc = S.with_subs(S.base(name), [{'provide_size': size}, {}])
        jobs += S.schedules(sc, n, rng)
    # a pipe-like stream (short reads) whose size a subscriber provides
    for size, reads, thr, chunk in ((5, [1], 4, 2), (7, [1, 2], 4, 2), (6, [2, 1], 4, 2),
                                    (8, [3], 4, 2), (10, [2], 3, 3), (11, [2, 3], 4, 4),
                                    (9, [1, 2], 3, 3)):
        sc = {'name': 'provided-short', 'cfg': {'threshold': thr, 'chunk': chunk},
              'transfers': [{'kind': 'upload', 'src': 'nonseekable', 'size': size,
                             'src_reads': reads,
                             'subs': [{'provide_size': size}, {}]}]}
        jobs += S.schedules(sc, n, rng)
    return ('provided-size', jobs)


def fam_checksums(names, rng, n):
    jobs = []
    for name in names:
        sc = S.base(name, client={'checksum': 'when_supported'})
        jobs += S.schedules(sc, n, rng)
        sc = S.base(name, client={'checksum': 'when_supported', 'retries': 2},
                    body_read=2)
        sc['faults'] = [{'on': 's3', 'op': 'UploadPart', 'nth': 2,
                         'kind': 'server', 'x': 0}]
        jobs += S.schedules(sc, n, rng)
    return ('flexible-checksums', jobs)


# ---------------------------------------------------------------------------
def families(pid, tier, rng):
    T = tier == 'thorough'
    k = 3 if T else 1          # multiplier for schedule counts
    if pid == 'C01':
        return [
            fam_schedules(S.UPLOADS + S.COPIES, 12 * k, rng),
            fam_sizes(rng, 2 * k, kinds=('upload', 'copy')),
            fam_retries(['up-path-mp', 'up-seek-mp', 'up-ns-mp', 'up-path-1',
                         'up-ns-1', 'up-seek-1'], rng, 1 * k),
            fam_checksums(['up-path-mp', 'up-ns-mp', 'copy-mp', 'up-path-1'], rng, 4 * k),
            fam_limits(['up-ns-mp', 'up-seek-mp', 'copy-mp'], rng, 6 * k, 3),
        ]
    if pid == 'C02':
        return [
            fam_schedules(S.DOWNLOADS, 12 * k, rng),
            fam_sizes(rng, 2 * k, kinds=('download',)),
            fam_streams(['dl-path-mp', 'dl-seek-mp', 'dl-ns-mp', 'dl-ns-1',
                         'dl-path-1', 'dl-seek-1'], rng, per=1 * k),
            fam_limits(['dl-ns-mp', 'dl-path-mp', 'dl-seek-mp'], rng, 6 * k, 3),
        ]
    if pid == 'C03':
        return [
            fam_s3_faults(S.ALL, rng, per=2 * k),
            fam_env_faults([n for n in S.ALL if n not in ('up-empty', 'dl-empty')], rng, per=2 * k),
            fam_streams(['dl-path-mp', 'dl-ns-mp', 'dl-seek-1'], rng, per=1),
            fam_failing_abort(rng, 2 * k),
            fam_slow_requests(['up-seek-mp', 'copy-mp', 'dl-ns-mp', 'dl-path-1', 'up-ns-1'],
                              rng, 1, cancels=False),
        ]
    if pid == 'C04':
        return [
            fam_limits(S.ALL, rng, 5 * k, 3),
            fam_cancel(S.ALL, rng, ('future',), stride=3 if not T else 1,
                       over={'cfg': {'R': 1, 'S': 1, 'IOQ': 1, 'RQ': 1,
                                     'up_chunks': 1, 'down_chunks': 1}}),
            fam_s3_faults(S.MULTIPART + ['dl-ns-mp', 'dl-path-mp'], rng, per=1 * k,
                          over={'cfg': {'R': 1, 'RQ': 1, 'IOQ': 1,
                                        'up_chunks': 1, 'down_chunks': 1}}),
            fam_reenter(['up-path-mp', 'dl-ns-mp', 'delete', 'copy-1'], rng, 2 * k),
            fam_mixes(rng, 25 * k, 3, faults=True, cancels=True),
            fam_systematic(['dl-path-mp', 'dl-ns-mp', 'up-path-mp', 'up-ns-mp',
                            'copy-mp', 'dl-seek-1', 'delete'] if not T else S.ALL,
                           rng, limit=None if T else 400),
            fam_failing_abort(rng, 2 * k),
            fam_small_queues_faults(rng, 1 * k),
            fam_mixes(rng, 40 * k, 3, shutdown_only=True),
            fam_mixes(rng, 40 * k, 3, faults=True, shutdown_only=True),
        ]
    if pid == 'C05':
        return [
            fam_schedules(S.MULTIPART, 10 * k, rng),
            fam_s3_faults(S.MULTIPART, rng, per=8 * k),
            fam_env_faults(S.MULTIPART, rng, per=16 * k),
            fam_cancel(S.MULTIPART, rng, ('future', 'exit-exc'),
                       stride=1, per=2 * k),
            fam_failing_abort(rng, 3 * k),
            fam_slow_requests(S.MULTIPART, rng, 1 * k),
            fam_stream_upload_failing(rng, 1 * k),
        ]
    if pid == 'C06':
        names = ['dl-path-mp', 'dl-path-1', 'dl-empty']
        return [
            fam_schedules(names, 10 * k, rng),
            fam_s3_faults(names, rng, per=3 * k),
            fam_env_faults(['dl-path-mp', 'dl-path-1'], rng, per=4 * k),
            fam_streams(['dl-path-mp', 'dl-path-1'], rng, per=1),
            fam_cancel(names, rng, ('future', 'exit-kbi'), stride=1, per=1 * k),
            fam_cleanup_faults(rng, 3 * k),
            fam_slow_requests(['dl-path-mp', 'dl-path-1'], rng, 1),
        ]
    if pid == 'C07':
        return [
            fam_cancel(S.ALL, rng, ('future',), stride=1, per=1 * k),
            fam_cancel(['up-path-mp', 'dl-path-mp', 'dl-ns-mp', 'copy-mp', 'delete',
                        'up-ns-1'], rng,
                       ('shutdown', 'exit-exc', 'exit-kbi', 'kbi-result'),
                       stride=2 if not T else 1),
            fam_mixes(rng, 15 * k, 2, cancels=True),
            fam_slow_requests(['up-path-mp', 'copy-mp', 'dl-path-mp', 'dl-ns-mp'], rng, 1),
            fam_cancel_all(rng, 40 * k),
        ]
    if pid == 'C08':
        two = {'subs': TWO_SUBS}
        jobs = []
        names = S.ALL
        fams = []
        j = []
        for n in names:
            j += S.schedules(S.with_subs(S.base(n), TWO_SUBS), 6 * k, rng)
        fams.append(('two-subscribers', j))
        j = []
        for n in ['up-path-mp', 'dl-path-mp', 'dl-ns-mp', 'copy-mp', 'delete', 'up-ns-1']:
            sc = S.with_subs(S.base(n), TWO_SUBS)
            steps, ncalls = S.probe(sc)
            j += S.s3_fault_sweep(sc, ncalls, rng, per=1 * k)
            j += S.cancel_sweep(sc, steps, rng, hows=('future',),
                                stride=2 if not T else 1)
        fams.append(('two-subscribers-faults-cancels', j))
        fams.append(fam_provide(rng, 4 * k))
        fams.append(fam_stream_upload_failing(rng, 1 * k))
        return fams
    if pid == 'C09':
        j2 = []
        for n_ in ['up-path-mp', 'up-path-1', 'up-ns-mp', 'up-seek-mp', 'dl-path-mp', 'dl-ns-mp',
                   'dl-seek-1', 'copy-mp', 'copy-1']:
            j2 += S.schedules(S.with_subs(S.base(n_), [{}, {}, {}]), 3 * k, rng)
        return [
            ('three-subscribers', j2),
            fam_schedules(S.ALL, 8 * k, rng),
            fam_retries(['up-path-mp', 'up-seek-mp', 'up-ns-mp', 'up-path-1',
                         'up-ns-1'], rng, 1 * k),
            fam_streams(['dl-path-mp', 'dl-ns-mp', 'dl-seek-1'], rng, per=1),
            fam_sizes(rng, 1 * k),
            fam_checksums(['up-path-mp', 'up-path-1', 'up-ns-mp'], rng, 3 * k),
        ]
    if pid == 'C10':
        return [
            fam_limits(S.ALL, rng, 6 * k, 3),
            fam_mixes(rng, 60 * k, 4),
            fam_contention(rng, 40 * k),
            fam_small_queues_faults(rng, 1 * k),
        ]
    if pid == 'C11':
        return [
            fam_limits(['up-ns-mp', 'up-seek-mp', 'dl-ns-mp', 'up-ns-1'], rng, 10 * k, 4),
            fam_mixes(rng, 60 * k, 4),
            fam_streams(['dl-ns-mp'], rng, per=1),
            fam_contention(rng, 40 * k),
            fam_provide(rng, 3 * k),
            fam_stream_upload_failing(rng, 1 * k),
        ]
    if pid == 'C18':
        return [
            fam_mixes(rng, 40 * k, 3, faults=True, cancels=True, fresh=True),
            fam_mixes(rng, 30 * k, 3, faults=True, shutdown_only=True),
            fam_cancel_all(rng, 60 * k),
            fam_failing_abort(rng, 2 * k),
            fam_cancel(['dl-path-mp', 'dl-ns-1', 'copy-mp', 'up-path-1', 'dl-seek-mp'], rng,
                       ('future', 'exit-exc'), stride=2, per=1 * k),
        ]
    if pid == 'C12':
        return [fam_mixes(rng, 40 * k, 3, faults=True, cancels=True)]
    if pid == 'C16':
        return [
            fam_streams(['dl-ns-mp', 'dl-ns-1'], rng, per=2 * k),
            fam_limits(['dl-ns-mp'], rng, 8 * k, 4),
        ]
    if pid == 'C17':
        return [
            fam_cancel(['up-path-mp', 'dl-ns-mp', 'delete', 'copy-1'], rng,
                       ('future',), stride=1, per=1 * k),
        ]
    if pid == 'C14':
        return [fam_sizes(rng, 1 * k), fam_part_limits(rng, 1 * k)]
    raise KeyError(pid)


CLAUSES = {
    'C01': 'C01_', 'C02': ('C02_', 'C16_'), 'C03': ('C03_', 'C05_', 'C06_'),
    # (a transfer that hangs with its multipart upload open is an orphaned upload)
    'C04': 'C04_', 'C05': ('C05_', 'C04_NoDeadlock'),
    'C06': 'C06_', 'C07': ('C07_', 'C05_', 'C06_', 'C04_'), 'C08': ('C08_', 'C04_'), 'C09': 'C09_',
    'C10': ('C10_', 'C11_', 'C16_', 'C04_'),
    'C11': 'C11_', 'C12': 'C12_', 'C14': ('C14_', 'C01_PartsTileSource', 'C01_PartsAscending1toN', 'C01_ObjectEqualsSource'), 'C16': 'C16_', 'C17': 'C17_',
    'C18': ('C18_', 'C01_', 'C02_', 'C03_', 'C04_'),
}


def known_attrs(sc, run, clause):
    t0 = sc['transfers'][0]
    return {
        'mode': (t0.get('kind') + '-' + str(t0.get('src') or t0.get('dst') or '')
                 + ('-mp' if t0.get('size', 0) >= (sc.get('cfg') or {}).get('threshold', 4)
                    else '-1')),
        'cancel_how': (sc.get('cancel') or {}).get('how'),
        'stream_fault': bool(sc.get('streams')),
        'kind': t0.get('kind'),
        'fault_on': (sc.get('faults') or [{}])[0].get('on') if len(sc.get('faults') or []) == 1 else None,
        'fault_exc': (sc.get('faults') or [{}])[0].get('exc') if len(sc.get('faults') or []) == 1 else None,
    }


def run_e2e(ck, pid, tier, seed):
    rng = random.Random(seed * 1000003 + int(pid[1:]))
    total = 0
    for label, jobs in families(pid, tier, rng):
        if not jobs:
            continue
        runs = pipeline.run_and_check(ck, jobs, CLAUSES[pid], label,
                                      known_attr=known_attrs)
        total += len(jobs)
        ck.coverage.setdefault('families', {})[label] = len(jobs)
    ck.require_nonvacuous('end-to-end runs', total, 20)
    return total


def run(pid, tier, seed, extra=None):
    ck = checklib.Check(pid, tier, seed)
    ck.coverage['rule'] = (
        'each case is one deterministic execution of the real TransferManager '
        '(real botocore client, fake transport, real temp dir) under one '
        'schedule and one fault/cancel plan; distinct = distinct normalised '
        'event traces (sha1); every trace is non-trivial (>= 1 transfer ran)')
    ck.assumptions += [
        'one controlled thread runs at a time; switches only at scheduling '
        'points (lock/semaphore/event/future waits, environment calls, racy '
        'status/exception reads)',
        'upload part-size adjuster scaled to min part size 1, as the '
        "repository's functional tests do",
    ]
    if extra:
        extra(ck, tier, seed)
    from checks import manager_mc
    manager_mc.run(ck, pid, tier, seed)
    run_e2e(ck, pid, tier, seed)
    if pid in ('C01', 'C02', 'C03', 'C05', 'C06'):
        from checks import legacy_e2e
        legacy_e2e.run_e2e(ck, pid, tier, seed)
    from checks import pconf_e2e
    pconf_e2e.run(ck, pid, tier, seed)
    # the other download front-ends named in the property's anchors
    if pid == 'C06':
        from checks import c19, c20
        c19.facet(ck, tier, seed, ['C19_AtDoneFileInPlaceOrTempRemoved', 'C19_DestNeverPartial',
                                   'R_DestNeverPartial', 'R_AgreesAtDone'], 'C06_PP_')
        c20.facet(ck, tier, seed, ['C20_RenameOnSuccessRemoveOnError', 'R_NoTempWhenComplete',
                                   'R_DestNeverPartial'], 'C06_CRT_')
    if pid == 'C02':
        from checks import c19
        c19.facet(ck, tier, seed, ['R_ResultTruthful', 'R_AgreesAtDone'], 'C02_PP_')
    if pid == 'C03':
        from checks import c19
        c19.facet(ck, tier, seed, ['R_ResultTruthful'], 'C03_PP_',
                  conf_kinds=('sub_exc', 'sub_done', 'w_exc', 'w_done'))
    if pid == 'C04':
        from checks import c19
        c19.facet(ck, tier, seed, ['C19_JobsNeverNegative'], 'C04_PP_', report_hang=True)
    pipeline.close_pool()
    return ck.finish()


def replay(path):
    with open(path) as f:
        body = json.load(f)
    rp = body.get('replay') or {}
    if rp.get('kind') == 'pipeline':
        print('clause:', rp.get('clause'))
        return pipeline.replay_pipeline(rp)
    if rp.get('kind') == 'legacy':
        from checks import legacy_e2e
        return legacy_e2e.replay(rp)
    if rp.get('kind') == 'pconf':
        from checks import pconf_e2e
        return pconf_e2e.replay(rp)
    if rp.get('kind') == 'c19':
        from checks import c19
        return c19.replay(path)
    if rp.get('kind') == 'c20':
        from checks import c20
        return c20.replay(path)
    print(json.dumps(body, indent=1)[:3000])
    return 1
