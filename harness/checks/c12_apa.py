"""C12: Apalache discharges the capacity equation of the sliding-window
semaphore as an INDUCTIVE invariant (Init => IndInv; IndInv /\\ Next =>
IndInv') over tokens 0..12, two tags and every capacity 1..6 - every state
that satisfies the invariant, not only those TLC reaches within 3-4 tokens."""

import os
import re
import shutil
import subprocess
import tempfile

import tlc


def _run(spec, init, length, out):
    p = subprocess.run(
        ['apalache-mc', 'check', f'--init={init}', '--inv=IndInv', f'--length={length}',
         '--no-deadlock', f'--out-dir={out}', spec], capture_output=True, text=True,
        timeout=1500, cwd=out, env=dict(os.environ, JVM_ARGS='-Xmx4g'))
    txt = p.stdout + p.stderr
    ok = 'EXITCODE: OK' in txt and ('The outcome is: NoError' in txt
                                    or 'Checker reports no error' in txt)
    m = re.search(r'Total time: ([0-9.]+) sec', txt)
    return ok, txt, float(m.group(1)) if m else None


def run(ck):
    out = tempfile.mkdtemp(prefix='verif-apa12-')
    try:
        spec = os.path.join(tlc.SPEC, 'apa', 'SemaphoresApa.tla')
        for init, length, what in (('Init', 0, 'initial states satisfy IndInv'),
                                   ('IndInit', 1, 'IndInv is preserved by every transition')):
            ok, txt, secs = _run(spec, init, length, out)
            ck.coverage.setdefault('apalache', []).append({
                'module': 'SemaphoresApa', 'inv': 'IndInv (C12_CapacityEquation, C12_CountInRange, '
                'pending well-formed)', 'step': what,
                'domain': 'tokens 0..12 per tag, 2 tags, capacity 1..6 (symbolic: every state '
                          'satisfying the invariant)',
                'outcome': 'NoError' if ok else 'ERROR', 'time_s': secs})
            if not ok:
                if 'Checker has found an error' in txt or 'violation' in txt.lower():
                    ck.violation('C12_CapacityEquation', {
                        'component': 'model', 'engine': 'apalache', 'step': what,
                        'out': txt[-2500:]})
                else:
                    ck.machinery_errors.append('apalache (SemaphoresApa) failed: ' + txt[-800:])
    finally:
        shutil.rmtree(out, ignore_errors=True)
