"""Normalises recorded executions into the monitor alphabet of Obs.tla and
has TLC (ObsTrace.tla) evaluate every clause of Props.tla on them."""

import json
import os
import re
import shutil
import tempfile

import tlc

CFG = '''SPECIFICATION TSpec
CONSTRAINT Report
CHECK_DEADLOCK FALSE
'''

RETRYABLE_STREAM = {'timeout', 'protocol', 'incomplete', 'socket'}
STREAM_EXC = {
    'timeout': 'ReadTimeoutError', 'protocol': 'ResponseStreamingError',
    'incomplete': 'IncompleteReadError', 'socket': 'TimeoutError',
}


def _uid(s):
    if not s:
        return 0
    m = re.match(r'mpu-(\d+)$', str(s))
    return int(m.group(1)) if m else 0


def _rs(rng):
    if not rng:
        return 0
    m = re.match(r'bytes=(\d+)-', rng)
    return int(m.group(1)) if m else -1


def parse_exc(tag):
    """exc_tag string -> (kind, tag)"""
    if tag.startswith('retries('):
        inner = tag[len('retries('):-1]
        return 'retries', inner
    if tag.startswith('s3:'):
        parts = tag.split(':', 2)
        return 's3', parts[2] if len(parts) > 2 else ''
    if tag.startswith('inj:'):
        return 'inj', tag[4:]
    if tag.startswith('cancel:'):
        return 'cancel', tag[7:]
    if tag.startswith('fatal:'):
        return 'fatal', tag[6:]
    if tag == 'stream-fatal':
        return 'stream-fatal', 'stream-fatal'
    return 'other', tag


def expected_cancel_msg(sc):
    c = sc.get('cancel') or {}
    how = c.get('how')
    if how == 'future':
        return ''
    if how == 'shutdown':
        return c.get('msg', 'bye')
    if how == 'exit-exc':
        return c.get('msg', 'boom')
    if how == 'exit-kbi':
        return 'KeyboardInterrupt()'
    if how in ('kbi-result',):
        return None   # '' from future.cancel() or 'KeyboardInterrupt()' from exit
    if how == 'kbi-shutdown':
        return 'KeyboardInterrupt()'
    return None


def meta_for(sc, cfg):
    xs = []
    faults = sc.get('faults', [])
    streams = sc.get('streams', [])
    transfers = list(sc['transfers'])
    fresh = (sc.get('user') or {}).get('fresh')
    if fresh:
        transfers.append(fresh)
    for x, t in enumerate(transfers):
        kind = t['kind']
        subs = t.get('subs', [{}])
        faulty = any(f.get('x', 0) == x and not f.get('retryable') for f in faults)
        faulty = faulty or any(
            s.get('x', 0) == x and s.get('fault') and (
                s['fault'] == 'fatal' or 'attempt' not in s)
            for s in streams)
        override = any('set_exception' in (s.get('reenter') or [])
                       for s in subs)
        xs.append({
            'kind': kind, 'size': t.get('size', 0),
            'dstk': (t.get('dst', 'path') if kind == 'download' else 'none'),
            'srck': ((t.get('src', 'path').replace('seekable-noattr', 'seekable'))
                     if kind == 'upload' else 'none'),
            'hasOld': bool(t.get('old')), 'nsubs': len(subs),
            'provide': any('provide_size' in s for s in subs),
            'faultFree': not faulty, 'override': override,
            'shortsrc': bool(t.get('src_reads')),
        })
    c = {k: cfg[k] for k in ('R', 'S', 'RQ', 'SQ', 'IOQ', 'io_chunk',
                             'attempts', 'up_chunks', 'down_chunks', 'chunk',
                             'threshold')}
    # the part-size limits in force (scaled ChunksizeAdjuster of the run)
    lim = sc.get('adjuster') or [1, 1000000, 10000]
    c.update(minp=lim[0], maxp=lim[1], maxn=lim[2])
    return {'cfg': c, 'xs': xs}


def normalize(res, sc, tid):
    """res: result of runner.run_scenario -> trace record for ObsTrace."""
    raw = res['events']
    cfg = raw[0]['cfg']
    meta = meta_for(sc, cfg)
    nx = len(meta['xs'])
    ev = []
    seqinfo = {}
    last_notdone = {}     # thread -> {x: step of latest not-done status read}
    exp_msg = expected_cancel_msg(sc)
    cancel_how = (sc.get('cancel') or {}).get('how') or 'internal'
    attempts = cfg['attempts']
    stream_fault_count = {}
    retries = (sc.get('client') or {}).get('retries', 1)

    def X(e):
        x = e.get('x', -1)
        return x if isinstance(x, int) and 0 <= x < nx else -1

    for e in raw:
        k = e['e']
        t = e.get('t', 0)
        th = e.get('th') or ''
        if k == 'StatusRead':
            if not e.get('done'):
                last_notdone.setdefault(th, {})[e.get('x', -1)] = t
        elif k in ('TaskBegin',):
            last_notdone.pop(th, None)
            if e.get('stage') == 'io':
                ev.append({'e': 'IoTask', 'ph': 'b'})
        elif k == 'TaskEnd':
            if e.get('stage') == 'io':
                ev.append({'e': 'IoTask', 'ph': 'e'})
            if e.get('stage') == 'request' and e.get('task') == 'UploadPartTask' \
                    and 0 <= e.get('xid', -1) < nx:
                ev.append({'e': 'PartTask', 'ph': 'e', 'x': e['xid']})
        elif k == 'Call':
            ev.append({'e': 'Call', 'x': X(e)})
        elif k == 'Ret':
            ev.append({'e': 'Ret', 'x': X(e), 'ok': bool(e.get('ok'))})
        elif k == 'S3Begin':
            rs = _rs(e.get('Range')) if e['op'] == 'GetObject' else -1
            seqinfo[e['seq']] = {'rs': rs, 'uid': _uid(e.get('UploadId')),
                                 'x': X(e)}
            chk = last_notdone.get(th, {}).get(e.get('x', -1), -1)
            ev.append({'e': 'S3Begin', 'seq': e['seq'], 'x': X(e),
                       'op': e['op'], 'uid': _uid(e.get('UploadId')),
                       'part': e.get('PartNumber', 0) or 0, 'rs': rs,
                       'xfer': bool(e.get('xfer')), 'th': th, 'chk': chk,
                       't': t})
        elif k == 'S3End':
            info = seqinfo.get(e['seq'], {})
            oc = e['outcome']
            if e.get('repeat'):
                oc = 'repeat'
            ock = 'ok' if oc == 'ok' else (
                'repeat' if oc == 'repeat' else
                'fault-after' if oc.startswith('fault-after') else
                'fault' if oc.startswith('fault') else
                'body-error' if oc.startswith('body-error') else 'err')
            body = e.get('body') or {}
            key = f"k{info.get('x', -1)}"
            bsrc = 'none'
            if body:
                bsrc = 'own' if body.get('src') in (key, 'src-' + key) else (
                    'garbage' if body.get('src') == 'garbage' else 'other')
            parts = []
            for p in e.get('parts') or []:
                loc = p.get('loc') or {}
                own = loc.get('src') in (key, 'src-' + key)
                parts.append({'n': p.get('n') or 0,
                              's': loc.get('start', -1) if own else -1,
                              'l': loc.get('len', 0),
                              'etag': bool(p.get('etag_ok')),
                              'crc': bool(p.get('crc_ok'))})
            if e['op'] == 'GetObject' and 'start' in e:
                body = {'start': e['start'], 'len': e['len']}
                bsrc = 'own'
            uid = info.get('uid', 0)
            if e['op'] == 'CreateMultipartUpload':
                uid = _uid(e.get('UploadId'))
            ev.append({'e': 'S3End', 'seq': e['seq'], 'x': info.get('x', -1),
                       'op': e['op'], 'uid': uid, 'oc': ock,
                       'xfer': bool(e.get('xfer')),
                       'bs': body.get('start', -1), 'bl': body.get('len', -1),
                       'bsrc': bsrc, 'parts': parts})
        elif k == 'BodyRead':
            info = seqinfo.get(e['seq'], {})
            ev.append({'e': 'BodyRead', 'seq': e['seq'], 'x': info.get('x', -1),
                       'rs': max(info.get('rs', 0), 0), 'off': e['off'],
                       'len': e['len']})
        elif k == 'BodyFault':
            info = seqinfo.get(e['seq'], {})
            kind = e['kind']
            retryable = kind in RETRYABLE_STREAM
            ev.append({'e': 'BodyFault', 'seq': e['seq'],
                       'x': info.get('x', -1), 'rs': max(info.get('rs', 0), 0),
                       'kind': STREAM_EXC.get(kind, kind),
                       'retryable': retryable})
        elif k == 'DstWriteBegin':
            ev.append({'e': 'DstWriteBegin', 'x': X(e), 'len': e['len']})
        elif k == 'DstWriteEnd':
            ev.append({'e': 'DstWrite', 'x': X(e), 'ok': bool(e.get('ok')),
                       'off': e.get('off', -1), 'len': e.get('len', 0),
                       'src': e.get('src', -1)})
        elif k == 'FsWriteBegin':
            ev.append({'e': 'DstWriteBegin', 'x': X(e), 'len': e['len']})
        elif k == 'FsWriteEnd':
            ev.append({'e': 'DstWrite', 'x': X(e), 'ok': bool(e.get('ok')),
                       'off': e.get('off', -1), 'len': e.get('len', 0),
                       'src': e.get('src', -1)})
        elif k in ('FsOpen', 'FsClose', 'FsRemove', 'FsRenameBegin'):
            kind = {'FsOpen': 'open', 'FsClose': 'close', 'FsRemove': 'remove',
                    'FsRenameBegin': 'rename'}[k]
            if k == 'FsRemove' and not e.get('existed'):
                continue
            chk = last_notdone.get(th, {}).get(e.get('x', -1), -1)
            ev.append({'e': 'FsEvent', 'x': X(e), 'kind': kind, 'chk': chk})
        elif k == 'FsSnapshot':
            for f in e['files']:
                ev.append({'e': 'Fs', 'x': f['x'], 'dest': f['dest'],
                           'temps': f['temps']})
        elif k == 'CbBegin':
            ev.append({'e': 'CbBegin', 'cb': e['cb'], 'x': X(e),
                       'user': th in ('canceller', 'user'),
                       'sub': e['sub'] + 1, 'n': e.get('n', 0),
                       'flag': bool(e.get('flag', True)),
                       'st': e.get('st', '')})
        elif k == 'CbEnd':
            ev.append({'e': 'CbEnd', 'cb': e['cb'], 'x': X(e),
                       'sub': e['sub'] + 1})
        elif k == 'Status':
            ev.append({'e': 'Status', 'x': X(e), 'st': e.get('status', '')})
        elif k == 'AnnounceBegin':
            ev.append({'e': 'AnnBegin', 'x': X(e)})
        elif k in ('CtlHooked', 'CtlCancelBegin', 'CtlCancelEnd', 'CtlWaitKbi'):
            ev.append({'e': k})
        elif k == 'CancelBegin':
            # coordinator-level cancel (linearization point of every entry)
            ev.append({'e': 'CancelCall', 'how': cancel_how, 'x': X(e)})
        elif k == 'CancelEnd':
            ev.append({'e': 'CancelRet', 'how': cancel_how, 'x': X(e),
                       'ok': True, 't': t})
        elif k == 'CancelCall':
            ev.append({'e': 'CancelCall', 'how': e['how'], 'x': X(e)})
        elif k == 'CancelRet':
            ev.append({'e': 'CancelRet', 'how': e['how'], 'x': X(e),
                       'ok': 'err' not in e, 't': t})
        elif k == 'ResultEnd':
            if e['outcome'] == 'kbi':
                # TransferFuture.result() cancels the transfer and re-raises
                ev.append({'e': 'CancelCall', 'how': 'kbi-result', 'x': X(e)})
                ev.append({'e': 'CancelRet', 'how': 'kbi-result', 'x': X(e),
                           'ok': True, 't': t})
                continue
            ek, tag = ('', '')
            msgok = True
            cls = e.get('cls', '')
            if e['outcome'] == 'raise':
                ek, tag = parse_exc(e.get('exc', ''))
                if ek in ('cancel', 'fatal'):
                    if exp_msg is not None:
                        msgok = (tag == exp_msg)
                    else:
                        msgok = tag in ('', 'KeyboardInterrupt()')
            ev.append({'e': 'ResultEnd', 'x': X(e), 'oc': e['outcome'],
                       'ek': ek, 'tag': tag, 'cls': cls, 'msgok': msgok})
        elif k == 'ResultAgain':
            ek, tag = parse_exc(e.get('exc', '')) if e['outcome'] == 'raise' \
                else ('', '')
            ev.append({'e': 'ResultAgain', 'x': X(e), 'oc': e['outcome'],
                       'tag': tag})
        elif k == 'FaultInjected':
            on = e.get('on')
            x = e.get('x', -1)
            if on == 's3' and e.get('kind') == 'readtimeout':
                info = seqinfo.get(e.get('seq'), {})
                ev.append({'e': 'BodyFault', 'seq': e.get('seq'),
                           'x': info.get('x', -1),
                           'rs': max(info.get('rs', 0), 0),
                           'kind': 'ReadTimeoutError', 'retryable': True})
                continue
            if on == 's3':
                x = seqinfo.get(e.get('seq'), {}).get('x', -1)
                fatal = e.get('kind') == 'client' or retries <= 1
            else:
                fatal = True
            if not (isinstance(x, int) and 0 <= x < nx):
                x = -1
            ev.append({'e': 'Fault', 'x': x, 'tag': e.get('tag', ''),
                       'fatal': bool(fatal), 'on': on})
        elif k == 'DoneFlip':
            ev.append({'e': 'DoneFlip', 'x': X(e), 'done': bool(e['done'])})
        elif k == 'ShutdownEnd':
            ev.append({'e': 'ShutdownEnd'})
        elif k == 'ExecSubmit':
            ev.append({'e': 'ExecSubmit', 'stage': e['stage'],
                       'inflight': e['inflight']})
            if e.get('stage') == 'request' and e.get('task') == 'UploadPartTask' \
                    and 0 <= e.get('xid', -1) < nx:
                ev.append({'e': 'PartTask', 'ph': 's', 'x': e['xid']})
        elif k == 'SrcRead':
            ev.append({'e': 'SrcRead', 'x': X(e), 'len': e['len']})
        elif k == 'ExecShutdown':
            ev.append({'e': 'ExecShutdown', 'stage': e.get('stage', '')})
        elif k in ('Deadlock', 'StepBudget'):
            ev.append({'e': 'Stuck', 'kind': k})
    # final observation
    finbad = []
    fin = res.get('final') or {}
    for x, rec in fin.items():
        x = int(x)
        if x >= nx:
            continue
        out = (res.get('results') or {}).get(x)
        if out and out[0] == 'ok':
            if rec['kind'] in ('upload', 'copy') and rec.get('object') != 'equal':
                finbad.append(f'x{x}:object-{rec.get("object")}')
            if rec['kind'] == 'download' and rec.get('dest') != 'complete':
                finbad.append(f'x{x}:dest-{rec.get("dest")}')
            if rec['kind'] == 'delete' and rec.get('object') != 'absent':
                finbad.append(f'x{x}:not-deleted')
    q = res.get('quiescent') or {}
    perm = True
    if 'error' not in q and q:
        perm = (q.get('request_q') == cfg['RQ'] and q.get('submission_q') == cfg['SQ']
                and q.get('io_q') == cfg['IOQ']
                and q.get('in_memory_upload') == cfg['up_chunks']
                and q.get('in_memory_download') == cfg['down_chunks'])
    if res.get('failure'):
        perm = True   # a torn-down run says nothing about permits
    ev.append({'e': 'End', 'perm': bool(perm), 'finbad': finbad})
    for e in ev:
        e.setdefault('user', False)
    return {'id': tid, 'meta': meta, 'ev': ev}


def validate(traces, workdir=None, timeout=3000):
    """Returns {id: {clause: first index}} and the TLC result."""
    d = tempfile.mkdtemp(prefix='verif-obs-')
    try:
        path = os.path.join(d, 'traces.ndjson')
        with open(path, 'w') as f:
            for t in traces:
                f.write(json.dumps(t) + '\n')
        r = tlc.run_tlc('ObsTrace', CFG, workers=1, env={'TRACE_FILE': path},
                        timeout=timeout)
        out = {}
        for p in r.json_prints('VERDICT '):
            j = json.loads(p)
            out[j['id']] = {v[0]: v[1] for v in j['viol']}
        return out, r
    finally:
        shutil.rmtree(d, ignore_errors=True)
