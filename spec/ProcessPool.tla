----------------------------- MODULE ProcessPool -----------------------------
(***************************************************************************)
(* s3transfer.processpool: the cross-process protocol between the main     *)
(* process (download_file, cancel, Ctrl-C, shutdown), the GetObjectSubmitter*)
(* the GetObjectWorkers and the TransferMonitor.                           *)
(*                                                                         *)
(* Every call on the TransferMonitor is a hop to another process and is    *)
(* one atomic action here; queue puts/gets, S3 calls and file operations   *)
(* are actions of their own, so the submitter and the workers interleave   *)
(* at exactly the points where the real processes can.                     *)
(*                                                                         *)
(* Faults: HeadObject, allocate, any GetObject job, rename may fail        *)
(* (budget MaxFaults).                                                     *)
(***************************************************************************)
EXTENDS Naturals, Integers, Sequences, FiniteSets, TLC

CONSTANTS Workers,      \* worker names
          NDownloads,   \* number of download_file calls the user makes
          JobsOf,       \* [download -> number of jobs (1 = below threshold)]
          MaxFaults,
          UserMayCancel, UserMayCtrlC

DL == 0..(NDownloads - 1)
Shutdown == [kind |-> "SHUTDOWN"]

VARIABLES
    mon,      \* TransferMonitor: [x -> [exc, jobs, done]] for notified transfers
    nextId,   \* TransferMonitor._id_count
    reqQ,     \* download request queue (FIFO)
    workQ,    \* worker queue (FIFO)
    upc,      \* user program counter
    usub,     \* downloads the user has submitted so far
    spc,      \* submitter: [pc, x, i]
    wpc,      \* [worker -> [pc, x, rem]]
    fs,       \* [x -> [temp, dest, parts]]
    acct,     \* [x -> number of notify_job_complete calls] (history)
    faults,   \* faults injected so far
    cancelled \* downloads the user cancelled / Ctrl-C'ed (history)

vars == <<mon, nextId, reqQ, workQ, upc, usub, spc, wpc, fs, acct, faults, cancelled>>

NoMon == [exc |-> "none", jobs |-> 0, done |-> FALSE]
Init ==
    /\ mon = <<>> /\ nextId = 0
    /\ reqQ = <<>> /\ workQ = <<>>
    /\ upc = "run" /\ usub = {}
    /\ spc = [pc |-> "get", x |-> -1, i |-> 0]
    /\ wpc = [w \in Workers |-> [pc |-> "get", x |-> -1, rem |-> -1]]
    /\ fs = [x \in DL |-> [temp |-> FALSE, dest |-> "old", parts |-> {}]]
    /\ acct = [x \in DL |-> 0]
    /\ faults = 0
    /\ cancelled = {}

Put(f, k, v) == [y \in DOMAIN f \cup {k} |-> IF y = k THEN v ELSE f[y]]
CanFault == faults < MaxFaults
SubmitterDone == spc.pc = "stopped"
WorkerDone(w) == wpc[w].pc = "stopped"

\* ------------------------------------------------------------------ user
\* download_file: notify_new_transfer ...
UserNotifyNew ==
    /\ upc = "run" /\ nextId < NDownloads
    /\ mon' = Put(mon, nextId, NoMon)
    /\ nextId' = nextId + 1
    /\ upc' = "putreq"
    /\ UNCHANGED <<reqQ, workQ, usub, spc, wpc, fs, acct, faults, cancelled>>
\* ... then put the request on the queue
UserPutRequest ==
    /\ upc = "putreq"
    /\ reqQ' = Append(reqQ, [kind |-> "REQ", x |-> nextId - 1])
    /\ usub' = usub \cup {nextId - 1}
    /\ upc' = "run"
    /\ UNCHANGED <<mon, nextId, workQ, spc, wpc, fs, acct, faults, cancelled>>

\* future.cancel(): notify_exception(CancelledError) - unconditional
UserCancel(x) ==
    /\ UserMayCancel /\ upc = "run" /\ x \in usub /\ x \notin cancelled
    /\ mon' = [mon EXCEPT ![x].exc = "cancel"]
    /\ cancelled' = cancelled \cup {x}
    /\ UNCHANGED <<nextId, reqQ, workQ, upc, usub, spc, wpc, fs, acct, faults>>

\* Ctrl-C inside the with-block: __exit__ cancels all in progress, then shuts down
UserCtrlC ==
    /\ UserMayCtrlC /\ upc = "run"
    /\ mon' = [x \in DOMAIN mon |-> IF mon[x].done THEN mon[x] ELSE [mon[x] EXCEPT !.exc = "cancel"]]
    /\ cancelled' = cancelled \cup {x \in DOMAIN mon : ~mon[x].done}
    /\ upc' = "sd_sub"
    /\ UNCHANGED <<nextId, reqQ, workQ, usub, spc, wpc, fs, acct, faults>>

\* shutdown(): signal the submitter, join it, signal each worker, join them
UserShutdownStart ==
    /\ upc = "run"
    /\ upc' = "sd_sub"
    /\ UNCHANGED <<mon, nextId, reqQ, workQ, usub, spc, wpc, fs, acct, faults, cancelled>>
UserSignalSubmitter ==
    /\ upc = "sd_sub"
    /\ reqQ' = Append(reqQ, Shutdown)
    /\ upc' = "sd_joinsub"
    /\ UNCHANGED <<mon, nextId, workQ, usub, spc, wpc, fs, acct, faults, cancelled>>
UserJoinSubmitter ==
    /\ upc = "sd_joinsub" /\ SubmitterDone
    /\ workQ' = workQ \o [k \in 1..Cardinality(Workers) |-> Shutdown]
    /\ upc' = "sd_joinworkers"
    /\ UNCHANGED <<mon, nextId, reqQ, usub, spc, wpc, fs, acct, faults, cancelled>>
UserJoinWorkers ==
    /\ upc = "sd_joinworkers" /\ \A w \in Workers : WorkerDone(w)
    /\ upc' = "down"
    /\ UNCHANGED <<mon, nextId, reqQ, workQ, usub, spc, wpc, fs, acct, faults, cancelled>>

\* ------------------------------------------------------------------ submitter
SubGet ==
    /\ spc.pc = "get" /\ reqQ # <<>>
    /\ reqQ' = Tail(reqQ)
    /\ spc' = IF Head(reqQ) = Shutdown THEN [spc EXCEPT !.pc = "stopped"]
              ELSE [pc |-> "size", x |-> Head(reqQ).x, i |-> 0]
    /\ UNCHANGED <<mon, nextId, workQ, upc, usub, wpc, fs, acct, faults, cancelled>>

\* HeadObject (may fail) and allocate the temp file (may fail)
SubSize(ok) ==
    /\ spc.pc = "size"
    /\ IF ok THEN spc' = [spc EXCEPT !.pc = "alloc"] /\ UNCHANGED faults
       ELSE CanFault /\ faults' = faults + 1 /\ spc' = [spc EXCEPT !.pc = "fail"]
    /\ UNCHANGED <<mon, nextId, reqQ, workQ, upc, usub, wpc, fs, acct, cancelled>>
SubAlloc(ok) ==
    /\ spc.pc = "alloc"
    /\ IF ok THEN /\ fs' = [fs EXCEPT ![spc.x].temp = TRUE]
                  /\ spc' = [spc EXCEPT !.pc = "expect"] /\ UNCHANGED faults
       ELSE /\ CanFault /\ faults' = faults + 1
            /\ spc' = [spc EXCEPT !.pc = "fail"] /\ UNCHANGED fs
    /\ UNCHANGED <<mon, nextId, reqQ, workQ, upc, usub, wpc, acct, cancelled>>
\* notify_expected_jobs_to_complete BEFORE the jobs are queued
SubExpect ==
    /\ spc.pc = "expect"
    /\ mon' = [mon EXCEPT ![spc.x].jobs = JobsOf[spc.x]]
    /\ spc' = [spc EXCEPT !.pc = "put", !.i = 0]
    /\ UNCHANGED <<nextId, reqQ, workQ, upc, usub, wpc, fs, acct, faults, cancelled>>
SubPut ==
    /\ spc.pc = "put"
    /\ workQ' = Append(workQ, [kind |-> "JOB", x |-> spc.x, i |-> spc.i])
    /\ spc' = IF spc.i + 1 = JobsOf[spc.x] THEN [pc |-> "get", x |-> -1, i |-> 0]
              ELSE [spc EXCEPT !.i = @ + 1]
    /\ UNCHANGED <<mon, nextId, reqQ, upc, usub, wpc, fs, acct, faults, cancelled>>
\* submission failed: notify_exception, notify_done
SubFailExc ==
    /\ spc.pc = "fail"
    /\ mon' = [mon EXCEPT ![spc.x].exc = "fault"]
    /\ spc' = [spc EXCEPT !.pc = "faildone"]
    /\ UNCHANGED <<nextId, reqQ, workQ, upc, usub, wpc, fs, acct, faults, cancelled>>
SubFailDone ==
    /\ spc.pc = "faildone"
    /\ mon' = [mon EXCEPT ![spc.x].done = TRUE]
    /\ spc' = [pc |-> "get", x |-> -1, i |-> 0]
    /\ UNCHANGED <<nextId, reqQ, workQ, upc, usub, wpc, fs, acct, faults, cancelled>>

\* ------------------------------------------------------------------ workers
WGet(w) ==
    /\ wpc[w].pc = "get" /\ workQ # <<>>
    /\ workQ' = Tail(workQ)
    /\ wpc' = [wpc EXCEPT ![w] = IF Head(workQ) = Shutdown THEN [@ EXCEPT !.pc = "stopped"]
                                  ELSE [pc |-> "check", x |-> Head(workQ).x, rem |-> Head(workQ).i]]
    /\ UNCHANGED <<mon, nextId, reqQ, upc, usub, spc, fs, acct, faults, cancelled>>
\* get_exception: skip the job if the transfer already failed / was cancelled
WCheck(w) ==
    /\ wpc[w].pc = "check"
    /\ wpc' = [wpc EXCEPT ![w].pc = IF mon[wpc[w].x].exc = "none" THEN "run" ELSE "account"]
    /\ UNCHANGED <<mon, nextId, reqQ, workQ, upc, usub, spc, fs, acct, faults, cancelled>>
\* GetObject + write the part into the temp file, or fail
WRun(w, ok) ==
    /\ wpc[w].pc = "run"
    /\ IF ok THEN /\ fs' = [fs EXCEPT ![wpc[w].x].parts = @ \cup {wpc[w].rem}]
                  /\ wpc' = [wpc EXCEPT ![w].pc = "account"] /\ UNCHANGED faults
       ELSE /\ CanFault /\ faults' = faults + 1
            /\ wpc' = [wpc EXCEPT ![w].pc = "jobexc"] /\ UNCHANGED fs
    /\ UNCHANGED <<mon, nextId, reqQ, workQ, upc, usub, spc, acct, cancelled>>
WJobExc(w) ==
    /\ wpc[w].pc = "jobexc"
    /\ mon' = [mon EXCEPT ![wpc[w].x].exc = "fault"]
    /\ wpc' = [wpc EXCEPT ![w].pc = "account"]
    /\ UNCHANGED <<nextId, reqQ, workQ, upc, usub, spc, fs, acct, faults, cancelled>>
\* notify_job_complete returns the number of jobs remaining
WAccount(w) ==
    /\ wpc[w].pc = "account"
    /\ LET x == wpc[w].x  r == mon[x].jobs - 1 IN
       /\ mon' = [mon EXCEPT ![x].jobs = r]
       /\ acct' = [acct EXCEPT ![x] = @ + 1]
       /\ wpc' = [wpc EXCEPT ![w] = IF r = 0 THEN [@ EXCEPT !.pc = "final"]
                                     ELSE [pc |-> "get", x |-> -1, rem |-> -1]]
    /\ UNCHANGED <<nextId, reqQ, workQ, upc, usub, spc, fs, faults, cancelled>>
\* _finalize_download: get_exception decides between remove and rename
WFinal(w) ==
    /\ wpc[w].pc = "final"
    /\ wpc' = [wpc EXCEPT ![w].pc = IF mon[wpc[w].x].exc = "none" THEN "rename" ELSE "remove"]
    /\ UNCHANGED <<mon, nextId, reqQ, workQ, upc, usub, spc, fs, acct, faults, cancelled>>
WRemove(w) ==
    /\ wpc[w].pc = "remove"
    /\ fs' = [fs EXCEPT ![wpc[w].x].temp = FALSE]
    /\ wpc' = [wpc EXCEPT ![w].pc = "done"]
    /\ UNCHANGED <<mon, nextId, reqQ, workQ, upc, usub, spc, acct, faults, cancelled>>
WRename(w, ok) ==
    /\ wpc[w].pc = "rename"
    /\ IF ok THEN /\ fs' = [fs EXCEPT ![wpc[w].x].temp = FALSE,
                                      ![wpc[w].x].dest =
                                          IF fs[wpc[w].x].parts = 0..(JobsOf[wpc[w].x] - 1)
                                          THEN "complete" ELSE "partial"]
                  /\ wpc' = [wpc EXCEPT ![w].pc = "done"] /\ UNCHANGED faults
       ELSE /\ CanFault /\ faults' = faults + 1
            /\ wpc' = [wpc EXCEPT ![w].pc = "renexc"] /\ UNCHANGED fs
    /\ UNCHANGED <<mon, nextId, reqQ, workQ, upc, usub, spc, acct, cancelled>>
WRenameExc(w) ==
    /\ wpc[w].pc = "renexc"
    /\ mon' = [mon EXCEPT ![wpc[w].x].exc = "fault"]
    /\ wpc' = [wpc EXCEPT ![w].pc = "remove"]
    /\ UNCHANGED <<nextId, reqQ, workQ, upc, usub, spc, fs, acct, faults, cancelled>>
WDone(w) ==
    /\ wpc[w].pc = "done"
    /\ mon' = [mon EXCEPT ![wpc[w].x].done = TRUE]
    /\ wpc' = [wpc EXCEPT ![w] = [pc |-> "get", x |-> -1, rem |-> -1]]
    /\ UNCHANGED <<nextId, reqQ, workQ, upc, usub, spc, fs, acct, faults, cancelled>>

UserStep ==
    \/ UserNotifyNew \/ UserPutRequest \/ (\E x \in DL : UserCancel(x)) \/ UserCtrlC
    \/ UserShutdownStart \/ UserSignalSubmitter \/ UserJoinSubmitter \/ UserJoinWorkers
SubStep ==
    \/ SubGet \/ SubSize(TRUE) \/ SubSize(FALSE) \/ SubAlloc(TRUE) \/ SubAlloc(FALSE)
    \/ SubExpect \/ SubPut \/ SubFailExc \/ SubFailDone
WStep(w) ==
    \/ WGet(w) \/ WCheck(w) \/ WRun(w, TRUE) \/ WRun(w, FALSE) \/ WJobExc(w) \/ WAccount(w)
    \/ WFinal(w) \/ WRemove(w) \/ WRename(w, TRUE) \/ WRename(w, FALSE) \/ WRenameExc(w) \/ WDone(w)

Next == UserStep \/ SubStep \/ \E w \in Workers : WStep(w)
Spec == Init /\ [][Next]_vars
FairSpec == Spec /\ WF_vars(SubStep) /\ (\A w \in Workers : WF_vars(WStep(w)))
                 /\ WF_vars(UserShutdownStart \/ UserSignalSubmitter \/ UserJoinSubmitter \/ UserJoinWorkers)
                 /\ WF_vars(UserNotifyNew \/ UserPutRequest)

\* ------------------------------------------------------------- properties
\* done only after every job of the download has been accounted for
C19_DoneOnlyAfterAllJobsAccounted ==
    \A x \in DOMAIN mon : mon[x].done =>
        \/ acct[x] = JobsOf[x]
        \/ (acct[x] = 0 /\ ~fs[x].temp /\ mon[x].exc # "none")   \* failed before any job existed

\* at done: file complete and in place, or temp file removed and dest untouched
C19_AtDoneFileInPlaceOrTempRemoved ==
    \A x \in DOMAIN mon : mon[x].done =>
        /\ ~fs[x].temp
        /\ fs[x].dest \in {"old", "complete"}
\* the destination changes only through a rename of a complete temp file
C19_DestNeverPartial == \A x \in DL : fs[x].dest # "partial"

C19_ShutdownWaitsForAll ==
    (upc = "down") => \A x \in usub : mon[x].done

\* a transfer that was cancelled before its jobs finished does not publish
C19_CancelledNotPublishedLate ==
    [][\A x \in DL : (fs'[x].dest = "complete" /\ fs[x].dest # "complete") =>
            \E w \in Workers : wpc[w].pc = "rename" /\ wpc[w].x = x]_vars

C19_JobsNeverNegative == \A x \in DOMAIN mon : mon[x].jobs >= 0

\* liveness: every submitted download eventually becomes done, shutdown returns
C19_EveryDownloadEventuallyDone == \A x \in DL : (x \in usub) ~> (x \in DOMAIN mon /\ mon[x].done)
C19_ShutdownReturns == (upc = "sd_sub") ~> (upc = "down")
=============================================================================
