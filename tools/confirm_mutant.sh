#!/bin/sh
# usage: confirm_mutant.sh <Cxx> <mK> [src-root [out-tag]]
#   reads <src-root>-<Cxx>/<mK> (default /tmp/seeded), writes /verif/seeded/<Cxx>-<out-tag><mK>/
# Confirms in a scratch worktree: suite passes with the patch, demo fails
# with it and passes without it.
set -u
P=$1; M=$2
ROOT=${3:-/tmp/seeded}; TAG=${4:-}
SRC=$ROOT-$P/$M
OUT=/verif/seeded/$P-$TAG$M
WT=/tmp/confirm-$P-$TAG$M
mkdir -p $OUT
cp $SRC/patch.diff $SRC/demo.py $OUT/ 2>/dev/null
git -C /repo worktree add --detach $WT HEAD -q || exit 2
cd $WT
# without patch
PYTHONPATH=$WT timeout 300 /venv/bin/python $OUT/demo.py > $OUT/demo_without.log 2>&1; RC_WO=$?
git apply $OUT/patch.diff || { echo "patch does not apply" > $OUT/confirm.txt; cd /; git -C /repo worktree remove --force $WT; exit 2; }
PYTHONPATH=$WT timeout 300 /venv/bin/python $OUT/demo.py > $OUT/demo_with.log 2>&1; RC_W=$?
PYTHONPATH=$WT timeout 1200 /venv/bin/python -m pytest -q -p no:cacheprovider -x tests/unit tests/functional > $OUT/suite.log 2>&1; RC_S=$?
tail -1 $OUT/suite.log > $OUT/suite_tail.txt
cd /
git -C /repo worktree remove --force $WT
python3 - "$P" "$M" "$RC_WO" "$RC_W" "$RC_S" "$SRC" "$OUT" <<'PY'
import json,sys,os
P,M,wo,w,s,src,out=sys.argv[1:8]
meta={}
try: meta=json.load(open(f'{src}/meta.json'))
except Exception as e: meta={'error':str(e)}
meta['confirmed']={'demo_rc_without_patch':int(wo),'demo_rc_with_patch':int(w),'suite_rc_with_patch':int(s),
  'suite_tail':open(out+'/suite_tail.txt').read().strip(),
  'ok': int(wo)==0 and int(w)!=0 and int(s)==0,
  'ran':['demo without patch','demo with patch','pytest tests/unit tests/functional with patch (scratch worktree)']}
meta['property']=P
json.dump(meta,open(out+'/meta.json','w'),indent=1)
os.remove(out+'/suite_tail.txt')
print(P,M,meta['confirmed'])
PY
