"""In-memory S3 service behind a *real* botocore client.

The client is a normal botocore S3 client (static credentials, no network):
a ``before-send`` handler answers every request from :class:`FakeS3`.  Real
parameter validation, request-created events, body rewinds on client-level
retries and checksum wrappers therefore stay in the loop.
"""

import base64
import binascii
import io
import itertools
import re
import socket
import threading
import urllib.parse
import zlib
from xml.sax.saxutils import escape

import botocore.session
from botocore.awsrequest import AWSResponse
from botocore.config import Config

try:
    from urllib3.exceptions import ProtocolError as U3ProtocolError
    from urllib3.exceptions import ReadTimeoutError as U3ReadTimeoutError
except Exception:  # pragma: no cover
    U3ProtocolError = U3ReadTimeoutError = None

_tls = threading.local()


def pattern(n, salt=0):
    """Self-identifying data: every window of >= 2 bytes (n <= 62000) or of
    1 byte (n <= 250) occurs at one position only."""
    if n <= 250:
        return bytes((i + 1 + salt) % 251 if salt else i + 1 for i in range(n))
    out = bytearray()
    k = 0
    while len(out) < n:
        out += bytes([1 + (k // 250) % 250, 1 + k % 250])
        k += 1
    return bytes(out[:n])


def locate(hay, needle):
    """Return (start, len) of needle inside hay, or None if absent."""
    if len(needle) == 0:
        return (0, 0)
    i = hay.find(needle)
    if i < 0:
        return None
    return (i, len(needle))


def crc32_b64(data):
    return base64.b64encode(
        (zlib.crc32(data) & 0xFFFFFFFF).to_bytes(4, 'big')).decode()


class InjectedFault(Exception):
    """Tag carried by exceptions the harness injects."""


class Fault:
    """A fault to apply to one S3 call.

    kind: 'client' (4xx, never retried by botocore), 'server' (500, retried by
    botocore if it has attempts left), 'conn' (connection error, retried).
    after: apply the call's effect first.
    """

    def __init__(self, kind='client', after=False, tag=None):
        self.kind = kind
        self.after = after
        self.tag = tag


class StreamScript:
    """How the body of one GetObject response behaves.

    reads: list of ints - the maximum number of bytes successive read() calls
        return (short reads); when exhausted reads are full.
    fault_after: number of bytes after which ``fault`` strikes (None = never)
    fault: 'timeout' | 'protocol' | 'incomplete' | 'socket' | 'fatal'
    """

    def __init__(self, reads=(), fault_after=None, fault=None):
        self.reads = list(reads)
        self.fault_after = fault_after
        self.fault = fault


class ScriptedRaw:
    """urllib3-response look-alike used as AWSResponse.raw."""

    def __init__(self, svc, seq, data, base, script):
        self.svc = svc
        self.seq = seq
        self.data = data
        self.base = base
        self.pos = 0
        self.script = script or StreamScript()
        self.closed = False
        self.finished = False

    def _fault(self):
        k = self.script.fault
        self.finished = True
        self.svc.emit('BodyFault', seq=self.seq, kind=k, at=self.pos)
        if k == 'timeout':
            raise U3ReadTimeoutError(None, 'https://fake/', 'read timed out')
        if k == 'protocol':
            raise U3ProtocolError('Connection broken')
        if k == 'socket':
            raise socket.timeout('timed out')
        if k == 'incomplete':
            return b''
        raise FatalStreamError(f'injected fatal stream error seq={self.seq}')

    def read(self, amt=None, decode_content=None, cache_content=False):
        self.svc.point('body-read')
        sc = self.script
        if sc.fault is not None and sc.fault_after is not None \
                and self.pos >= sc.fault_after and not self.finished:
            return self._fault()
        if self.finished and sc.fault == 'incomplete':
            return b''
        left = len(self.data) - self.pos
        n = left if amt is None else min(amt, left)
        if sc.reads and n > 0:
            n = max(1, min(n, sc.reads.pop(0)))
        if sc.fault is not None and sc.fault_after is not None:
            n = min(n, max(sc.fault_after - self.pos, 0))
        chunk = self.data[self.pos:self.pos + n]
        self.svc.emit('BodyRead', seq=self.seq, off=self.base + self.pos,
                      len=len(chunk))
        self.pos += n
        if n == 0 and left == 0:
            self.finished = True
        return chunk

    def stream(self, amt=65536, decode_content=None):
        while True:
            c = self.read(amt)
            if not c:
                return
            yield c

    def release_conn(self):
        pass

    def close(self):
        self.closed = True


class FatalStreamError(InjectedFault):
    pass


class _StaticRaw:
    def __init__(self, body):
        self._b = io.BytesIO(body)

    def read(self, amt=None, decode_content=None, cache_content=False):
        return self._b.read() if amt is None else self._b.read(amt)

    def stream(self, amt=65536, decode_content=None):
        while True:
            c = self._b.read(amt)
            if not c:
                return
            yield c

    def release_conn(self):
        pass

    def close(self):
        pass


TRANSFER_OPS = {
    'PutObject', 'UploadPart', 'GetObject', 'CopyObject', 'UploadPartCopy',
    'DeleteObject', 'CreateMultipartUpload', 'CompleteMultipartUpload',
}


class FakeS3:
    def __init__(self, emit=None, point=None):
        self.emit = emit or (lambda e, **kw: None)
        self.point = point or (lambda kind='': None)
        self.latency_plan = None
        self.log_body_sends = False
        self.objects = {}       # (bucket, key) -> bytes
        self.object_meta = {}   # (bucket, key) -> dict (how it was created)
        self.mpus = {}          # upload id -> dict
        self.calls = []         # dicts: seq, op, params, outcome ...
        self._seq = itertools.count(1)
        self._ids = itertools.count(1)
        self.fault_plan = None      # fn(call dict) -> Fault | None
        self.stream_plan = None     # fn(call dict) -> StreamScript | None
        self.body_read_size = None  # bytes per body read (None = all at once)
        self.sources = {}           # name -> bytes used to locate bodies
        self.inflight = 0
        self.get_attempts = {}      # (key, range) -> count

    # -- helpers -----------------------------------------------------------
    def put(self, bucket, key, data):
        self.objects[(bucket, key)] = data

    def register_source(self, name, data):
        self.sources[name] = data

    def _locate(self, body, prefer=None):
        names = list(self.sources)
        if prefer in self.sources:
            names.remove(prefer)
            names.insert(0, prefer)
        for name in names:
            src = self.sources[name]
            loc = locate(src, body)
            if loc is not None:
                return {'src': name, 'start': loc[0], 'len': loc[1]}
        return {'src': 'garbage', 'start': -1, 'len': len(body)}

    # -- the before-send handler --------------------------------------------
    def handle(self, request, event_name, **kw):
        op = event_name.rsplit('.', 1)[-1]
        info = getattr(_tls, 'params', None) or {}
        params = info.get('params', {}) if info.get('op') == op else {}
        attempt = info.get('attempt', 0) + 1
        if info.get('op') == op:
            info['attempt'] = attempt
        seq = next(self._seq)
        call = {
            'seq': seq, 'op': op, 'attempt': attempt,
            'params': {k: v for k, v in params.items() if k != 'Body'},
            'bucket': params.get('Bucket'), 'key': params.get('Key'),
        }
        for k in ('UploadId', 'PartNumber', 'Range', 'CopySourceRange'):
            if k in params:
                call[k] = params[k]
        self.calls.append(call)
        self.inflight += 1
        ev = {k: call[k] for k in call if k not in ('params',)}
        ev['xfer'] = op in TRANSFER_OPS
        self.emit('S3Begin', **ev)
        outcome = 'ok'
        extra = {}
        try:
            self.point('s3-begin')
            if self.latency_plan:
                self.latency_plan(call, 'begin')     # slow to reach the service
            fault = self.fault_plan(call) if self.fault_plan else None
            if op == 'CompleteMultipartUpload':
                extra = {'parts': self._listing(params)[1]}
            if fault is not None and not fault.after:
                outcome = f'fault:{fault.kind}'
                call['fault'] = fault
                return self._fault_response(request, fault, call)
            try:
                resp, extra2 = self._apply(op, request, params, call)
                extra.update(extra2)
            except _S3Error as e:
                outcome = f'err:{e.code}'
                return self._error(request, e.status, e.code)
            if self.latency_plan:
                self.latency_plan(call, 'end')       # took effect, response is slow
            if fault is not None:
                outcome = f'fault-after:{fault.kind}'
                call['fault'] = fault
                return self._fault_response(request, fault, call)
            return resp
        except BaseException as e:
            if outcome == 'ok':
                outcome = 'body-error:' + type(e).__name__
            raise
        finally:
            self.inflight -= 1
            call['outcome'] = outcome
            call.update(extra)
            self.emit('S3End', seq=seq, op=op, outcome=outcome,
                      xfer=op in TRANSFER_OPS, **extra)
            if not outcome.startswith('body-error'):
                self.point('s3-end')

    # -- responses ------------------------------------------------------------
    def _resp(self, request, status=200, headers=None, body=b'', raw=None):
        h = {'x-amz-request-id': 'REQ', 'x-amz-id-2': 'ID2'}
        if headers:
            h.update(headers)
        if raw is None:
            raw = _StaticRaw(body)
            h.setdefault('Content-Length', str(len(body)))
        return AWSResponse(request.url, status, h, raw)

    def _error(self, request, status, code, msg='injected'):
        body = (
            f'<?xml version="1.0" encoding="UTF-8"?><Error><Code>{code}</Code>'
            f'<Message>{escape(msg)}</Message><RequestId>REQ</RequestId>'
            '</Error>').encode()
        return self._resp(request, status, {'Content-Type': 'application/xml'},
                          body)

    def _fault_response(self, request, fault, call):
        tag = fault.tag or f"F{call['seq']}"
        if fault.kind == 'client':
            return self._error(request, 403, 'AccessDenied', tag)
        if fault.kind == 'server':
            return self._error(request, 500, 'InternalError', tag)
        if fault.kind == 'readtimeout':
            from botocore.exceptions import ReadTimeoutError
            raise ReadTimeoutError(endpoint_url=request.url)
        from botocore.exceptions import ConnectionClosedError
        raise ConnectionClosedError(endpoint_url=request.url)

    # -- request body -----------------------------------------------------------
    def _read_body(self, request):
        body = request.body
        if body is None:
            return b''
        if isinstance(body, (bytes, bytearray)):
            return bytes(body)
        if isinstance(body, str):
            return body.encode()
        chunks = []
        n = self.body_read_size
        te = ''
        for k, v in request.headers.items():
            if k.lower() == 'content-encoding':
                te = v if isinstance(v, str) else v.decode()
        while True:
            c = body.read(n) if n else body.read()
            if not c:
                break
            chunks.append(c)
            if n:
                if self.log_body_sends:
                    self.emit('BodySend', len=len(c))
                self.point('body-send')
            else:
                # a second read to observe EOF like http.client does
                pass
        data = b''.join(chunks)
        if 'aws-chunked' in te:
            data = _decode_aws_chunked(data)
        return data

    # -- operations ---------------------------------------------------------------
    def _apply(self, op, request, p, call):
        fn = getattr(self, '_op_' + op, None)
        if fn is None:
            raise _S3Error(501, 'NotImplemented')
        return fn(request, p, call)

    def _obj(self, bucket, key):
        try:
            return self.objects[(bucket, key)]
        except KeyError:
            raise _S3Error(404, 'NoSuchKey')

    def _op_HeadObject(self, request, p, call):
        data = self._obj(p['Bucket'], p['Key'])
        return self._resp(request, 200, {
            'Content-Length': str(len(data)), 'ETag': '"head"',
        }, raw=_StaticRaw(b'')), {'size': len(data)}

    def _op_GetObject(self, request, p, call):
        data = self._obj(p['Bucket'], p['Key'])
        rng = p.get('Range')
        start, end = 0, len(data) - 1
        status = 200
        headers = {'ETag': '"get"'}
        if rng:
            m = re.match(r'bytes=(\d+)-(\d*)$', rng)
            if not m:
                raise _S3Error(400, 'InvalidArgument')
            start = int(m.group(1))
            if m.group(2):
                end = min(int(m.group(2)), len(data) - 1)
            if start >= len(data) and len(data) > 0:
                raise _S3Error(416, 'InvalidRange')
            status = 206
            headers['Content-Range'] = f'bytes {start}-{end}/{len(data)}'
        body = data[start:end + 1]
        headers['Content-Length'] = str(len(body))
        k = (p['Key'], rng)
        self.get_attempts[k] = self.get_attempts.get(k, 0) + 1
        call['get_attempt'] = self.get_attempts[k]
        script = self.stream_plan(call) if self.stream_plan else None
        raw = ScriptedRaw(self, call['seq'], body, start, script)
        call['raw'] = raw
        return self._resp(request, status, headers, raw=raw), {
            'start': start, 'len': len(body),
            'get_attempt': call['get_attempt']}

    def _op_PutObject(self, request, p, call):
        data = self._read_body(request)
        loc = self._locate(data, p['Key'])
        self.objects[(p['Bucket'], p['Key'])] = data
        self.object_meta[(p['Bucket'], p['Key'])] = {'via': 'put', 'seq': call['seq']}
        h = {'ETag': f'"put-{call["seq"]}"'}
        if p.get('ChecksumAlgorithm', '').upper() == 'CRC32':
            h['x-amz-checksum-crc32'] = crc32_b64(data)
        return self._resp(request, 200, h), {'body': loc}

    def _op_DeleteObject(self, request, p, call):
        self.objects.pop((p['Bucket'], p['Key']), None)
        return self._resp(request, 204), {}

    def _copy_source(self, p):
        cs = p['CopySource']
        if isinstance(cs, dict):
            return cs['Bucket'], cs['Key']
        b, _, k = cs.partition('/')
        return b, urllib.parse.unquote(k.split('?')[0])

    def _op_CopyObject(self, request, p, call):
        sb, sk = self._copy_source(p)
        data = self._obj(sb, sk)
        self.objects[(p['Bucket'], p['Key'])] = data
        self.object_meta[(p['Bucket'], p['Key'])] = {'via': 'copy', 'seq': call['seq']}
        body = (b'<?xml version="1.0" encoding="UTF-8"?><CopyObjectResult>'
                b'<ETag>"copy"</ETag></CopyObjectResult>')
        return self._resp(request, 200, {}, body), {
            'body': {'src': sk, 'start': 0, 'len': len(data)}}

    def _op_CreateMultipartUpload(self, request, p, call):
        uid = f'mpu-{next(self._ids)}'
        self.mpus[uid] = {
            'bucket': p['Bucket'], 'key': p['Key'], 'parts': {},
            'state': 'open', 'algo': p.get('ChecksumAlgorithm'),
            'log': [],
        }
        body = (
            '<?xml version="1.0" encoding="UTF-8"?>'
            '<InitiateMultipartUploadResult><Bucket>%s</Bucket><Key>%s</Key>'
            '<UploadId>%s</UploadId></InitiateMultipartUploadResult>'
            % (escape(p['Bucket']), escape(p['Key']), uid)).encode()
        return self._resp(request, 200, {}, body), {'UploadId': uid}

    def _mpu(self, p, need_open=True):
        m = self.mpus.get(p.get('UploadId'))
        if m is None or (need_open and m['state'] != 'open'):
            raise _S3Error(404, 'NoSuchUpload')
        return m

    def _op_UploadPart(self, request, p, call):
        # the body is consumed even if the upload is gone, as a real
        # connection would
        data = self._read_body(request)
        loc = self._locate(data, p['Key'])
        m = self._mpu(p)
        n = p['PartNumber']
        etag = f'"p{n}-{call["seq"]}"'
        part = {'data': data, 'etag': etag, 'loc': loc}
        h = {'ETag': etag}
        if p.get('ChecksumAlgorithm', '').upper() == 'CRC32':
            part['crc32'] = crc32_b64(data)
            h['x-amz-checksum-crc32'] = part['crc32']
        m['parts'][n] = part
        ex = {'body': loc, 'etag': etag}
        if 'crc32' in part:
            ex['crc32'] = part['crc32']
        return self._resp(request, 200, h), ex

    def _op_UploadPartCopy(self, request, p, call):
        sb, sk = self._copy_source(p)
        src = self._obj(sb, sk)
        m = self._mpu(p)
        rng = p.get('CopySourceRange')
        start, end = 0, len(src) - 1
        if rng:
            mm = re.match(r'bytes=(\d+)-(\d+)$', rng)
            if not mm:
                raise _S3Error(400, 'InvalidArgument')
            start, end = int(mm.group(1)), int(mm.group(2))
            if end >= len(src) or start > end:
                raise _S3Error(400, 'InvalidRange')
        data = src[start:end + 1]
        n = p['PartNumber']
        etag = f'"c{n}-{call["seq"]}"'
        part = {'data': data, 'etag': etag,
                'loc': {'src': sk, 'start': start, 'len': len(data)}}
        x = f'<ETag>{escape(etag)}</ETag>'
        if (m.get('algo') or '').upper() == 'CRC32':
            part['crc32'] = crc32_b64(data)
            x += f'<ChecksumCRC32>{part["crc32"]}</ChecksumCRC32>'
        m['parts'][n] = part
        body = ('<?xml version="1.0" encoding="UTF-8"?><CopyPartResult>'
                + x + '</CopyPartResult>').encode()
        ex = {'body': part['loc'], 'etag': etag}
        if 'crc32' in part:
            ex['crc32'] = part['crc32']
        return self._resp(request, 200, {}, body), ex

    def _listing(self, p):
        """What a Complete request lists, compared with what the service holds
        (logged for every Complete request, applied or not)."""
        m = self.mpus.get(p.get('UploadId'))
        listed = p.get('MultipartUpload', {}).get('Parts', [])
        plist = []
        for ent in listed:
            n = ent.get('PartNumber')
            part = m['parts'].get(n) if m else None
            rec = {'n': n, 'etag_ok': False, 'crc_ok': True, 'known': False}
            if part is not None:
                rec['known'] = True
                rec['etag_ok'] = ent.get('ETag') == part['etag']
                if 'crc32' in part:
                    rec['crc_ok'] = ent.get('ChecksumCRC32') == part['crc32']
                rec['loc'] = part['loc']
            plist.append(rec)
        return listed, plist

    def _op_CompleteMultipartUpload(self, request, p, call):
        listed, plist = self._listing(p)
        m = self.mpus.get(p.get('UploadId'))
        if m is not None and m['state'] == 'completed' \
                and m.get('completed_with') == [e.get('PartNumber') for e in listed]:
            # S3 answers a repeated Complete of a completed upload again
            # with success (the client may have retried after a lost reply)
            body = m['complete_body']
            return self._resp(request, 200, {}, body), {'parts': plist,
                                                         'repeat': True}
        m = self._mpu(p)
        nums = [e.get('PartNumber') for e in listed]
        if not all(r['known'] for r in plist) or nums != sorted(nums) \
                or len(set(nums)) != len(nums) or not listed:
            raise _S3Error(400, 'InvalidPart')
        if not all(r['etag_ok'] for r in plist):
            raise _S3Error(400, 'InvalidPart')
        data = b''.join(m['parts'][n]['data'] for n in nums)
        m['state'] = 'completed'
        m['completed'] = m.get('completed', 0) + 1
        m['completed_with'] = nums
        self.objects[(m['bucket'], m['key'])] = data
        self.object_meta[(m['bucket'], m['key'])] = {
            'via': 'mpu', 'seq': call['seq'], 'parts': plist}
        body = ('<?xml version="1.0" encoding="UTF-8"?>'
                '<CompleteMultipartUploadResult><Location>x</Location>'
                '<Bucket>%s</Bucket><Key>%s</Key><ETag>"mpu"</ETag>'
                '</CompleteMultipartUploadResult>' % (
                    escape(m['bucket']), escape(m['key']))).encode()
        m['complete_body'] = body
        return self._resp(request, 200, {}, body), {'parts': plist}

    def _op_AbortMultipartUpload(self, request, p, call):
        m = self._mpu(p, need_open=False)
        if m['state'] == 'completed':
            raise _S3Error(404, 'NoSuchUpload')
        m['state'] = 'aborted'
        return self._resp(request, 204), {}


class _S3Error(Exception):
    def __init__(self, status, code):
        self.status = status
        self.code = code


def _decode_aws_chunked(data):
    out = []
    i = 0
    while i < len(data):
        j = data.index(b'\r\n', i)
        size = int(data[i:j].split(b';')[0], 16)
        if size == 0:
            break
        out.append(data[j + 2:j + 2 + size])
        i = j + 2 + size + 2
    return b''.join(out)


class _NoSleepTime:
    def __init__(self):
        import time as _t
        self._t = _t

    def sleep(self, s):
        return None

    def __getattr__(self, n):
        return getattr(self._t, n)


_CLIENTS = {}


class _Holder:
    svc = None
    on_params = None


def make_client(svc, retries=1, checksum='when_required', on_params=None):
    """A real botocore client whose transport is ``svc``.

    retries: total attempts botocore makes per API call (1 = no retry).
    on_params: optional fn(op, params) called with the keyword arguments of
        every API call before botocore touches them.
    Clients are cached per configuration (creation costs ~0.1 s); the cached
    client is re-pointed to the service of the current run.
    """
    import botocore.endpoint
    if not isinstance(botocore.endpoint.time, _NoSleepTime):
        botocore.endpoint.time = _NoSleepTime()
    key = (retries, checksum)
    if key in _CLIENTS:
        client, holder = _CLIENTS[key]
        holder.svc = svc
        holder.on_params = on_params
        return client
    holder = _Holder()
    holder.svc = svc
    holder.on_params = on_params
    session = botocore.session.Session()
    session.set_credentials('AKIDEXAMPLE', 'SECRET')
    cfg = Config(
        region_name='us-east-1',
        retries={'total_max_attempts': retries, 'mode': 'legacy'},
        request_checksum_calculation=checksum,
        response_checksum_validation='when_required',
        s3={'addressing_style': 'path'},
        parameter_validation=True,
    )
    client = session.create_client('s3', config=cfg)

    def provide(params, model, context=None, **kw):
        _tls.params = {'op': model.name, 'params': dict(params), 'attempt': 0}
        if holder.on_params is not None:
            holder.on_params(model.name, dict(params))

    def before_send(request, event_name, **kw):
        return holder.svc.handle(request, event_name, **kw)

    client.meta.events.register_first('provide-client-params.s3.*', provide)
    client.meta.events.register('before-send.s3.*', before_send)
    _CLIENTS[key] = (client, holder)
    return client
