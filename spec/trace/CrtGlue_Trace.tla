---------------------------- MODULE CrtGlue_Trace ----------------------------
(***************************************************************************)
(* Trace validation for CrtGlue.tla: the real CRTTransferManager (imported *)
(* against a stub awscrt) runs under the deterministic scheduler with a    *)
(* stub CRT client whose requests finish in scheduler-chosen order.  Every *)
(* permit acquire/release (with the semaphore value), construction         *)
(* outcome, request completion, rename/remove, subscriber on_done and      *)
(* callbacks-complete event must be the corresponding specification        *)
(* action; the C20 clauses are invariants of the trace spec.               *)
(***************************************************************************)
EXTENDS CrtGlue, Json, IOUtils, TLCExt

Traces == ndJsonDeserialize(IOEnv.TRACE_FILE)
VARIABLES tid, l, rdest
tvars == <<vars, tid, l, rdest>>
Ev == Traces[tid].ev[l]
More == l <= Len(Traces[tid].ev)

TInit == /\ Init /\ tid \in 1..Len(Traces) /\ l = 1 /\ TLCSet(tid, 0)
         /\ rdest = [t \in T |-> [dest |-> "unknown", temps |-> 0]]

Step ==
    LET e == Ev IN
    CASE e.k = "acquire" -> Acquire /\ permits' = e.value /\ e.t = unext
      [] e.k = "construct" -> e.t = unext /\ (IF e.ok THEN MakeRequest ELSE ConstructFail)
      [] e.k = "inline_done" -> InlineDone /\ e.t = unext
      [] e.k = "cancel" -> UserCancel(e.t)
      [] e.k = "shutdown_start" -> ShutdownStart
      [] e.k = "shutdown_end" -> ShutdownReturn
      [] e.k = "finish" -> CrtFinish(e.t, e.outcome)
      [] e.k = "before" -> CbBefore(e.t, e.ok)
      [] e.k = "subs" -> CbSubs(e.t)
      [] e.k = "release" -> CbRelease(e.t) /\ permits' = e.value
      [] e.k = "complete" -> CbComplete(e.t)
      [] OTHER -> FALSE

TNext == /\ More /\ l' = l + 1 /\ UNCHANGED tid
         /\ IF Ev.k = "snap"
            THEN rdest' = [rdest EXCEPT ![Ev.t] = [dest |-> Ev.dest, temps |-> Ev.temps]]
                 /\ UNCHANGED vars
            ELSE Step /\ UNCHANGED rdest
TSpec == TInit /\ [][TNext]_tvars

\* the real directory agrees with the specification
R_NoTempWhenComplete ==
    \A t \in T : (complete[t] /\ Kinds[t] = "download_path") =>
        /\ rdest[t].temps = 0
        /\ ((rdest[t].dest = "complete") <=> (dest[t] = "complete"))
R_DestNeverPartial == \A t \in T : rdest[t].dest # "partial"

Progress == TLCSet(tid, IF TLCGet(tid) < l THEN l ELSE TLCGet(tid))
Final ==
    \A i \in 1..Len(Traces) :
        PrintT("CRTTRACE " \o ToJson([id |-> Traces[i].id, reached |-> TLCGet(i), len |-> Len(Traces[i].ev)]))
=============================================================================
