----------------------------- MODULE Rate_Trace -----------------------------
(***************************************************************************)
(* End-to-end facet of C13: the bytes a TransferManager with max_bandwidth *)
(* moves in virtual time.  A trace is the sequence of body / stream reads  *)
(* of one run: w = virtual time in milliseconds, c = cumulative KiB moved  *)
(* after the read.  The window clause of the property is evaluated for     *)
(* every pair of points:                                                   *)
(*      bytes moved in [w_i, w_j]  <=  1.25 * B * (w_j - w_i) + Burst      *)
(* (B in KiB/s, Burst in KiB: a few read-thresholds per active stream),    *)
(* and a throttled transfer must not be starved: it ends within            *)
(* MaxMs of virtual time.                                                  *)
(***************************************************************************)
EXTENDS Naturals, Integers, Sequences, TLC, Json, IOUtils, TLCExt

Traces == ndJsonDeserialize(IOEnv.TRACE_FILE)
VARIABLES i, bad
vars == <<i, bad>>

WindowOK(t) ==
    \A a \in 1..Len(t.pts) : \A b \in a..Len(t.pts) :
        4 * 1000 * (t.pts[b].c - (IF a = 1 THEN 0 ELSE t.pts[a - 1].c))
            <= 5 * t.B * (t.pts[b].w - t.pts[a].w) + 4 * 1000 * t.burst
NotStarved(t) == t.pts = <<>> \/ t.pts[Len(t.pts)].w <= t.maxms
Moved(t) == t.pts # <<>> /\ t.pts[Len(t.pts)].c >= t.total

Verdict(t) ==
    (IF WindowOK(t) THEN {} ELSE {"C13_WindowRate125"})
    \cup (IF NotStarved(t) THEN {} ELSE {"C13_NotStarved"})
    \cup (IF Moved(t) THEN {} ELSE {"C13_AllBytesObserved"})

Init == i = 1 /\ bad = <<>>
Next ==
    /\ i <= Len(Traces) /\ i' = i + 1
    /\ bad' = IF Verdict(Traces[i]) = {} THEN bad
              ELSE Append(bad, [id |-> Traces[i].id, viol |-> Verdict(Traces[i])])
Spec == Init /\ [][Next]_vars
Report == (i = Len(Traces) + 1) => PrintT("RATE " \o ToJson([n |-> Len(Traces), bad |-> bad]))
=============================================================================
