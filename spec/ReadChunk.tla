----------------------------- MODULE ReadChunk -----------------------------
(***************************************************************************)
(* The progress-accounting component of uploads (property C09):            *)
(* s3transfer.utils.ReadFileChunk, the body object of every PutObject /    *)
(* UploadPart request that is read from a file.  The HTTP layer reads it,  *)
(* rewinds it (seek) when a request is retried or redirected, and the      *)
(* chunk reports every movement to the progress callbacks: a read of k     *)
(* bytes reports +k, a seek reports the (possibly negative) difference of  *)
(* the positions *bounded to the chunk*, so that at any time               *)
(*                                                                         *)
(*       bytes reported so far  =  bytes of this chunk currently sent      *)
(*                                                                         *)
(* whatever the sequence of reads, rewinds and partial re-reads was.  The  *)
(* manager switches reporting off (signal_not_transferring) while botocore *)
(* only hashes the body and on again when it is sent.                      *)
(*                                                                         *)
(* One action per public method; `pos` is the logical position inside the  *)
(* chunk (it may lie beyond the chunk after a seek), `rep` the net sum of  *)
(* everything reported.  Bound to the code by replaying every transition   *)
(* TLC explores into the real class (harness/checks/c09_chunk.py).         *)
(***************************************************************************)
EXTENDS Integers, Sequences, TLC, Json

CONSTANTS Req,       \* requested chunk size
          Start,     \* first byte of the chunk in the file
          FileLen,   \* length of the file
          MaxRep     \* bound on |rep| (model bound only)

Min(a, b) == IF a < b THEN a ELSE b
Max(a, b) == IF a > b THEN a ELSE b
S == Max(Min(FileLen - Start, Req), 0)          \* _calculate_file_size
B(p) == Max(Min(p, S), 0)                        \* a position bounded to the chunk
None == -1

VARIABLES pos, en, rep, allEn, last
vars == <<pos, en, rep, allEn, last>>
view == <<pos, en, rep, allEn>>

Op(name, a, w, ret, cb) == [op |-> name, a |-> a, w |-> w, ret |-> ret, cb |-> cb]

Init ==
    /\ pos = 0 /\ rep = 0
    /\ en \in BOOLEAN /\ allEn = en
    /\ last = Op("init", 0, 0, 0, <<>>)

\* the callbacks are only invoked for a non-zero amount
Report(amount) == IF en /\ amount # 0 THEN <<amount>> ELSE <<>>

\* read(n) / read(): never beyond the end of the chunk
Read(n) ==
    LET left == Max(S - pos, 0)
        k == IF n = None THEN left ELSE Min(left, n)
    IN /\ pos' = pos + k
       /\ rep' = IF en THEN rep + k ELSE rep
       /\ last' = Op("read", n, 0, k, Report(k))
       /\ UNCHANGED <<en, allEn>>

\* seek(w, whence): relative to the chunk; the report is the bounded difference
Seek(w, whence) ==
    LET rel == w + (IF whence = 1 THEN pos ELSE IF whence = 2 THEN S ELSE 0)
        amount == B(rel) - B(pos)
    IN /\ pos' = Max(rel, 0)
       /\ rep' = IF en THEN rep + amount ELSE rep
       /\ last' = Op("seek", w, whence, 0, Report(amount))
       /\ UNCHANGED <<en, allEn>>

\* any other whence: ValueError, nothing changes, nothing is reported
BadSeek(w) ==
    /\ last' = Op("seek", w, 3, "ValueError", <<>>)
    /\ UNCHANGED <<pos, en, rep, allEn>>

Enable ==        \* signal_transferring / enable_callback
    /\ en' = TRUE /\ last' = Op("enable", 0, 0, 0, <<>>)
    /\ UNCHANGED <<pos, rep, allEn>>
Disable ==       \* signal_not_transferring / disable_callback
    /\ en' = FALSE /\ allEn' = FALSE /\ last' = Op("disable", 0, 0, 0, <<>>)
    /\ UNCHANGED <<pos, rep>>

Next ==
    \/ \E n \in {None} \cup (0..S + 1) : Read(n)
    \/ \E w \in -2..S + 2, whence \in 0..2 : Seek(w, whence)
    \/ BadSeek(0)
    \/ Enable \/ Disable

Spec == Init /\ [][Next]_vars

Bound == pos <= S + 3 /\ rep <= MaxRep /\ -rep <= MaxRep

\* ------------------------------------------------------------- properties
\* while reporting stays on, reported bytes move exactly with the bounded position
C09_ReportedTracksPosition ==
    [][(en /\ en') => (rep' - B(pos') = rep - B(pos))]_vars
\* nothing is reported while reporting is off
C09_SilentWhileDisabled == [][(rep' # rep) => en]_vars
\* a body whose reporting was never switched off has reported exactly what is
\* currently sent of it - in particular never more than the chunk, however often
\* it was rewound and re-read (the retry case of C09)
C09_NeverDoubleCounts == allEn => (rep = B(pos) /\ rep >= 0 /\ rep <= S)
\* a read never leaves the chunk
C09_ReadStaysInChunk == [][(last'.op = "read") => (pos' <= Max(pos, S) /\ last'.ret <= Max(S - pos, 0))]_vars
\* a retried body ends where the first attempt ended: full read, rewind, full read
\* again reports S in total (consequence of the above; kept as its own invariant
\* because it is the sentence users read)
C09_FullyReadReportsSize == (allEn /\ pos = S) => rep = S

\* every transition as JSON (spec -> code replay)
St(p, e, r) == [pos |-> p, en |-> e, rep |-> r]
DumpEdge ==
    PrintT("EDGE " \o ToJson([from |-> St(pos, en, rep), to |-> St(pos', en', rep'),
                              op |-> last']))
=============================================================================
