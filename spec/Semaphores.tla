----------------------------- MODULE Semaphores -----------------------------
(***************************************************************************)
(* s3transfer.utils.SlidingWindowSemaphore (and, with one tag and in-order *)
(* release, TaskSemaphore).  One action per critical section of the code:  *)
(* everything between condition.acquire() and condition.release()/wait()   *)
(* is one atomic step.                                                     *)
(*                                                                         *)
(*  acquire(tag, blocking):  Acquire(t, tag, blocking)                     *)
(*      count = 0, ~blocking  -> raises NoResourcesAvailable, no change    *)
(*      count = 0, blocking   -> condition.wait(): t joins the waiter FIFO *)
(*      count > 0             -> token nextSeq[tag] granted                *)
(*  after a notify the waiter re-acquires the lock and re-tests count:     *)
(*      Wake(t)                                                            *)
(*  release(tag, token):     Release(t, tag, token) with the three         *)
(*      branches of the code (lowest / pending / ValueError).              *)
(*      The lowest-branch additionally requires tok < nextSeq[tag]: a      *)
(*      never-issued token must be rejected (defect D9, repaired in /repo).*)
(***************************************************************************)
EXTENDS Naturals, Integers, Sequences, FiniteSets, TLC

CONSTANTS Cap,        \* configured count
          Tags,       \* set of tag names (strings)
          Threads,    \* acquiring threads (strings); they also release
          Releasers,  \* threads that only release (task-done callbacks)
          MaxTok      \* bound on tokens issued per tag (model bound only)

VARIABLES count,      \* free capacity (self._count)
          nextSeq,    \* [tag -> next token]; tag is "known" iff in DOMAIN
          lowest,     \* [tag -> lowest unreleased token]
          pending,    \* [tag -> sequence of tokens released out of order, sorted descending]
          waiters,    \* FIFO of threads inside condition.wait()
          notified,   \* set of threads notified but not yet running again
          want,       \* [thread -> tag it is blocked for] (partial)
          last        \* last operation and its result (for conformance)

vars == <<count, nextSeq, lowest, pending, waiters, notified, want, last>>

Known == DOMAIN nextSeq

Init ==
    /\ count = Cap
    /\ nextSeq = <<>>            \* empty function
    /\ lowest = <<>>
    /\ pending = <<>>
    /\ waiters = <<>>
    /\ notified = {}
    /\ want = <<>>
    /\ last = [op |-> "init", th |-> "", tag |-> "", tok |-> -1, res |-> "ok"]

\* ---------------------------------------------------------------- helpers
Seq0(f, tag) == IF tag \in DOMAIN f THEN f[tag] ELSE 0
Put(f, k, v) == [x \in DOMAIN f \cup {k} |-> IF x = k THEN v ELSE f[x]]
Drop(f, k) == [x \in DOMAIN f \ {k} |-> f[x]]
Busy(t) == t \in DOMAIN want

\* tokens issued and not yet released at all
Held(tag) ==
    IF tag \notin Known THEN {}
    ELSE {k \in lowest[tag]..(nextSeq[tag] - 1) :
            \A i \in 1..Len(pending[tag]) : pending[tag][i] # k}

\* descending insert (the code appends then sorts reverse)
RECURSIVE InsDesc(_, _)
InsDesc(s, k) ==
    IF s = <<>> THEN <<k>>
    ELSE IF k >= Head(s) THEN <<k>> \o s
    ELSE <<Head(s)>> \o InsDesc(Tail(s), k)

Last(s) == s[Len(s)]
Front(s) == SubSeq(s, 1, Len(s) - 1)

\* the while-loop that drains pending after the lowest token was released
RECURSIVE Drain(_, _, _)
Drain(low, q, c) ==
    IF q # <<>> /\ Last(q) = low
    THEN Drain(low + 1, Front(q), c + 1)
    ELSE [low |-> low, q |-> q, c |-> c]

Grant(t, tag, opname) ==
    LET s == Seq0(nextSeq, tag) IN
    /\ nextSeq' = Put(nextSeq, tag, s + 1)
    /\ lowest' = IF s = 0 THEN Put(lowest, tag, 0) ELSE lowest
    /\ pending' = IF tag \in DOMAIN pending THEN pending ELSE Put(pending, tag, <<>>)
    /\ count' = count - 1
    /\ last' = [op |-> opname, th |-> t, tag |-> tag, tok |-> s, res |-> "token"]

\* ---------------------------------------------------------------- actions
AcquireNB(t, tag) ==
    /\ ~Busy(t)
    /\ Seq0(nextSeq, tag) < MaxTok
    /\ IF count = 0
       THEN /\ last' = [op |-> "acquire_nb", th |-> t, tag |-> tag, tok |-> -1,
                         res |-> "NoResourcesAvailable"]
            /\ UNCHANGED <<count, nextSeq, lowest, pending>>
       ELSE Grant(t, tag, "acquire_nb")
    /\ UNCHANGED <<waiters, notified, want>>

AcquireB(t, tag) ==
    /\ ~Busy(t)
    /\ Seq0(nextSeq, tag) + Cardinality({u \in DOMAIN want : want[u] = tag}) < MaxTok
    /\ IF count = 0
       THEN /\ waiters' = Append(waiters, t)
            /\ want' = Put(want, t, tag)
            /\ last' = [op |-> "acquire", th |-> t, tag |-> tag, tok |-> -1,
                        res |-> "wait"]
            /\ UNCHANGED <<count, nextSeq, lowest, pending, notified>>
       ELSE /\ Grant(t, tag, "acquire")
            /\ UNCHANGED <<waiters, notified, want>>

\* a notified thread runs again: ``while self._count == 0: wait()``
Wake(t) ==
    /\ t \in notified
    /\ notified' = notified \ {t}
    /\ IF count = 0
       THEN /\ waiters' = Append(waiters, t)
            /\ last' = [op |-> "wake", th |-> t, tag |-> want[t], tok |-> -1,
                        res |-> "wait"]
            /\ UNCHANGED <<count, nextSeq, lowest, pending, want>>
       ELSE /\ Grant(t, want[t], "wake")
            /\ want' = Drop(want, t)
            /\ UNCHANGED waiters

\* condition.notify(): the longest waiting thread is woken
NotifyOne ==
    IF waiters = <<>> THEN /\ UNCHANGED <<waiters, notified>>
    ELSE /\ waiters' = Tail(waiters)
         /\ notified' = notified \cup {Head(waiters)}

Release(t, tag, tok) ==
    /\ ~Busy(t)
    /\ IF tag \notin Known
       THEN /\ last' = [op |-> "release", th |-> t, tag |-> tag, tok |-> tok,
                         res |-> "ValueError"]
            /\ UNCHANGED <<count, nextSeq, lowest, pending, waiters, notified>>
       ELSE IF lowest[tag] = tok /\ tok < nextSeq[tag]
       THEN LET d == Drain(tok + 1, pending[tag], count + 1) IN
            /\ lowest' = [lowest EXCEPT ![tag] = d.low]
            /\ pending' = [pending EXCEPT ![tag] = d.q]
            /\ count' = d.c
            /\ NotifyOne
            /\ last' = [op |-> "release", th |-> t, tag |-> tag, tok |-> tok,
                        res |-> "ok"]
            /\ UNCHANGED nextSeq
       ELSE IF lowest[tag] < tok /\ tok < nextSeq[tag]
       THEN /\ pending' = [pending EXCEPT ![tag] = InsDesc(@, tok)]
            /\ last' = [op |-> "release", th |-> t, tag |-> tag, tok |-> tok,
                        res |-> "ok"]
            /\ UNCHANGED <<count, nextSeq, lowest, waiters, notified>>
       ELSE /\ last' = [op |-> "release", th |-> t, tag |-> tag, tok |-> tok,
                         res |-> "ValueError"]
            /\ UNCHANGED <<count, nextSeq, lowest, pending, waiters, notified>>
    /\ UNCHANGED want

\* Releases the property speaks about: a token that is held, a token that
\* was never issued, or an unknown tag (see DESIGN C12 "Interpretation").
ReleaseArgs(tag) ==
    Held(tag) \cup {Seq0(nextSeq, tag), Seq0(nextSeq, tag) + 1}

Next ==
    \/ \E t \in Threads, tag \in Tags : AcquireNB(t, tag) \/ AcquireB(t, tag)
    \/ \E t \in Threads : Wake(t)
    \/ \E t \in Threads \cup Releasers, tag \in Tags : \E tok \in ReleaseArgs(tag) : Release(t, tag, tok)

\* sequential sub-spec: only non-blocking acquires, one caller
NextSeqOnly ==
    \/ \E t \in Threads, tag \in Tags : AcquireNB(t, tag)
    \/ \E t \in Threads, tag \in Tags : \E tok \in ReleaseArgs(tag) : Release(t, tag, tok)

Spec == Init /\ [][Next]_vars
SpecSeq == Init /\ [][NextSeqOnly]_vars

\* ------------------------------------------------------------- properties
RECURSIVE SumOver(_, _)
SumOver(S, f) ==
    IF S = {} THEN 0
    ELSE LET x == CHOOSE x \in S : TRUE IN f[x] + SumOver(S \ {x}, f)

\* free capacity = configured count - sum over tags of (newest - lowest + 1)
C12_CapacityEquation ==
    count = Cap - SumOver(Known, [tag \in Known |-> nextSeq[tag] - lowest[tag]])

C12_CountInRange == count \in 0..Cap

\* tokens handed out are 0,1,2,... per tag in acquisition order
C12_TokensSequentialPerTag ==
    [][\A tag \in Tags :
         Seq0(nextSeq', tag) # Seq0(nextSeq, tag) =>
            /\ Seq0(nextSeq', tag) = Seq0(nextSeq, tag) + 1
            /\ last'.res = "token" /\ last'.tag = tag
            /\ last'.tok = Seq0(nextSeq, tag)]_vars

\* a non-blocking acquire at zero capacity raises instead of waiting
C12_NonBlockingRaisesAtZero ==
    [][(last'.op = "acquire_nb" /\ count = 0 /\ last' # last) =>
          (last'.res = "NoResourcesAvailable" /\ waiters' = waiters)]_vars

\* rejected releases change nothing
C12_BadReleaseRejectedUnchanged ==
    [][(last'.res = "ValueError") =>
          UNCHANGED <<count, nextSeq, lowest, pending, waiters, notified>>]_vars

\* out-of-order release frees capacity only once all lower tokens are released
C12_OutOfOrderFreesLater ==
    [][(last'.op = "release" /\ last'.res = "ok" /\ last' # last
          /\ last'.tag \in Known /\ last'.tok # lowest[last'.tag]) =>
          count' = count]_vars

\* pending only holds tokens above the lowest, descending
C12_PendingWellFormed ==
    \A tag \in Known :
        /\ \A i \in 1..Len(pending[tag]) :
              lowest[tag] < pending[tag][i] /\ pending[tag][i] < nextSeq[tag]
        /\ \A i \in 1..(Len(pending[tag]) - 1) : pending[tag][i] > pending[tag][i + 1]

\* waiting threads are exactly those in the FIFO or notified
C12_WaitersConsistent ==
    /\ DOMAIN want = {waiters[i] : i \in 1..Len(waiters)} \cup notified
    /\ \A i, j \in 1..Len(waiters) : i # j => waiters[i] # waiters[j]

\* ------------------------------------------------------------- liveness
\* Every issued token is eventually released; woken threads eventually run.
HeldPairs == {<<tag, k>> \in Tags \X (0..MaxTok) : k \in Held(tag)}

Fairness ==
    /\ \A t \in Threads : WF_vars(Wake(t))
    /\ \A tag \in Tags : \A k \in 0..MaxTok :
          WF_vars(\E t \in Releasers : k \in Held(tag) /\ Release(t, tag, k))

\* only the releases that the liveness statement is about (held tokens)
NextLive ==
    \/ \E t \in Threads, tag \in Tags : AcquireB(t, tag)
    \/ \E t \in Threads : Wake(t)
    \/ \E t \in Threads \cup Releasers, tag \in Tags : \E tok \in Held(tag) : Release(t, tag, tok)

SpecLive == Init /\ [][NextLive]_vars /\ Fairness

C12_NoAcquirerBlockedForever == \A t \in Threads : (t \in DOMAIN want) ~> (t \notin DOMAIN want)

\* at quiescence (nothing held, nobody waiting) the capacity is full again
C12_FullWhenIdle ==
    ((\A tag \in Tags : Held(tag) = {}) /\ DOMAIN want = {}) => count = Cap
=============================================================================
