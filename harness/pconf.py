"""Conformance alphabet for spec/trace/Pipeline_Trace.tla: projects the raw
events of one recorded execution (runner.run_scenario) onto the events that
have a named action in Pipeline.tla, tagged with the acting thread."""

SCOPE_KINDS = {'upload': 'upload', 'delete': 'delete'}


def thread(th):
    if th is None:
        return ''
    if th.startswith('submission-w'):
        return 'sub'
    return th


def geometry(sc, cfg):
    """(P, R, RQ, Kind, NeedHead, Src, UW) of a single-transfer scenario inside
    the model's scope, or None."""
    ts = sc['transfers']
    if len(ts) != 1:
        return None
    t = ts[0]
    kind = t.get('kind')
    uw = cfg['up_chunks']
    if kind == 'delete':
        return (0, cfg['R'], cfg['RQ'], 'delete', False, 'path', uw)
    head, src = False, 'path'
    if kind == 'copy':
        head = not any(s.get('provide_size') is not None for s in t.get('subs') or [])
    elif kind != 'upload':
        return None
    elif t.get('src', 'path') != 'path':
        src = 'stream'
    size, thr, chunk = t['size'], cfg['threshold'], cfg['chunk']
    if size < thr:
        if src == 'stream':
            return None        # single put from a file object: not modelled
        return (0, cfg['R'], cfg['RQ'], kind, head, src, uw)
    return (-(-size // chunk), cfg['R'], cfg['RQ'], kind, head, src, uw)


def dl_geometry(sc, cfg):
    """(N, R, RQ, IOQ, A, NeedHead, HasOld, Dest, W, Single) of one download
    (ranged, or below the threshold: Single) with one data read per part, or None."""
    ts = sc['transfers']
    if len(ts) != 1:
        return None
    t = ts[0]
    if t.get('kind') != 'download' or t.get('dst', 'path') not in (
            'path', 'seekable', 'nonseekable'):
        return None
    size, thr, chunk = t['size'], cfg['threshold'], cfg['chunk']
    single = size < thr
    if size == 0 or cfg['io_chunk'] < (size if single else chunk):
        return None
    provided = any(s.get('provide_size') is not None for s in t.get('subs') or [])
    return (1 if single else -(-size // chunk), cfg['R'], cfg['RQ'], cfg['IOQ'], cfg['attempts'],
            not provided, bool(t.get('old')), t.get('dst', 'path'), cfg['down_chunks'], single)


RETRYABLE = ('timeout', 'protocol', 'incomplete', 'socket', 'connreset')


def project(events, chunk=2):
    out = []
    cbq_fault = False
    wfault = False
    seq_rs = {}
    srcf = set()
    for e in events:
        k = e.get('e')
        th = thread(e.get('th'))
        if k in ('Call', 'Ret', 'ShutdownEnd'):
            out.append({'k': k, 'th': th})
        elif k == 'ResultEnd':
            exc = e.get('exc') or ''
            ek = '' if e.get('outcome') == 'ok' else (
                'cancel' if exc.startswith('cancel') else
                'inj' if exc.startswith('inj') else
                'retries' if exc.startswith('retries') else
                'stream-fatal' if exc.startswith(('stream', 'fatal')) else 's3')
            out.append({'k': k, 'th': th, 'oc': e.get('outcome'), 'ek': ek})
        elif k == 'ExecSubmit':
            if e['stage'] == 'submission':
                out.append({'k': 'USubmit', 'th': th})
            elif e['stage'] == 'request':
                out.append({'k': 'Submit', 'th': th, 'task': e['task'],
                            'inflight': e['inflight']})
            elif e['stage'] == 'io':
                out.append({'k': 'IoSubmit', 'th': th, 'task': e['task'],
                            'inflight': e['inflight']})
        elif k in ('TaskBegin', 'TaskEnd'):
            if e['stage'] == 'submission':
                out.append({'k': 'SubTake' if k == 'TaskBegin' else 'SubTaskEnd', 'th': th})
            elif e['stage'] == 'request':
                out.append({'k': k, 'th': th, 'task': e['task']})
            elif e['stage'] == 'io':
                out.append({'k': 'Io' + k, 'th': th, 'task': e['task']})
        elif k == 'BodyRead':
            out.append({'k': 'BodyRead', 'th': th, 'data': e['len'] > 0})
        elif k == 'BodyFault':
            out.append({'k': 'BodyFault', 'th': th, 'retryable': e['kind'] in RETRYABLE})
        elif k == 'FsOpen':
            out.append({'k': 'FsOpen', 'th': th})
        elif k in ('FsWriteBegin', 'DstWriteBegin'):
            part = e['off'] // chunk + 1 if e.get('off') is not None and e.get('off', -1) >= 0 else 0
            out.append({'k': 'FsWriteBegin', 'th': th, 'part': part})
        elif k in ('FsWriteEnd', 'DstWriteEnd'):
            out.append({'k': 'FsWriteEnd', 'th': th, 'ok': bool(e.get('ok'))})
        elif k == 'FsClose':
            out.append({'k': 'FsClose', 'th': th})
        elif k == 'FsRenameBegin':
            out.append({'k': 'FsRenameBegin', 'th': th})
        elif k == 'FaultInjected' and e.get('on') == 'fs_rename':
            out.append({'k': 'FsRenameFault', 'th': th})
        elif k == 'FsRename':
            out.append({'k': 'FsRename', 'th': th})
        elif k == 'FsRemove':
            out.append({'k': 'FsRemove', 'th': th, 'ok': bool(e.get('existed'))})
        elif k == 'Status':
            out.append({'k': 'Status', 'th': th, 'st': e.get('status')})
        elif k == 'FaultInjected' and e.get('on') == 'on_queued':
            cbq_fault = True
        elif k == 'FaultInjected' and e.get('on') == 'src_read':
            if th == 'sub':
                out.append({'k': 'SrcFault', 'th': th})
            else:
                srcf.add(th)
        elif k in ('CbBegin', 'CbEnd') and e.get('cb') in ('queued', 'done'):
            r = {'k': k, 'th': th, 'cb': e['cb'], 'ok': True}
            if k == 'CbEnd' and e['cb'] == 'queued':
                r['ok'] = not cbq_fault
            out.append(r)
        elif k == 'S3Begin':
            part = e.get('PartNumber') or 0
            if e['op'] == 'GetObject':
                part = int(e['Range'].split('=')[1].split('-')[0]) // chunk + 1 \
                    if e.get('Range') else 1
            out.append({'k': k, 'th': th, 'op': e['op'], 'part': part})
        elif k == 'S3End':
            oc = e.get('outcome', 'ok')
            oc = 'ok' if oc == 'ok' else ('fault-after' if oc.startswith('fault-after') else
                                          'fault' if oc.startswith('fault') else
                                          'body-error' if oc.startswith('body-error') else oc)
            out.append({'k': k, 'th': th, 'op': e['op'], 'oc': oc,
                        'srcf': oc == 'body-error' and th in srcf})
            srcf.discard(th)
        elif k == 'SetResult':
            out.append({'k': k, 'th': th, 'st': e.get('status')})
        elif k == 'SetExc':
            out.append({'k': k, 'th': th, 'st': e.get('status')})
        elif k == 'CancelCall':
            out.append({'k': 'UCancelCall', 'th': th})
        elif k == 'CancelRet':
            out.append({'k': 'UCancelRet', 'th': th})
        elif k == 'CancelBegin':
            out.append({'k': 'CancelBegin', 'th': th})
        elif k == 'CancelEnd':
            out.append({'k': 'CancelEnd', 'th': th, 'st': e.get('status')})
        elif k == 'AnnounceBegin':
            out.append({'k': 'AnnBegin', 'th': th, 'st': e.get('status')})
        elif k == 'AnnounceEnd':
            out.append({'k': 'AnnEnd', 'th': th})
    # uniform records for TLC (every field present)
    for r in out:
        for f, d in (('st', ''), ('task', ''), ('op', ''), ('oc', ''), ('ek', ''),
                     ('cb', ''), ('ok', True), ('part', 0), ('inflight', 0),
                     ('data', False), ('retryable', False), ('srcf', False)):
            r.setdefault(f, d)
    return out
