---------------------------- MODULE MC_PartPlan ----------------------------
EXTENDS PartPlan, TLC
CONSTANTS MaxSize, MaxChunk
VARIABLES size, chunk
vars == <<size, chunk>>
Init == size \in -1..MaxSize /\ chunk \in 1..MaxChunk
Next == UNCHANGED vars
Spec == Init /\ [][Next]_vars

C14_RangesTile == size >= 0 => RangesTile(size, chunk)
C14_PartLensSum == size >= 0 => PartLensSum(size, chunk)
C14_PartNumbers1toN == size >= 0 => NumParts(size, chunk) * chunk >= size
                                  /\ (size > 0 => (NumParts(size, chunk) - 1) * chunk < size)
C14_AdjustedWithinLimits == AdjustedWithinLimits(chunk, size)
C14_ChangedOnlyIfRequired == ChangedOnlyIfRequired(chunk, size)
\* the adjusted size is the configured size doubled some number of times, clamped
C14_AdjustIsDoublingClamped ==
    \E k \in 0..6 : Adjust(chunk, size) = Clamp(chunk * (2 ^ k))
=============================================================================
