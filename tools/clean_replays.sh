#!/bin/sh
# remove replay files written by earlier runs
find /verif/replays -type f -name '*.json' -delete
