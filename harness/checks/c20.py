"""C20 - CRT manager glue: one permit per transfer, ordered completion, temp
cleanup.

1. TLC checks CrtGlue.tla (permits, construction failure, request outcomes in
   any order, callback composition before->subscribers->after, shutdown):
   safety invariants and liveness under fairness for Cap 1-2, 3 transfers.
2. code -> spec: the real CRTTransferManager (s3transfer.crt imported against
   a stub awscrt) runs under the deterministic scheduler with a stub CRT
   client whose requests succeed, fail, are cancelled or fail at construction
   and finish in scheduler-chosen order (more transfers than permits);
   every permit acquire/release (with the semaphore value), construction
   outcome, completion, rename/remove, subscriber on_done and
   callbacks-complete event must be the corresponding action of the spec and
   the C20 clauses are invariants of the trace spec (CrtGlue_Trace.tla).
"""

import copy
import json
import os
import random
import shutil
import tempfile
from concurrent.futures import ThreadPoolExecutor

import checklib
import pipeline
import tlc

INVS = '''INVARIANT C20_OnePermitPerTransferOnEveryPath
INVARIANT C20_PermitsInRange
INVARIANT C20_AtMostCapInFlight
INVARIANT C20_SubscribersBeforeCallbacksComplete
INVARIANT C20_RenameOnSuccessRemoveOnError
INVARIANT C20_ShutdownAfterAllDoneCallbacks
INVARIANT C20_PermitsRestoredAtQuiescence
'''
MC_CFG = '''SPECIFICATION FairSpec
CONSTANTS
  Cap = %(cap)d
  N = %(n)d
  Kinds <- MCKinds
  MayFailConstruction = TRUE
  MayCancel = TRUE
  MayFailRename = TRUE
  ShutdownCancel = %(sdc)s
''' + INVS + '''PROPERTY C20_EventuallyComplete
PROPERTY C20_ShutdownReturns
CHECK_DEADLOCK FALSE
'''
TRACE_CFG = '''SPECIFICATION TSpec
CONSTANTS
  Cap = %(cap)d
  N = %(n)d
  Kinds <- MCKinds
  MayFailConstruction = TRUE
  MayCancel = TRUE
  MayFailRename = TRUE
  ShutdownCancel = %(sdc)s
%(invs)sCONSTRAINT Progress
POSTCONDITION Final
CHECK_DEADLOCK FALSE
'''
MODULE = '''---- MODULE %s ----
EXTENDS %s
MCKinds == %s
====
'''


def kinds_fn(kinds):
    return ' @@ '.join(f'({i} :> "{k}")' for i, k in enumerate(kinds))


def _run(job):
    import crtglue
    sc, chs, jid = job
    try:
        res = crtglue.run(sc, pipeline.make_chooser(chs))
    except Exception:
        import traceback
        return {'jid': jid, 'error': traceback.format_exc()[-1500:]}
    return {'jid': jid, 'trace': crtglue.normalize(res, sc, jid),
            'failure': res['failure'], 'failure_info': res['failure_info'],
            'results': res['results'], 'thread_errors': res['thread_errors']}


def _work(jobs):
    return [_run(j) for j in jobs]


def scenarios(rng, cap, kinds, sdc, n, thorough):
    import scenarios as S
    out = []
    for _ in range(n):
        ts = []
        for k in kinds:
            t = {'kind': k, 'outcome': rng.choice(['ok', 'ok', 'err'])}
            r = rng.random()
            if r < 0.18:
                t['fail'] = rng.choice(['serialize', 'make_request', 'on_queued'])
            if k == 'download_path' and rng.random() < 0.2:
                t['rename_fails'] = True
            ts.append(t)
        sc = {'cap': cap, 'transfers': ts, 'shutdown_cancel': sdc,
              'future_first': rng.random() < 0.7}
        if rng.random() < 0.4:
            sc['cancel'] = {'t': rng.randrange(len(kinds)), 'gate': rng.randint(1, 60)}
        out.append((sc, S.choosers(2, rng)[1]))
    return out


TRACE_INVS = INVS + '''INVARIANT R_NoTempWhenComplete
INVARIANT R_DestNeverPartial
'''


def validate(traces, cap, kinds, sdc, invs=None):
    inv_lines = TRACE_INVS if invs is None else ''.join(
        f'INVARIANT {i}\n' for i in invs)
    d = tempfile.mkdtemp(prefix='verif-c20-')
    try:
        path = os.path.join(d, 'traces.ndjson')
        with open(path, 'w') as f:
            for t in traces:
                f.write(json.dumps(t) + '\n')
        cfg = TRACE_CFG % dict(cap=cap, n=len(kinds), sdc='TRUE' if sdc else 'FALSE', invs=inv_lines)
        r = tlc.run_tlc('MC_CrtGlue_Trace', cfg, workers=1,
                        env={'TRACE_FILE': path}, timeout=3000,
                        files={'MC_CrtGlue_Trace.tla': MODULE % (
                            'MC_CrtGlue_Trace', 'CrtGlue_Trace', kinds_fn(kinds))})
        reached = {}
        for p in r.json_prints('CRTTRACE '):
            j = json.loads(p)
            reached[j['id']] = (j['reached'], j['len'])
        return reached, r
    finally:
        shutil.rmtree(d, ignore_errors=True)


def run(tier, seed):
    ck = checklib.Check('C20', tier, seed)
    thorough = tier == 'thorough'
    rng = random.Random(seed * 211 + 20)
    ck.coverage['rule'] = (
        'one case per deterministic execution of the real CRTTransferManager '
        'against the stub CRT client (kinds x construction failures x '
        'outcomes x cancel point x completion order x schedule); distinct = '
        'distinct event traces; all non-trivial')
    mcs = [(1, ['download_path', 'upload'], True),
           (2, ['download_path', 'upload', 'download_path'], True),
           (2, ['delete', 'download_path', 'upload'], False)]
    for cap, kinds, sdc in mcs:
        r = tlc.run_tlc('MC_CrtGlue', MC_CFG % dict(
            cap=cap, n=len(kinds), sdc='TRUE' if sdc else 'FALSE'),
            workers=12, timeout=3000,
            files={'MC_CrtGlue.tla': MODULE % ('MC_CrtGlue', 'CrtGlue', kinds_fn(kinds))})
        ck.add_tlc(f'CrtGlue cap={cap} kinds={kinds}', r)
        for v in r.violated:
            ck.violation(v, {'component': 'model', 'cap': cap, 'kinds': kinds,
                             'cex': r.cex[-2500:]})
    geos = [(1, ('download_path', 'upload', 'delete'), False),
            (2, ('download_path', 'download_path', 'upload', 'download_stream'), True),
            (2, ('upload', 'download_path', 'delete', 'download_path', 'upload'), False),
            (128, ('download_path', 'upload'), True)]
    if thorough:
        geos += [(3, tuple(['download_path', 'upload', 'delete'] * 3), False),
                 (128, tuple(['delete'] * 131), False)]
    total = traces_part(ck, rng, geos, thorough)
    pipeline.close_pool()
    ck.require_nonvacuous('crt traces', total, 100)
    ck.assumptions += ASSUMPTIONS
    return ck.finish()


ASSUMPTIONS = [
    'the real awscrt is not installed: s3transfer.crt runs against a stub '
    'awscrt that provides only the imported names; the stub client '
    'completes finished_future before calling on_done (as awscrt does) '
    'and, in 30% of the runs, in the opposite order',
    'the CRT permit capacity is 128 in the code; runs use it unchanged or a '
    'smaller one substituted through the threading shim',
]


def facet(ck, tier, seed, invs, prefix):
    """The CRT manager's part of another property (same executions, same
    trace specification, ``invs`` as the invariants)."""
    thorough = tier == 'thorough'
    rng = random.Random(seed * 211 + 20 + int(ck.pid[1:]))
    geos = [(1, ('download_path', 'upload', 'download_path'), False),
            (2, ('download_path', 'download_path', 'upload', 'download_path'), True)]
    n = traces_part(ck, rng, geos, thorough, invs=invs, prefix=prefix)
    ck.coverage.setdefault('families', {})['crt-manager'] = n
    for a in ASSUMPTIONS:
        if a not in ck.assumptions:
            ck.assumptions.append(a)
    return n


def traces_part(ck, rng, geos, thorough, invs=None, prefix=''):
    total = 0
    for cap, kinds, sdc in geos:
        n = (250 if thorough else 90) if len(kinds) < 20 else 6
        jobs = scenarios(rng, cap, kinds, sdc, n, thorough)
        jl = [(sc, ch, i) for i, (sc, ch) in enumerate(jobs)]
        chunks = [jl[i:i + 15] for i in range(0, len(jl), 15)]
        runs = []
        for part in pipeline.pool().imap(_work, chunks):
            runs.extend(part)
        errs = [r for r in runs if 'error' in r]
        if errs:
            ck.machinery_errors.append('crt run failed: ' + errs[0]['error'][-600:])
        terr = [r for r in runs if r.get('thread_errors')]
        if terr:
            ck.machinery_errors.append('thread error: ' + terr[0]['thread_errors'][0][2][-600:])
        good = [r for r in runs if 'trace' in r]
        for r in good:
            ck.distinct(r['trace']['ev'])
            if r['failure'] and invs is None:
                sc = jobs[r['jid']][0]
                ck.violation('C20_ShutdownReturns', {
                    'component': 'crt', 'detail': r['failure'],
                    'info': r['failure_info'], 'scenario': sc},
                    replay={'kind': 'c20', 'scenario': sc, 'chooser': jobs[r['jid']][1]})
        groups = [good[i:i + 200] for i in range(0, len(good), 200)]
        with ThreadPoolExecutor(max_workers=6) as ex:
            outs = list(ex.map(lambda g: validate([r['trace'] for r in g], cap, kinds, sdc, invs), groups))
        for g, (reached, r) in zip(groups, outs):
            ck.add_tlc(f'CrtGlue_Trace cap={cap} n={len(kinds)} x{len(g)}', r,
                       exhaustive=False)
            if r.violated:
                import re
                m = re.findall(r'tid = (\d+)', getattr(r, 'cex_full', r.cex))
                tidx = int(m[-1]) - 1 if m else 0
                rr = g[tidx] if tidx < len(g) else g[0]
                sc = jobs[rr['jid']][0]
                ck.violation(prefix + r.violated[0], {
                    'component': 'crt', 'scenario': sc, 'results': rr['results'],
                    'cex_tail': getattr(r, 'cex_full', r.cex)[-1500:]},
                    replay={'kind': 'c20', 'scenario': sc, 'chooser': jobs[rr['jid']][1]})
                continue
            for rr in g:
                rc = reached.get(rr['jid'])
                if rc is None:
                    ck.machinery_errors.append('trace without verdict')
                    break
                if rc[0] <= rc[1] and not rr['failure']:
                    fs_kinds = ('before', 'complete', 'snap', 'finish')
                    if invs is not None and prefix.startswith('C06') and \
                            rc[0] <= len(rr['trace']['ev']) and \
                            rr['trace']['ev'][rc[0] - 1].get('k') in fs_kinds:
                        pass
                    elif invs is not None:
                        o = ck.coverage.setdefault('other_property_clauses_failed', {})
                        o['C20_TraceConformance'] = o.get('C20_TraceConformance', 0) + 1
                        continue
                    evs = rr['trace']['ev']
                    at = evs[rc[0] - 1] if 0 < rc[0] <= len(evs) else None
                    sc = jobs[rr['jid']][0]
                    ck.violation((prefix or 'C20_') + 'TraceConformance', {
                        'component': 'crt', 'scenario': sc,
                        'detail': f'event {rc[0]} of {rc[1]} is not a step of '
                                  f'CrtGlue.tla: {at}',
                        'before': evs[max(0, rc[0] - 6):rc[0]]},
                        replay={'kind': 'c20', 'scenario': sc,
                                'chooser': jobs[rr['jid']][1]})
        total += len(good)
        if good:
            ck.sample({'kind': 'crt glue trace', 'cap': cap, 'kinds': list(kinds)[:6],
                       'events_head': [{k: v for k, v in e.items() if v not in ('', 0, True)}
                                       for e in good[0]['trace']['ev'][:12]]}, limit=3)
    ck.coverage['traces_validated_against_impl'] += total
    ck.coverage['evaluations'] += total
    return total


def replay(path):
    import crtglue
    with open(path) as f:
        body = json.load(f)
    rp = body.get('replay') or {}
    if rp.get('kind') == 'c20':
        res = crtglue.run(rp['scenario'], pipeline.make_chooser(tuple(rp['chooser'])))
        tr = crtglue.normalize(res, rp['scenario'], 0)
        print('results', res['results'], 'failure', res['failure'])
        for i, e in enumerate(tr['ev'], 1):
            print(i, {k: v for k, v in e.items() if v not in ('', 0, True)})
    print(json.dumps({k: v for k, v in body['report'].items() if k != 'scenario'},
                     indent=1, default=str)[:2500])
    return 1
