-------------------------- MODULE Coordinator_Trace --------------------------
(***************************************************************************)
(* Trace validation for Coordinator.tla: threaded executions of the real   *)
(* TransferCoordinator recorded as call / return / callback events.  The   *)
(* state change of an operation happens at an unlogged point between its   *)
(* call and its return (inside the lock), so the operation itself is a     *)
(* silent step Lin(t) that TLC places; announce_done's internal steps are  *)
(* silent too, except the callback / cleanup executions, which are logged. *)
(* Many traces are checked per TLC run: one initial state per trace.       *)
(***************************************************************************)
EXTENDS Coordinator, Json, IOUtils, TLCExt

Traces == ndJsonDeserialize(IOEnv.TRACE_FILE)

VARIABLES tid,   \* which trace
          l,     \* next event
          pend,  \* [thread -> pending call record or NoCall]
          got    \* [thread -> return value produced by the model, "" if none]

tvars == <<vars, tid, l, pend, got>>
NoCall == [op |-> "", arg |-> ""]
Ev == Traces[tid].ev[l]
More == l <= Len(Traces[tid].ev)

TInit ==
    /\ Init
    /\ tid \in 1..Len(Traces)
    /\ l = 1
    /\ pend = [t \in Threads |-> NoCall]
    /\ got = [t \in Threads |-> ""]
    /\ TLCSet(tid, 0)

\* bookkeeping shared by all steps that run a Coordinator action
Track ==
    got' = [t \in Threads |->
              IF last' # last /\ last'.th = t THEN last'.ret ELSE got[t]]

TCall ==
    /\ More /\ Ev.k = "call"
    /\ pend[Ev.th] = NoCall /\ pc[Ev.th] = "idle"
    /\ pend' = [pend EXCEPT ![Ev.th] = [op |-> Ev.op, arg |-> Ev.arg]]
    /\ l' = l + 1
    /\ UNCHANGED <<vars, tid, got>>

\* the operation takes effect (or, for multi-step operations, starts)
Lin(t) ==
    /\ pend[t] # NoCall /\ got[t] = "" /\ pc[t] = "idle"
    /\ LET o == pend[t].op  a == pend[t].arg IN
         \/ o = "set_status_queued" /\ SetStatus(t, "queued")
         \/ o = "set_status_running" /\ SetStatus(t, "running")
         \/ o = "set_result" /\ SetResult(t)
         \/ o = "set_exception" /\ SetException(t, a, FALSE)
         \/ o = "set_exception_override" /\ SetException(t, a, TRUE)
         \/ o = "future_set_exception" /\ FutureSetException(t)
         \/ o = "done" /\ ReadDone(t)
         \/ o = "add_done_callback" /\ AddDoneCallback(t, a)
         \/ o = "add_failure_cleanup" /\ AddFailureCleanup(t)
         \/ o = "cancel" /\ Cancel(t)
         \/ o = "announce_done" /\ AnnounceStart(t)
         \/ o = "result" /\ ResultStart(t)
    /\ Track
    /\ pend' = [pend EXCEPT ![t].op = "started:" \o pend[t].op]
    /\ UNCHANGED <<tid, l>>

Started(t) == pend[t] # NoCall /\ pend[t].op # "" /\ got[t] = "" /\ pc[t] # "idle"

Silent(t) ==
    /\ \/ AnnStatus(t) \/ AnnEvent(t) \/ AnnTakeCbs(t) \/ AnnFinish(t)
       \/ ResultReturn(t)
       \/ (cleanups = <<>> /\ AnnCleanup(t))
    /\ Track
    /\ UNCHANGED <<tid, l, pend>>

TCb ==
    /\ More /\ Ev.k = "cb"
    /\ pc[Ev.th] = "ann_run" /\ tmp[Ev.th].cbs # <<>> /\ Head(tmp[Ev.th].cbs) = Ev.kind
    /\ AnnRunCb(Ev.th)
    /\ Track
    /\ l' = l + 1
    /\ UNCHANGED <<tid, pend>>

TCleanup ==
    /\ More /\ Ev.k = "cleanup"
    /\ Len(cleanups) = Ev.n
    /\ AnnCleanup(Ev.th)
    /\ Track
    /\ l' = l + 1
    /\ UNCHANGED <<tid, pend>>

TRet ==
    /\ More /\ Ev.k = "ret"
    /\ pend[Ev.th] # NoCall /\ pc[Ev.th] = "idle" /\ got[Ev.th] # ""
    /\ (Ev.ret # "?") => got[Ev.th] = Ev.ret
    /\ pend' = [pend EXCEPT ![Ev.th] = NoCall]
    /\ got' = [got EXCEPT ![Ev.th] = ""]
    /\ l' = l + 1
    /\ UNCHANGED <<vars, tid>>

TNext ==
    \/ TCall \/ TRet \/ TCb \/ TCleanup
    \/ \E t \in Threads : Lin(t) \/ Silent(t)

TSpec == TInit /\ [][TNext]_tvars

\* progress register per trace (needs -workers 1)
Progress == TLCSet(tid, IF TLCGet(tid) < l THEN l ELSE TLCGet(tid))

\* printed once at the end: how far every trace got
Report ==
    \A i \in 1..Len(Traces) :
        PrintT("TRACE " \o ToJson([id |-> Traces[i].id, reached |-> TLCGet(i),
                                    len |-> Len(Traces[i].ev)]))
=============================================================================
