#!/bin/sh
# usage: run_all.sh [tier] [seed]   runs every check once, prints one line per property
TIER=${1:-quick}; SEED=${2:-0}
cd "$(dirname "$0")/.."
for i in 01 02 03 04 05 06 07 08 09 10 11 12 13 14 15 16 17 18 19 20; do
  S=$(date +%s)
  OUT=$(./check C$i --tier $TIER --seed $SEED 2>&1); RC=$?
  E=$(date +%s)
  echo "C$i rc=$RC $((E-S))s $(echo "$OUT" | grep -E '^OK|^VIOLATION|MACHINERY' | head -2 | cut -c1-160 | tr '\n' ' ')"
done
