----------------------------- MODULE InvokerApa -----------------------------
(***************************************************************************)
(* Inductive-invariant check (Apalache) of Invoker.tla's exactly-once      *)
(* claim for UNBOUNDED counts: TLC explores counts up to 3-4; here the     *)
(* invariant is shown to hold initially and to be preserved by every       *)
(* transition from ANY state that satisfies it (count up to 10^6).         *)
(* The transitions are those of Invoker.tla without the observation        *)
(* variable `last`.                                                        *)
(*   apalache-mc check --init=Init    --inv=IndInv --length=0 InvokerApa.tla *)
(*   apalache-mc check --init=IndInit --inv=IndInv --length=1 InvokerApa.tla *)
(* Not part of a registered check (run by hand, result in DESIGN.md 11.7). *)
(***************************************************************************)
EXTENDS Integers

Big == 1000000

VARIABLES
    \* @type: Int;
    count,
    \* @type: Bool;
    fin,
    \* @type: Int;
    calls,
    \* @type: Int;
    nfin

Init == count = 0 /\ fin = FALSE /\ calls = 0 /\ nfin = 0

Increment ==
    IF fin THEN UNCHANGED <<count, fin, calls, nfin>>
    ELSE count' = count + 1 /\ UNCHANGED <<fin, calls, nfin>>

Decrement ==
    IF count = 0 THEN UNCHANGED <<count, fin, calls, nfin>>
    ELSE /\ count' = count - 1
         /\ calls' = IF fin /\ count = 1 THEN calls + 1 ELSE calls
         /\ UNCHANGED <<fin, nfin>>

Finalize ==
    /\ fin' = TRUE /\ nfin' = nfin + 1
    /\ calls' = IF count = 0 THEN calls + 1 ELSE calls
    /\ UNCHANGED count

Next == Increment \/ Decrement \/ Finalize

TypeOK == count \in 0..Big /\ fin \in BOOLEAN /\ calls \in 0..Big /\ nfin \in 0..Big

\* the callback has been invoked exactly when the (once) finalized count is drained
IndInv ==
    /\ TypeOK
    /\ fin <=> (nfin >= 1)
    /\ (nfin <= 1) => (calls = IF fin /\ count = 0 THEN 1 ELSE 0)

IndInit == IndInv /\ count < Big /\ calls < Big /\ nfin < Big

\* what users rely on (follows from IndInv)
C04_I_ExactlyOnce == (nfin <= 1) => (calls <= 1 /\ ((calls = 1) <=> (fin /\ count = 0)))
=============================================================================
