"""Executions of the legacy front-end s3transfer.S3Transfer (upload_file /
download_file) with free-running real threads.

The legacy code uses concurrent.futures, queue.Queue and threading directly,
so it is not run under the cooperative runtime: threads run freely, every
environment operation (fake S3 call, file operation) takes the environment
lock, logs its event atomically with its effect and sleeps a seeded
pseudo-random micro-delay outside the lock to vary the interleavings.  Only
monitor-layer clauses (ObsTrace), which do not depend on the order of
concurrent events, are evaluated on these traces.
"""

import os
import random
import shutil
import sys
import tempfile
import threading
import time

sys.path.insert(0, os.path.dirname(os.path.abspath(__file__)))

import fakes3  # noqa: E402
import monitor  # noqa: E402

BUCKET = 'bkt'


class InjectedOSError(OSError):
    def __init__(self, tag):
        super().__init__(tag)
        self.tag = tag


def run(sc, seed):
    import s3transfer as L
    rng = random.Random(seed)
    env = threading.RLock()
    events = []
    step = [0]
    t = sc['transfer']
    kind = t['kind']
    size = t['size']
    data = fakes3.pattern(size)
    tmp = tempfile.mkdtemp(prefix='verif-leg-')
    counters = {}
    delays = sc.get('delays', [0, 0, 0.0003, 0.001])

    def emit(e, **kw):
        with env:
            step[0] += 1
            kw.update(e=e, th=threading.current_thread().name, t=step[0])
            for k in list(kw):
                if kw[k] is None:
                    del kw[k]
            if e == 'S3Begin':
                kw['x'] = 0
            events.append(kw)

    def point(kind_=''):
        d = rng.choice(delays) if kind_ != 'nodelay' else 0
        slow = sc.get('slow')
        if slow and kind_ in slow:
            d = slow[kind_]
        if d:
            time.sleep(d)

    svc = fakes3.FakeS3(emit=emit, point=point)
    key = 'k0'
    dest = os.path.join(tmp, 'dst0')
    src = os.path.join(tmp, 'src0')
    old = None
    if kind == 'upload':
        with open(src, 'wb') as f:
            f.write(data)
        svc.register_source(key, data)
    else:
        svc.put(BUCKET, key, data)
        if t.get('old'):
            old = b'OLD-CONTENT'
            with open(dest, 'wb') as f:
                f.write(old)

    def fault_due(on, **attrs):
        with env:
            for f in sc.get('faults', []):
                if f.get('on') != on:
                    continue
                n = counters[id(f)] = counters.get(id(f), 0) + 1
                if n == f.get('nth', 1):
                    return f
        return None

    def fault_plan(call):
        for f in sc.get('faults', []):
            if f.get('on') != 's3':
                continue
            if 'seq' in f and call['seq'] != f['seq']:
                continue
            if 'op' in f:
                if f['op'] != call['op']:
                    continue
                n = counters[id(f)] = counters.get(id(f), 0) + 1
                if n != f.get('nth', 1):
                    continue
            tag = f"F{call['seq']}"
            emit('FaultInjected', on='s3', seq=call['seq'], tag=tag,
                 kind=f.get('kind', 'client'), after=bool(f.get('after')))
            return fakes3.Fault(f.get('kind', 'client'), bool(f.get('after')), tag)
        return None
    svc.fault_plan = fault_plan

    def stream_plan(call):
        for s_ in sc.get('streams', []):
            if 'range_start' in s_:
                rng_ = call.get('Range') or 'bytes=0-'
                if not rng_.startswith(f"bytes={s_['range_start']}-"):
                    continue
            if 'attempt' in s_ and call.get('get_attempt') != s_['attempt']:
                continue
            return fakes3.StreamScript(reads=s_.get('reads', ()),
                                       fault_after=s_.get('fault_after'),
                                       fault=s_.get('fault'))
        return None
    svc.stream_plan = stream_plan
    api_calls = []
    client = fakes3.make_client(
        svc, retries=1, checksum='when_required',
        on_params=lambda op, p: api_calls.append((op, p)))

    fs_state = [None]

    def snapshot():
        with env:
            st, temps = 'absent', 0
            for n in sorted(os.listdir(tmp)):
                if n == 'dst0':
                    try:
                        with open(os.path.join(tmp, n), 'rb') as f:
                            c = f.read()
                    except OSError:
                        c = None
                    st = 'complete' if c == data else ('old' if c == old else 'partial')
                elif n.startswith('dst0' + os.extsep):
                    temps += 1
            cur = [{'x': 0, 'dest': st, 'temps': temps}]
            if cur != fs_state[0]:
                fs_state[0] = cur
                emit('FsSnapshot', files=cur)

    class FileProxy:
        def __init__(self, f, name, mode):
            self._f, self.name, self.mode = f, name, mode

        def write(self, d):
            point('fs-write')
            with env:
                pos = self._f.tell()
                emit('FsWriteBegin', x=0, off=pos, len=len(d))
                if fault_due('fs_write'):
                    emit('FaultInjected', on='fs_write', tag='FSW0', x=0)
                    emit('FsWriteEnd', x=0, ok=False)
                    raise InjectedOSError('FSW0')
                self._f.write(d)
                self._f.flush()
                loc = fakes3.locate(data, d)
                emit('FsWriteEnd', x=0, ok=True, off=pos, len=len(d),
                     src=(loc[0] if loc else -1))
                snapshot()

        def seek(self, *a):
            return self._f.seek(*a)

        def tell(self):
            return self._f.tell()

        def read(self, *a):
            return self._f.read(*a)

        def close(self):
            self._f.close()

        def __enter__(self):
            return self

        def __exit__(self, *a):
            self.close()

    class OSU(L.OSUtils):
        def open(self, filename, mode):
            if 'w' in mode:
                point('fs-open')
                with env:
                    if fault_due('fs_open'):
                        emit('FaultInjected', on='fs_open', tag='FSO0', x=0)
                        raise InjectedOSError('FSO0')
                    f = open(filename, mode)
                    emit('FsOpen', x=0, mode=mode, temp=True)
                    snapshot()
                    return FileProxy(f, filename, mode)
            return open(filename, mode)

        def remove_file(self, filename):
            with env:
                emit('FsRemove', x=0, existed=os.path.exists(filename))
                super().remove_file(filename)
                snapshot()

        def rename_file(self, cur, new):
            point('fs-rename')
            with env:
                if fault_due('fs_rename'):
                    emit('FaultInjected', on='fs_rename', tag='FSR0', x=0)
                    raise InjectedOSError('FSR0')
                emit('FsRenameBegin', x=0)
                super().rename_file(cur, new)
                emit('FsRename', x=0)
                snapshot()

    cfg = sc.get('cfg', {})
    config = L.TransferConfig(
        multipart_threshold=cfg.get('threshold', 4),
        multipart_chunksize=cfg.get('chunk', 2),
        max_concurrency=cfg.get('concurrency', 2),
        num_download_attempts=cfg.get('attempts', 3),
        max_io_queue=cfg.get('ioq', 10))
    transfer = L.S3Transfer(client, config, OSU())
    extra = dict(t.get('extra_args') or {})
    result = {}
    events.append({'e': 'Scenario', 'th': None, 't': 0, 'cfg': dict(
        R=cfg.get('concurrency', 2), S=1, RQ=1000, SQ=1000, IOQ=1000,
        io_chunk=16384, attempts=cfg.get('attempts', 3), up_chunks=1000,
        down_chunks=1000, chunk=cfg.get('chunk', 2),
        threshold=cfg.get('threshold', 4))})

    def body():
        emit('Call', x=0, kind=kind)
        emit('Ret', x=0, ok=True)
        emit('Status', x=0, status='queued')
        emit('CbBegin', cb='queued', x=0, sub=0)
        emit('CbEnd', cb='queued', x=0, sub=0)
        try:
            if kind == 'upload':
                transfer.upload_file(src, BUCKET, key, extra_args=extra or None)
            else:
                transfer.download_file(BUCKET, key, dest, extra_args=extra or None)
        except BaseException as e:  # noqa
            import world
            snapshot()
            result[0] = ('raise', world.exc_tag(e))
            emit('ResultEnd', x=0, outcome='raise', exc=legacy_tag(e),
                 cls=type(e).__name__)
            return
        snapshot()
        result[0] = ('ok', None)
        emit('ResultEnd', x=0, outcome='ok')

    th = threading.Thread(target=body, name='user', daemon=True)
    th.start()
    th.join(timeout=sc.get('timeout', 60))
    hung = th.is_alive()
    if hung:
        emit('Deadlock', info='legacy call did not return')
    final = {}
    obj = svc.objects.get((BUCKET, key))
    if kind == 'upload':
        final[0] = {'x': 0, 'kind': 'upload', 'size': size,
                    'object': 'absent' if obj is None else (
                        'equal' if obj == data else 'differs')}
    else:
        try:
            with open(dest, 'rb') as f:
                c = f.read()
            d = 'complete' if c == data else ('old' if c == old else 'partial')
        except OSError:
            d = 'absent'
        final[0] = {'x': 0, 'kind': 'download', 'size': size, 'dst': 'path',
                    'dest': d}
    shutil.rmtree(tmp, ignore_errors=True)
    return {'events': events, 'final': final, 'failure': 'deadlock' if hung else None,
            'results': result, 'quiescent': {}, 'api_calls': api_calls,
            'steps': step[0], 'thread_errors': []}


def legacy_tag(e):
    """Exception identity in the vocabulary of monitor.parse_exc."""
    import re
    import world
    from s3transfer.exceptions import S3UploadFailedError
    if isinstance(e, InjectedOSError):
        return 'inj:' + e.tag
    if isinstance(e, S3UploadFailedError):
        # "Failed to upload ... : An error occurred (AccessDenied) ...: F3"
        msg = str(e)
        m = re.search(r'\b(FS[OWR]0)\b', msg)
        if m:
            return 'inj:' + m.group(1)
        m = re.search(r'\b(F\d+)\b', msg)
        if m:
            return 's3:AccessDenied:' + m.group(1)
        return 'S3UploadFailedError'
    return world.exc_tag(e)


def to_trace(res, sc, tid):
    t = sc['transfer']
    msc = {'transfers': [dict(t, dst='path' if t['kind'] == 'download' else None,
                              src='path' if t['kind'] == 'upload' else None)],
           'faults': [dict(f, x=0) for f in sc.get('faults', [])],
           'streams': [dict(s, x=0) for s in sc.get('streams', [])]}
    return monitor.normalize(res, msc, tid)
