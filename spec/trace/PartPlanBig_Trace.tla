-------------------------- MODULE PartPlanBig_Trace --------------------------
(***************************************************************************)
(* Real-scale conformance of the planning functions: sizes up to 5 TiB do  *)
(* not fit TLC's integers, so every number of a case is a BigNat (limbs).  *)
(* The specification's equations (PartPlan.tla) are checked as relations   *)
(* between the arguments and the result the real function returned:        *)
(*   n = NumParts(S,P)    <=>  (S=0 /\ n=0) \/ (n>=1 /\ (n-1)P < S <= nP) *)
(*   start = I*P ; mid end = I*P+P-1 ; last end = S-1                      *)
(*   a = Adjust(P,S)      <=>  \E k: D=P*2^k is the first doubling with    *)
(*                               S <= D*MaxParts, a = Clamp(D)            *)
(***************************************************************************)
EXTENDS BigNat, Json, IOUtils, TLC, TLCExt

Cases == ndJsonDeserialize(IOEnv.TRACE_FILE)
MinPart == <<0, 160>>                \* 5 * 2^20
MaxPart == <<0, 0, 5>>               \* 5 * 2^30
MaxParts == <<10000>>
VARIABLES i, bad
vars == <<i, bad>>

Fits(S, D) == Le(S, Mul(D, MaxParts))     \* NumParts(S, D) <= MaxParts
Clamp(c) == IF Lt(MaxPart, c) THEN MaxPart ELSE IF Lt(c, MinPart) THEN MinPart ELSE c

RECURSIVE FirstFit(_, _, _)
FirstFit(S, D, k) == IF Fits(S, D) \/ k > 60 THEN D ELSE FirstFit(S, MulSmall(D, 2), k + 1)

Good(c) ==
    CASE c.fn = "num_parts" ->
            \/ c.size = Zero /\ c.res = Zero
            \/ /\ c.res # Zero
               /\ Lt(Mul(Pred(c.res), c.part), c.size)
               /\ Le(c.size, Mul(c.res, c.part))
      [] c.fn = "range_start" -> Eq(c.res, Mul(c.idx, c.part))
      [] c.fn = "range_end_mid" -> Eq(Add(c.res, One), Mul(Add(c.idx, One), c.part))
      [] c.fn = "range_end_last" -> Eq(Add(c.res, One), c.total)
      [] c.fn = "part_len_last" -> Eq(Add(c.res, Mul(c.idx, c.part)), c.size)
      [] c.fn = "part_len_mid" -> Eq(c.res, c.part)
      [] c.fn = "adjust" -> Eq(c.res, Clamp(FirstFit(c.size, c.part, 0)))
      \* the multipart decision (part carries the threshold): res = 1 <=> size >= threshold
      [] c.fn = "multipart" -> IF Le(c.part, c.size) THEN c.res = One ELSE c.res = Zero
      [] c.fn = "adjust_nosize" -> Eq(c.res, Clamp(c.part))
      [] OTHER -> FALSE

Init == i = 1 /\ bad = <<>>
Next ==
    /\ i <= Len(Cases)
    /\ i' = i + 1
    /\ bad' = IF Good(Cases[i]) THEN bad
              ELSE IF Len(bad) < 20 THEN Append(bad, Cases[i].id) ELSE bad
Spec == Init /\ [][Next]_vars
Report == (i = Len(Cases) + 1) => PrintT("PLANBIG " \o ToJson([n |-> Len(Cases), bad |-> bad]))
=============================================================================
