class EventLoopGroup:
    def __init__(self, *a, **k):
        pass


class DefaultHostResolver:
    def __init__(self, *a, **k):
        pass


class ClientBootstrap:
    def __init__(self, *a, **k):
        pass


class TlsContextOptions:
    def __init__(self, *a, **k):
        self.verify_peer = True

    def override_default_trust_store_from_path(self, *a, **k):
        pass


class ClientTlsContext:
    def __init__(self, *a, **k):
        pass
