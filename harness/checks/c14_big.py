"""C14 at real scale: Apalache proves the theorems symbolically; the real
functions are evaluated at real-scale boundaries and TLC checks each result
against the specification's equations with BigNat (limb) arithmetic."""

import json
import os
import re
import shutil
import subprocess
import tempfile

import tlc

MiB, GiB, TiB = 2 ** 20, 2 ** 30, 2 ** 40
BASE = 32768

CFG = '''SPECIFICATION Spec
CONSTRAINT Report
CHECK_DEADLOCK FALSE
'''


def limbs(n):
    out = []
    while n > 0:
        out.append(n % BASE)
        n //= BASE
    return out


def boundary_values():
    chunks = sorted({1, 2, 3, 7, 1000, 256 * 1024, MiB - 1, MiB, MiB + 1,
                     5 * MiB - 1, 5 * MiB, 5 * MiB + 1, 8 * MiB, 16 * MiB,
                     64 * MiB + 3, 2 ** 31 - 1, 2 ** 31, 2 ** 31 + 1,
                     5 * GiB - 1, 5 * GiB, 5 * GiB + 1, 6 * GiB})
    sizes = {0, 1, 2, 5 * MiB - 1, 5 * MiB, 5 * MiB + 1, 8 * MiB, 2 ** 32 - 1,
             2 ** 32, 2 ** 32 + 1, 5 * GiB - 1, 5 * GiB, 5 * GiB + 1,
             10000 * 5 * MiB - 1, 10000 * 5 * MiB, 10000 * 5 * MiB + 1,
             10000 * 8 * MiB - 1, 10000 * 8 * MiB, 10000 * 8 * MiB + 1,
             TiB, 5 * TiB - 1, 5 * TiB, 2 ** 42 + 12345}
    return chunks, sorted(sizes)


def real_cases(rng, nrand):
    import s3transfer.utils as U
    import s3transfer.copies as C
    import s3transfer.upload as UP
    from checks.c14 import _Fut, _parse_range
    chunks, sizes = boundary_values()
    pairs = set()
    for c in chunks:
        for s in sizes:
            pairs.add((s, c))
        for k in (1, 2, 3, 9999, 10000, 10001, 12345):
            for d in (-1, 0, 1):
                s = k * c + d
                if 0 <= s <= 5 * TiB:
                    pairs.add((s, c))
    for _ in range(nrand):
        c = rng.choice([rng.randint(1, 6 * GiB), rng.choice(chunks)])
        s = rng.choice([rng.randint(0, 5 * TiB), rng.choice(sizes),
                        c * rng.randint(1, 20000) + rng.choice([-1, 0, 1])])
        if 0 <= s <= 5 * TiB:
            pairs.add((s, c))
    adj = U.ChunksizeAdjuster()
    up = UP.UploadFilenameInputManager.__new__(UP.UploadFilenameInputManager)
    cid = 0
    for s, c in sorted(pairs):
        n = U.calculate_num_parts(s, c)
        base = {'size': limbs(s), 'part': limbs(c)}

        def case(fn, res, who, **kw):
            nonlocal cid
            cid += 1
            d = {'id': cid, 'fn': fn, 'size': limbs(s), 'part': limbs(c),
                 'idx': limbs(kw.get('idx', 0)), 'total': limbs(kw.get('total', 0)),
                 'res': limbs(res), 'who': who,
                 'plain': {'size': s, 'part': c, 'res': res, **kw}}
            return d
        yield case('num_parts', n, 'utils.calculate_num_parts')
        yield case('num_parts', up._get_num_parts(_Fut(s), c), 'upload._get_num_parts')
        yield case('adjust', adj.adjust_chunksize(c, s), 'ChunksizeAdjuster')
        yield case('adjust_nosize', adj.adjust_chunksize(c, None), 'ChunksizeAdjuster')
        if n >= 1:
            for i in sorted(x for x in ({0, 1, n // 3, n - 2, n - 1} if n > 5 else set(range(n))) if 0 <= x < n):
                st, en = _parse_range(U.calculate_range_parameter(c, i, n, s))
                yield case('range_start', st, 'utils.calculate_range_parameter', idx=i)
                if i == n - 1:
                    yield case('range_end_last', en, 'utils.calculate_range_parameter', idx=i, total=s)
                    yield case('part_len_last', C.CopySubmissionTask._get_transfer_size(None, c, i, n, s),
                               'copies._get_transfer_size', idx=i)
                else:
                    yield case('range_end_mid', en, 'utils.calculate_range_parameter', idx=i)
                    yield case('part_len_mid', C.CopySubmissionTask._get_transfer_size(None, c, i, n, s),
                               'copies._get_transfer_size', idx=i)


class _StubClient:
    """A client that answers without moving a byte: real-scale sizes are only
    numbers to the planning code (HeadObject ContentLength, file size)."""

    def __init__(self, size):
        from unittest import mock
        self.meta = mock.MagicMock()
        self.size = size
        self.calls = []

    def _rec(self, op, kw):
        self.calls.append((op, {k: v for k, v in kw.items() if k != 'Body'}))

    def head_object(self, **kw):
        self._rec('HeadObject', kw)
        return {'ContentLength': self.size}

    def copy_object(self, **kw):
        self._rec('CopyObject', kw)
        return {}

    def put_object(self, **kw):
        self._rec('PutObject', kw)
        return {}

    def create_multipart_upload(self, **kw):
        self._rec('CreateMultipartUpload', kw)
        return {'UploadId': 'u'}

    def upload_part_copy(self, **kw):
        self._rec('UploadPartCopy', kw)
        return {'CopyPartResult': {'ETag': 'e%d' % kw['PartNumber']}}

    def upload_part(self, **kw):
        self._rec('UploadPart', dict(kw, _len=len(kw['Body'])))
        return {'ETag': 'e%d' % kw['PartNumber']}

    def complete_multipart_upload(self, **kw):
        self._rec('CompleteMultipartUpload', kw)
        return {}

    def abort_multipart_upload(self, **kw):
        self._rec('AbortMultipartUpload', kw)
        return {}

    def get_object(self, **kw):
        self._rec('GetObject', kw)
        raise RuntimeError('stub: no body at real scale')


def decision_cases(rng, nrand, tmpdir):
    """TransferManager.copy/upload/download driven at real scale with a stub
    client: is the transfer multipart exactly when size >= threshold, and do the
    requests it issues tile the object?"""
    import s3transfer.manager as M
    from s3transfer.futures import NonThreadedExecutor
    from checks.c14 import _parse_range
    thrs = [8 * MiB, 5 * GiB - 1, 5 * GiB, 5 * GiB + 1, 8 * GiB, 2 ** 33 + 5, 16 * GiB]
    pairs = set()
    for t in thrs:
        for s in (t - 1, t, t + 1):
            pairs.add((s, t))
        for s in (5 * GiB, 5 * GiB + 1, 6 * GiB, 7 * GiB + 3):
            pairs.add((s, t))
    pairs.add((5 * TiB, 8 * GiB))
    pairs.add((5 * TiB, 5 * TiB))
    pairs.add((5 * TiB - 1, 5 * TiB))
    for _ in range(nrand):
        t = rng.choice([rng.randint(1, 16 * GiB), rng.choice(thrs)])
        pairs.add((max(0, t + rng.choice([-1, 0, 1, -GiB, GiB, rng.randint(-t, 4 * GiB)])), t))
    cid = [10 ** 6]
    sparse = os.path.join(tmpdir, 'sparse')

    def case(fn, who, size, part, res, **kw):
        cid[0] += 1
        return {'id': cid[0], 'fn': fn, 'size': limbs(size), 'part': limbs(part),
                'idx': limbs(kw.get('idx', 0)), 'total': limbs(kw.get('total', 0)),
                'res': limbs(res), 'who': who,
                'plain': dict(kw, size=size, part=part, res=res)}

    for size, thr in sorted(pairs):
        chunk = rng.choice([GiB, 2 * GiB, 5 * GiB]) if size < TiB else 5 * GiB
        for kind in ('copy', 'download', 'upload'):
            if kind == 'upload' and size > 20 * GiB:
                continue
            cl = _StubClient(size)
            cfg = M.TransferConfig(multipart_threshold=thr, multipart_chunksize=chunk,
                                   max_request_concurrency=1, num_download_attempts=1)
            tm = M.TransferManager(cl, cfg, executor_cls=NonThreadedExecutor)
            try:
                if kind == 'copy':
                    fut = tm.copy({'Bucket': 'b', 'Key': 's'}, 'b', 'k')
                elif kind == 'download':
                    fut = tm.download('b', 'k', os.path.join(tmpdir, 'out'))
                else:
                    with open(sparse, 'wb') as f:
                        f.truncate(size)
                    fut = tm.upload(sparse, 'b', 'k')
                try:
                    fut.result()
                except RuntimeError:
                    pass
            finally:
                tm.shutdown()
            ops = [o for o, _ in cl.calls]
            who = 'TransferManager.' + kind
            if kind == 'download':
                gets = [kw for o, kw in cl.calls if o == 'GetObject']
                mp = 1 if gets and 'Range' in gets[0] else 0
                yield case('multipart', who, size, thr, mp, thr=thr)
                if mp:
                    st, en = _parse_range(gets[0]['Range'])
                    yield case('range_start', who, size, chunk, st, idx=0)
                continue
            single = 'CopyObject' if kind == 'copy' else 'PutObject'
            mp = 1 if 'CreateMultipartUpload' in ops else 0
            if mp == (1 if single in ops else 0):
                mp = 2        # both or neither: never what the specification says
            yield case('multipart', who, size, thr, mp, thr=thr)
            if mp != 1:
                continue
            parts = [kw for o, kw in cl.calls if o in ('UploadPartCopy', 'UploadPart')]
            n = len(parts)
            eff = None
            if kind == 'copy' and n:
                st0, en0 = _parse_range(parts[0]['CopySourceRange'])
                eff = en0 + 1 if n > 1 else None
            if kind == 'upload' and n > 1:
                eff = parts[0]['_len']
            if eff is None:
                continue
            yield case('adjust', who, size, chunk, eff)
            yield case('num_parts', who, size, eff, n)
            for i in sorted({0, 1, n // 2, n - 2, n - 1} & set(range(n))):
                if parts[i]['PartNumber'] != i + 1:
                    yield case('num_parts', who + ':PartNumber', size, eff, parts[i]['PartNumber'] - i + n - 1)
                if kind == 'copy':
                    st, en = _parse_range(parts[i]['CopySourceRange'])
                    yield case('range_start', who, size, eff, st, idx=i)
                    if i == n - 1:
                        yield case('range_end_last', who, size, eff, en, idx=i, total=size)
                    else:
                        yield case('range_end_mid', who, size, eff, en, idx=i)
                else:
                    ln = parts[i]['_len']
                    yield case('part_len_last' if i == n - 1 else 'part_len_mid', who, size, eff, ln, idx=i)
    if os.path.exists(sparse):
        os.unlink(sparse)


def apalache(ck):
    out = tempfile.mkdtemp(prefix='verif-apa-')
    try:
        spec = os.path.join(tlc.SPEC, 'apa', 'PartPlanApa.tla')
        p = subprocess.run(
            ['apalache-mc', 'check', '--inv=Inv', '--length=31', '--no-deadlock',
             f'--out-dir={out}', spec], capture_output=True, text=True,
            timeout=1500, cwd=out,
            env=dict(os.environ, JVM_ARGS='-Xmx4g'))
        txt = p.stdout + p.stderr
        ok = 'EXITCODE: OK' in txt and (
            'The outcome is: NoError' in txt
            or 'Checker reports no error' in txt)
        m = re.search(r'Total time: ([0-9.]+) sec', txt)
        ck.coverage.setdefault('apalache', []).append({
            'module': 'PartPlanApa', 'inv': 'Inv (RangesTile, AdjustedWithinLimits, '
            'ChangedOnlyIfRequired, LoopTerminates)', 'length': 31,
            'domain': 'size 0..5 TiB, chunk 1..6 GiB, real S3 limits (symbolic)',
            'outcome': 'NoError' if ok else 'ERROR',
            'time_s': float(m.group(1)) if m else None})
        if not ok:
            if 'violation' in txt.lower() or 'Checker has found an error' in txt:
                ck.violation('C14_AdjustedWithinLimits', {
                    'component': 'model', 'engine': 'apalache',
                    'out': txt[-2500:]})
            else:
                ck.machinery_errors.append('apalache failed: ' + txt[-800:])
    finally:
        shutil.rmtree(out, ignore_errors=True)


def run(ck, tier, seed):
    import random
    rng = random.Random(seed + 14)
    apalache(ck)
    cases = list(real_cases(rng, 3000 if tier == 'thorough' else 400))
    d = tempfile.mkdtemp(prefix='verif-c14b-')
    try:
        cases += list(decision_cases(rng, 200 if tier == 'thorough' else 30, d))
        path = os.path.join(d, 'cases.ndjson')
        with open(path, 'w') as f:
            for c in cases:
                f.write(json.dumps({k: v for k, v in c.items() if k != 'plain'}) + '\n')
        r = tlc.run_tlc('PartPlanBig_Trace', CFG, workers=1,
                        env={'TRACE_FILE': path}, timeout=3000)
        ck.add_tlc('PartPlanBig_Trace[real scale]', r, exhaustive=False)
        out = r.json_prints('PLANBIG ')
        if not out:
            ck.machinery_errors.append('no PLANBIG verdict')
            return
        j = json.loads(out[-1])
        if j['n'] != len(cases):
            ck.machinery_errors.append(f'TLC saw {j["n"]} of {len(cases)} big cases')
        ck.coverage['traces_validated_against_impl'] += j['n']
        ck.coverage['evaluations'] += j['n']
        byid = {c['id']: c for c in cases}
        for c in cases:
            ck.distinct(['big', c['who'], c['fn'], c['plain']['size'],
                         c['plain']['part'], c['plain'].get('idx')])
        ck.sample({'kind': 'real-scale planning cases',
                   'cases': [c['plain'] | {'fn': c['fn']} for c in cases[:4]]})
        for bid in j['bad']:
            c = byid[bid]
            clause = 'C14_MultipartIffGeThreshold' if c['fn'] == 'multipart' \
                else 'C14_AdjustedWithinLimits' if c['fn'].startswith('adjust') \
                else ('C14_PartNumbers1toN' if c['fn'] == 'num_parts' else 'C14_RangesTile')
            ck.violation(clause, {'component': c['who'], 'fn': c['fn'],
                                  'case': c['plain'], 'scale': 'real'},
                         replay={'kind': 'c14', 'case': c['plain']})
    finally:
        shutil.rmtree(d, ignore_errors=True)
