"""C15 - extra arguments reach exactly the S3 operations that accept them.

Routing.tla states the required routing over Accepts[op], which is generated
on every run from the installed botocore S3 model.  Every allowed argument
name of every TransferManager method (and the checksum-steering subsets) is
run through the real front-end in every mode with a real botocore client;
the keyword arguments of each API call are captured before botocore touches
them and TLC (Routing_Trace.tla) checks each execution against the spec.
Names outside the allow-lists must be rejected before any request.
"""

import datetime
import json
import os
import shutil
import tempfile

import checklib
import coop
import tlc

OPS = ['PutObject', 'CreateMultipartUpload', 'UploadPart',
       'CompleteMultipartUpload', 'AbortMultipartUpload', 'HeadObject',
       'GetObject', 'CopyObject', 'UploadPartCopy', 'DeleteObject']

DT = datetime.datetime(2030, 1, 2, 3, 4, 5, tzinfo=datetime.timezone.utc)

VALUES = {
    'ACL': 'private', 'CacheControl': 'no-cache', 'ChecksumAlgorithm': 'SHA256',
    'ContentDisposition': 'inline', 'ContentEncoding': 'identity',
    'ContentLanguage': 'en', 'ContentType': 'text/plain',
    'ExpectedBucketOwner': '123456789012', 'Expires': DT,
    'GrantFullControl': 'id=a', 'GrantRead': 'id=b', 'GrantReadACP': 'id=c',
    'GrantWriteACP': 'id=d', 'GrantWriteACL': 'id=e', 'Metadata': {'k': 'v'},
    'ObjectLockLegalHoldStatus': 'ON', 'ObjectLockMode': 'GOVERNANCE',
    'ObjectLockRetainUntilDate': DT, 'RequestPayer': 'requester',
    'ServerSideEncryption': 'AES256', 'StorageClass': 'STANDARD',
    'SSECustomerAlgorithm': 'AES256', 'SSECustomerKey': 'k' * 32,
    'SSECustomerKeyMD5': 'bWQ1', 'SSEKMSKeyId': 'kms-1',
    'SSEKMSEncryptionContext': 'ctx', 'Tagging': 'a=b',
    'WebsiteRedirectLocation': '/x', 'ChecksumType': 'FULL_OBJECT',
    'MpuObjectSize': 5, 'ChecksumCRC32': 'AAAAAA==', 'ChecksumCRC32C': 'AAAAAA==',
    'ChecksumCRC64NVME': 'AAAAAAAAAAA=', 'ChecksumSHA1': 'c2hhMQ==',
    'ChecksumSHA256': 'c2hhMjU2', 'CopySourceIfMatch': '"etag"',
    'CopySourceIfModifiedSince': DT, 'CopySourceIfNoneMatch': '"x"',
    'CopySourceIfUnmodifiedSince': DT, 'CopySourceSSECustomerAlgorithm': 'AES256',
    'CopySourceSSECustomerKey': 's' * 32, 'CopySourceSSECustomerKeyMD5': 'bWQ1',
    'MetadataDirective': 'COPY', 'TaggingDirective': 'COPY', 'MFA': 'sn 123456',
    'VersionId': 'v1', 'ChecksumMode': 'ENABLED',
}
FULLOBJ = ['ChecksumCRC32', 'ChecksumCRC32C', 'ChecksumCRC64NVME',
           'ChecksumSHA1', 'ChecksumSHA256']
ALGO = {'ChecksumCRC32': 'CRC32', 'ChecksumCRC32C': 'CRC32C',
        'ChecksumCRC64NVME': 'CRC64NVME', 'ChecksumSHA1': 'SHA1',
        'ChecksumSHA256': 'SHA256'}
HEADMAP = {
    'CopySourceIfMatch': 'IfMatch', 'CopySourceIfModifiedSince': 'IfModifiedSince',
    'CopySourceIfNoneMatch': 'IfNoneMatch',
    'CopySourceIfUnmodifiedSince': 'IfUnmodifiedSince',
    'CopySourceSSECustomerKey': 'SSECustomerKey',
    'CopySourceSSECustomerAlgorithm': 'SSECustomerAlgorithm',
    'CopySourceSSECustomerKeyMD5': 'SSECustomerKeyMD5',
    'RequestPayer': 'RequestPayer', 'ExpectedBucketOwner': 'ExpectedBucketOwner',
}
NOT_ALLOWED = ['Foo', 'Bucket', 'Range', 'IfMatch', 'PartNumber']


def gen_consts():
    import botocore.session
    sm = botocore.session.Session().get_service_model('s3')
    lines = ['--------------------------- MODULE RoutingConsts ---------------------------',
             '\\* generated from the installed botocore S3 service model',
             'Accepts == [']
    ent = []
    for op in OPS:
        members = sorted(sm.operation_model(op).input_shape.members)
        ent.append('  %s |-> {%s}' % (op, ', '.join('"%s"' % m for m in members)))
    lines.append(',\n'.join(ent))
    lines.append(']')
    lines.append('=' * 77)
    return '\n'.join(lines) + '\n', {
        op: sorted(sm.operation_model(op).input_shape.members) for op in OPS}


def tm_rows():
    """(method, mode, known, given dict, expect, ops, defaults)"""
    import s3transfer.manager as M
    TM = M.TransferManager
    rows = []

    def add(method, mode, known, given, ops, expect='ok', defaults=False):
        rows.append(dict(fe='tm', method=method, mode=mode, known=known,
                         given=given, ops=ops, expect=expect, defaults=defaults))

    up_ops = {'single': ['PutObject'],
              'multipart': ['CreateMultipartUpload', 'UploadPart',
                            'CompleteMultipartUpload']}
    for mode in ('single', 'multipart'):
        for a in TM.ALLOWED_UPLOAD_ARGS:
            if mode == 'multipart' and a in ('ChecksumCRC32C', 'ChecksumCRC64NVME'):
                continue    # part checksums of these algorithms need awscrt
            add('upload', mode, True, {a: VALUES[a]}, up_ops[mode])
        # checksum steering subsets
        for c in FULLOBJ:
            if mode == 'multipart' and c in ('ChecksumCRC32C', 'ChecksumCRC64NVME'):
                continue
            add('upload', mode, True, {c: VALUES[c], 'ChecksumType': 'FULL_OBJECT'},
                up_ops[mode])
            add('upload', mode, True, {c: VALUES[c], 'ChecksumAlgorithm': ALGO[c]},
                up_ops[mode])
            add('upload', mode, True, {c: VALUES[c]}, up_ops[mode], defaults=True)
        add('upload', mode, True, {}, up_ops[mode], defaults=True)
        add('upload', mode, True, {'ACL': 'private'}, up_ops[mode], defaults=True)
        add('upload', mode, True, {'ChecksumAlgorithm': 'SHA1'}, up_ops[mode],
            defaults=True)
        for a in NOT_ALLOWED + ['CopySourceIfMatch', 'MFA', 'VersionId']:
            add('upload', mode, True, {a: 'x'}, [], expect='rejected')
    # a caller re-using one extra_args dict for two uploads: the second
    # upload must receive exactly what the caller put into the dict
    for first_mode, first_given, second_mode, update in (
            ('multipart', {'ChecksumSHA256': VALUES['ChecksumSHA256']}, 'single', {}),
            ('single', {}, 'single', {'ChecksumSHA256': VALUES['ChecksumSHA256']}),
            ('multipart', {'ChecksumSHA1': VALUES['ChecksumSHA1']}, 'multipart', {}),
            ('single', {'ACL': 'private'}, 'multipart', {'ChecksumCRC32': VALUES['ChecksumCRC32']})):
        for defaults in (False, True):
            given2 = dict(first_given)
            given2.update(update)
            rows.append(dict(fe='tm', method='upload', mode=second_mode, known=True,
                             given=given2, ops=up_ops[second_mode], expect='ok',
                             defaults=defaults,
                             seq=dict(first_mode=first_mode, first_given=first_given,
                                      update=update)))
    for mode in ('single', 'multipart'):
        for known in (True, False):
            ops = ['GetObject'] + ([] if known else ['HeadObject'])
            for a in TM.ALLOWED_DOWNLOAD_ARGS:
                add('download', mode, known, {a: VALUES[a]}, ops)
            for a in NOT_ALLOWED + ['ACL', 'IfNoneMatch']:
                add('download', mode, known, {a: 'x'}, [], expect='rejected')
    cp_ops = {'single': ['CopyObject'],
              'multipart': ['CreateMultipartUpload', 'UploadPartCopy',
                            'CompleteMultipartUpload']}
    for mode in ('single', 'multipart'):
        for known in (True, False):
            ops = cp_ops[mode] + ([] if known else ['HeadObject'])
            for a in TM.ALLOWED_COPY_ARGS:
                add('copy', mode, known, {a: VALUES[a]}, ops)
            add('copy', mode, known, {
                'CopySourceIfMatch': VALUES['CopySourceIfMatch'],
                'CopySourceSSECustomerKey': VALUES['CopySourceSSECustomerKey'],
                'SSECustomerKey': VALUES['SSECustomerKey'], 'ACL': 'private'}, ops)
            for a in NOT_ALLOWED + ['MFA', 'ChecksumMode']:
                add('copy', mode, known, {a: 'x'}, [], expect='rejected')
    # ... and for two copies: a multipart copy adds a CopySourceRange per part, which
    # must stay in the per-request arguments and not reach the caller's dict
    for first_mode, first_given, second_mode, update in (
            ('multipart', {'RequestPayer': VALUES['RequestPayer']}, 'single', {}),
            ('multipart', {}, 'single', {}),
            ('multipart', {'SSECustomerKey': VALUES['SSECustomerKey'],
                           'SSECustomerAlgorithm': VALUES['SSECustomerAlgorithm']}, 'multipart', {}),
            ('multipart', {'ExpectedBucketOwner': VALUES['ExpectedBucketOwner']}, 'multipart',
             {'ACL': 'private'}),
            ('single', {'RequestPayer': VALUES['RequestPayer']}, 'multipart', {})):
        given2 = dict(first_given)
        given2.update(update)
        rows.append(dict(fe='tm', method='copy', mode=second_mode, known=True,
                         given=given2, ops=cp_ops[second_mode], expect='ok',
                         defaults=False,
                         seq=dict(first_method='copy', first_mode=first_mode,
                                  first_given=first_given, update=update)))
    for a in TM.ALLOWED_DELETE_ARGS:
        add('delete', 'single', True, {a: VALUES[a]}, ['DeleteObject'])
    # the same routing with debug logging switched on (code that runs only
    # when a log level is enabled must not touch the arguments)
    for mode in ('single', 'multipart'):
        for method, ops, args in (
                ('upload', up_ops[mode], ['SSECustomerKey', 'Metadata', 'ACL']),
                ('download', ['GetObject'], ['SSECustomerKey', 'VersionId']),
                ('copy', cp_ops[mode], ['SSECustomerKey', 'CopySourceSSECustomerKey', 'Tagging'])):
            for a in args:
                rows.append(dict(fe='tm', method=method, mode=mode, known=True,
                                 given={a: VALUES[a]}, ops=ops, expect='ok',
                                 defaults=False, debug_log=True))
    for a in NOT_ALLOWED + ['ACL']:
        add('delete', 'single', True, {a: 'x'}, [], expect='rejected')
    return rows


def run_tm_row(row):
    import runner
    size = 3 if row['mode'] == 'single' else 5
    t = {'kind': row['method'], 'size': size, 'extra_args': dict(row['given'])}
    if row['method'] == 'upload':
        t['src'] = 'path'
    if row['method'] == 'download':
        t['dst'] = 'seekable'
    if row['known'] and row['method'] in ('download', 'copy'):
        t['subs'] = [{'provide_size': size}]
    sc = {'transfers': [t],
          'client': {'checksum': 'when_supported' if row['defaults'] else 'when_required'}}
    xkey = 'k0'
    if row.get('seq'):
        q = row['seq']
        t1 = {'kind': q.get('first_method', 'upload'),
              'size': 3 if q['first_mode'] == 'single' else 5,
              'extra_args': dict(q['first_given']), 'extra_ref': 'shared'}
        if t1['kind'] == 'upload':
            t1['src'] = 'path'
        else:
            t1['subs'] = [{'provide_size': t1['size']}]
        t2 = dict(t, extra_args={}, extra_ref='shared', extra_update=dict(q['update']))
        sc['transfers'] = [t1, t2]
        sc['cfg'] = {'S': 1}
        sc['user'] = {'sequential': True}
        xkey = 'k1'
    import logging
    lg = logging.getLogger('s3transfer')
    old_level = lg.level
    nh = logging.NullHandler()
    if row.get('debug_log'):
        lg.addHandler(nh)
        lg.setLevel(logging.DEBUG)
    try:
        res = runner.run_scenario(sc, coop.FifoChooser())
    finally:
        if row.get('debug_log'):
            lg.setLevel(old_level)
            lg.removeHandler(nh)
    calls = []
    rejected = False
    for e in res['events']:
        if e.get('e') == 'Ret' and not e.get('ok') and e.get('err') == 'ValueError':
            rejected = True
    if res['thread_errors'] and not rejected:
        raise RuntimeError(res['thread_errors'][0][2])
    given = row['given']
    for op, params in res['api_calls']:
        if op == 'AbortMultipartUpload':
            continue
        if params.get('Key') not in (xkey, 'src-' + xkey):
            continue
        changed = []
        for k, v in params.items():
            if k in given and given[k] != v and not (
                    k == 'ChecksumAlgorithm' and set(given) & set(FULLOBJ)):
                changed.append(k)
        if row['method'] == 'copy' and op == 'HeadObject':
            changed = []
            for g, h in HEADMAP.items():
                if g in given and h in params and params[h] != given[g]:
                    changed.append(h)
        calls.append({'op': op, 'args': sorted(params), 'changed': changed,
                      'algo': str(params.get('ChecksumAlgorithm', '')),
                      'ctype': str(params.get('ChecksumType', ''))})
    xi = 1 if row.get('seq') else 0
    ok = (res['results'].get(xi) or ('none',))[0] == 'ok'
    return {'calls': calls, 'rejected': rejected, 'completed': ok,
            'outcome': str(res['results'].get(xi))}


def run(tier, seed):
    ck = checklib.Check('C15', tier, seed)
    ck.coverage['rule'] = (
        'one case per (front-end method, mode, size known/discovered, set of '
        'extra arguments): the real front-end is run with a real botocore '
        'client and the kwargs of every API call are compared by TLC with '
        'Routing.tla; exhaustive over the allow-lists; distinct = distinct '
        'rows; all non-trivial')
    consts, accepts = gen_consts()
    rows = tm_rows()
    try:
        from checks import c15_more
        rows += c15_more.rows()
    except ImportError:
        c15_more = None
    out = []
    for i, row in enumerate(rows):
        if row['fe'] == 'tm':
            r = run_tm_row(row)
        else:
            r = c15_more.run_row(row)
        rec = {'id': i, 'fe': row['fe'], 'method': row['method'],
               'mode': row['mode'], 'known': row['known'],
               'given': sorted(row['given']), 'ops': row['ops'],
               'expect': row['expect'], 'defaults': row['defaults'],
               'calls': r['calls'], 'rejected': r['rejected'],
               'completed': r['completed']}
        out.append(rec)
        row['_obs'] = r
        ck.distinct([row['fe'], row['method'], row['mode'], row['known'],
                     sorted(row['given']), row['defaults'], bool(row.get('debug_log'))])
    ck.sample({'kind': 'routing rows', 'rows': out[:2]})
    d = tempfile.mkdtemp(prefix='verif-c15-')
    try:
        path = os.path.join(d, 'rows.ndjson')
        with open(path, 'w') as f:
            for rec in out:
                f.write(json.dumps(rec) + '\n')
        cfg = 'SPECIFICATION Spec\nCONSTRAINT Report\nCHECK_DEADLOCK FALSE\n'
        r = tlc.run_tlc('Routing_Trace', cfg, workers=1,
                        env={'TRACE_FILE': path}, timeout=3000,
                        files={'RoutingConsts.tla': consts})
        ck.add_tlc('Routing_Trace', r, exhaustive=True)
        res = r.json_prints('ROUTING ')
        if not res:
            ck.machinery_errors.append('no ROUTING verdict from TLC')
            return ck.finish()
        j = json.loads(res[-1])
        if j['n'] != len(out):
            ck.machinery_errors.append(f'TLC saw {j["n"]} of {len(out)} rows')
        ck.coverage['traces_validated_against_impl'] = j['n']
        ck.coverage['evaluations'] = j['n']
        ck.coverage['exhaustive'] = True
        ck.coverage['botocore_ops'] = {k: len(v) for k, v in accepts.items()}
        for bid in j['bad']:
            row, rec = rows[bid], out[bid]
            clause = 'C15_DisallowedRejectedBeforeAnyRequest' \
                if row['expect'] == 'rejected' else 'C15_ForwardedIffAccepted'
            ck.violation(clause, {
                'front_end': row['fe'], 'method': row['method'],
                'mode': row['mode'], 'known': row['known'],
                'given': sorted(row['given']), 'defaults': row['defaults'],
                'arg': sorted(row['given'])[0] if len(row['given']) == 1 else None,
                'observed': rec['calls'], 'rejected': rec['rejected'],
                'completed': rec['completed'],
                'outcome': row['_obs'].get('outcome')},
                replay={'kind': 'c15', 'row': {k: v for k, v in rec.items()}})
    finally:
        shutil.rmtree(d, ignore_errors=True)
    ck.assumptions += [
        'multipart uploads with a user supplied CRC32C / CRC64NVME full-object '
        'checksum are not run: computing the part checksums needs awscrt, '
        'which is not installed',
        'kwargs are captured by a provide-client-params handler, i.e. before '
        'botocore rewrites them (SSE-C key encoding, CopySource quoting)',
    ]
    return ck.finish()


def replay(path):
    with open(path) as f:
        body = json.load(f)
    print(json.dumps(body['report'], indent=1, default=str)[:4000])
    return 1
