---------------------------- MODULE PartPlanApa ----------------------------
(***************************************************************************)
(* Real-scale, symbolic version of the theorems of PartPlan.tla for        *)
(* Apalache (unbounded integers): size up to 5 TiB, chunk up to 6 GiB,     *)
(* S3's real limits.  The formulas are restated without RECURSIVE (the     *)
(* adjuster's doubling loop becomes a state machine: one doubling per      *)
(* step), everything else is the same arithmetic as PartPlan.tla.          *)
(***************************************************************************)
EXTENDS Integers

MiB == 1048576
GiB == 1073741824
MinPart == 5 * MiB
MaxPart == 5 * GiB
MaxParts == 10000
MaxObject == 5 * 1024 * GiB          \* 5 TiB
MaxChunk == 6 * GiB

VARIABLES
    \* @type: Int;
    size,
    \* @type: Int;
    chunk,
    \* @type: Int;
    c,        \* the adjuster's working chunk size
    \* @type: Int;
    i,        \* an arbitrary part index
    \* @type: Int;
    steps

CeilDiv(a, b) == (a + b - 1) \div b
NumParts(s, p) == CeilDiv(s, p)
Clamp(x) == IF x > MaxPart THEN MaxPart ELSE IF x < MinPart THEN MinPart ELSE x

Init ==
    /\ size \in 0..MaxObject
    /\ chunk \in 1..MaxChunk
    /\ c = chunk
    /\ i \in 0..MaxObject
    /\ steps = 0

\* ChunksizeAdjuster._adjust_for_max_parts, one loop iteration per step
Next ==
    /\ NumParts(size, c) > MaxParts
    /\ c' = 2 * c
    /\ steps' = steps + 1
    /\ UNCHANGED <<size, chunk, i>>

\* ---- theorems about ranges (any size, any chunk, any index)
RangesTile ==
    LET n == NumParts(size, chunk) IN
    /\ (size > 0) => n >= 1
    /\ (size = 0) => n = 0
    /\ (i >= 0 /\ i <= n - 2) => (i * chunk + chunk - 1) + 1 = (i + 1) * chunk
    /\ (n >= 1) => /\ (n - 1) * chunk <= size - 1
                   /\ (size - 1) - (n - 1) * chunk + 1 <= chunk
    /\ (i >= 0 /\ i <= n - 2) => (i + 1) * chunk <= size - 1

\* ---- theorems about the adjuster, stated when its loop has ended
LoopDone == NumParts(size, c) <= MaxParts
Adjusted == Clamp(c)
AdjustedWithinLimits ==
    LoopDone => /\ MinPart <= Adjusted /\ Adjusted <= MaxPart
                /\ NumParts(size, Adjusted) <= MaxParts
ChangedOnlyIfRequired ==
    (steps = 0 /\ LoopDone /\ MinPart <= chunk /\ chunk <= MaxPart) => Adjusted = chunk
\* the loop ends: 5 TiB / 2^k <= 10 000 parts after at most 30 doublings
LoopTerminates == steps <= 30
Inv == RangesTile /\ AdjustedWithinLimits /\ ChangedOnlyIfRequired /\ LoopTerminates
=============================================================================
